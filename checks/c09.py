"""C09 - gear tooth force and stresses equal the documented formulas.

Decided clause: the formulas coded in the gear classes (tangential force by mating role, Lewis
bending stress incl. the helical virtual-teeth geometry and the worm-wheel normal-pitch form, Hertz
contact stress by role), their ValueError exits under missing mate data, the `is computable` flags
as exhaustive truth tables, the Lewis interpolation call shape and the two data tables.
Not decided: numeric output of scipy's interpolation."""
from __future__ import annotations

import ast
import csv
import io

from sa import sx as sxm
from sa.extract import method_paths, eval_in_state, truth_table
from sa.match import SpecCtx, match_cases, compatible, value_equal
from sa.spec.tables import LEWIS, PUBLISHED, WORM
from sa.sx import SX, Q, N, Dyn, Bv, Bsym, Ov, Outcome, CannotDecide

OPAQUE = {'worm_gear_and_wheel_maximum_helix_angle_function', 'worm_wheel_lewis_factor_function'}
GEARS = ('SpurGear', 'HelicalGear', 'WormWheel')
MASTER = 'self.mating_role == MatingMaster'
SLAVE = 'self.mating_role != MatingMaster and self.mating_role == MatingSlave'
NOROLE = 'self.mating_role != MatingMaster and self.mating_role != MatingSlave'

HERTZ = '0.262922*sqrt(4*Ft{extra}/(b*A.cos()*A.sin())*(1/D1 + 1/D2)*(E1*E2/(E1 + E2)))'


def _raise_ok(rep, rule, cons, raises, spec, ctx, loc, expr, exc='ValueError'):
    """some path under `expr` raises exc, and no completing path is compatible with it (checked by caller)"""
    sg = spec.guards(expr)
    hits = [r for r in raises if compatible(r[0], sg, ctx)]
    ok = bool(hits) and all(r[1] == exc for r in hits)
    rep.decide(ok, rule, cons, f'with `{expr}` the method does not raise {exc} '
               f'({[r[1] for r in hits] or "no raising path"})', loc=loc)
    return ok


def check_force(model, rep, sx):
    ctx = sx.ctx
    for cls in GEARS:
        m, stores, raises, others = method_paths(sx, cls, 'compute_tangential_force', '__tangential_force')
        rep.inspect(len(stores) + len(raises))
        spec = SpecCtx(sx, cls)
        cases = [('master', spec.guards(MASTER), spec.value('abs(self.load_torque)/(self.reference_diameter/2)')),
                 ('slave', spec.guards(SLAVE), spec.value('abs(self.driving_torque)/(self.reference_diameter/2)'))]
        match_cases(rep, 'C09.force', f'{cls}.compute_tangential_force', m.loc,
                    [(g, v, ln) for g, v, ln, _ in stores], cases, ctx, sx.show)
        for o, why in others:
            rep.violation('C09.force', f'{cls}.compute_tangential_force', f'a completing path has {why}', m.loc)
        _raise_ok(rep, 'C09.force', f'{cls}.compute_tangential_force[no-role]', raises, spec, ctx, m.loc, NOROLE)
        ng = spec.guards(NOROLE)
        leak = [s for s in stores if compatible(s[0], ng, ctx)]
        if leak:
            rep.violation('C09.force', f'{cls}.compute_tangential_force[no-role]',
                          'a force is stored although the gear has no mating role', m.loc)
    # WormGear: only the role <-> torque mapping (its extra tan(helix) factor is outside the property)
    if 'WormGear' in model.classes:
        m, stores, raises, others = method_paths(sx, 'WormGear', 'compute_tangential_force', '__tangential_force')
        spec = SpecCtx(sx, 'WormGear')
        mg, sg = spec.guards(MASTER), spec.guards(SLAVE)
        ms = [s for s in stores if compatible(s[0], mg, ctx)]
        ss = [s for s in stores if compatible(s[0], sg, ctx) and s not in ms]
        ok = len(ms) == 1 and len(ss) == 1
        why = 'expected exactly one master and one slave branch'
        if ok:
            lt = next(iter(spec.value('self.load_torque').term.atoms()))
            dt = spec.value('self.driving_torque').term
            swapped = ctx.subst(ms[0][1].term, {lt: dt})
            ok = ctx.eq(swapped, ss[0][1].term) and lt in _deep_atoms(ctx, ms[0][1].term)
            why = 'master branch must use the load torque and the slave branch the driving torque, same formula'
        rep.decide(ok, 'C09.force', 'WormGear.compute_tangential_force[role-mapping]', why, loc=m.loc)
        d2 = spec.value('abs(self.load_torque)/(self.reference_diameter/2)')
        if ms and not ctx.eq(ms[0][1].term, d2.term):
            rep.note('C09.force', 'WormGear.compute_tangential_force',
                     'carries an extra factor (tan of the helix angle) relative to |T|/(d/2); outside the '
                     'property\'s sentence and anchors - informational', m.loc)
    rep.require('C09.force', 9)


def _deep_atoms(ctx, t):
    out = set()
    todo = list(t.atoms())
    while todo:
        a = todo.pop()
        if a in out:
            continue
        out.add(a)
        if a in ctx.defs:
            for x in ctx.defs[a][1]:
                todo.extend(x.atoms())
    return out


def check_bending(model, rep, sx):
    ctx = sx.ctx
    for cls in ('SpurGear', 'HelicalGear'):
        m, stores, raises, others = method_paths(sx, cls, 'compute_bending_stress', '__bending_stress')
        spec = SpecCtx(sx, cls, symbols={'Ft': 'self.tangential_force', 'm': 'self.module', 'b': 'self.face_width',
                                          'Y': 'self.lewis_factor'})
        cases = [('all', [], spec.value('Ft/(m*b*Y)'))]
        match_cases(rep, 'C09.bending', f'{cls}.compute_bending_stress', m.loc,
                    [(g, v, ln) for g, v, ln, _ in stores], cases, ctx, sx.show)
        rep.inspect(len(stores))
        if raises or others:
            rep.violation('C09.bending', f'{cls}.compute_bending_stress', 'unexpected raising / store-less path', m.loc)
    # Lewis factor argument, from the constructors
    for cls, expr in (('SpurGear', 'lewis_factor_function(self.n_teeth).take(0)'),
                      ('HelicalGear', None)):
        m = model.member(cls, '__init__')
        outs = sx.run(m.node, m.module, cls)
        done = [o for o in outs if o.kind in ('fall', 'return') and
                any(e[0] == 'store' and e[2].endswith(f'_{cls}__lewis_factor') for e in o.state.effects)]
        if not done:
            rep.cannot('C09.lewis-arg', f'{cls}.__init__', 'no constructor path stores the Lewis factor', m.loc)
            continue
        ok, why = True, ''
        for o in done:
            got = [r for r in eval_in_state(sx, cls, 'self.lewis_factor', o.state) if not isinstance(r, Outcome)]
            if len(got) != 1:
                ok, why = False, 'lewis_factor not readable after construction'
                break
            got = got[0][1]
            if cls == 'SpurGear':
                want = SpecCtx(sx, cls, env={'n_teeth': sx.typed_atom('n_teeth', 'num')}).value(
                    'lewis_factor_function(n_teeth).take(0)')
            else:
                env = {'n_teeth': sx.typed_atom('n_teeth', 'num'),
                       'helix_angle': sx.typed_atom('helix_angle', ('q', 'Angle'))}
                sp = SpecCtx(sx, cls, env=env)
                sp.env['at'] = sp.value("Angle(value=atan(Angle(20, 'deg').tan()/helix_angle.cos()), unit='rad')")
                sp.env['bb'] = sp.value("Angle(value=atan(at.cos()*helix_angle.tan()), unit='rad')")
                want = sp.value('lewis_factor_function(n_teeth/bb.cos()**2/helix_angle.cos()).take(0)')
            if not value_equal(got, want, ctx):
                ok, why = False, (f'Lewis factor is looked up at `{sx.show(got)[:200]}`, specified '
                                  f'`{sx.show(want)[:200]}`')
        rep.decide(ok, 'C09.lewis-arg', f'{cls}.__init__', why, loc=m.loc)
        rep.inspect(len(done))
    # worm wheel
    cls = 'WormWheel'
    m, stores, raises, others = method_paths(sx, cls, 'compute_bending_stress', '__bending_stress')
    spec = SpecCtx(sx, cls, symbols={'Ft': 'self.tangential_force', 'b': 'self.face_width', 'Y': 'self.lewis_factor',
                                     'z': 'self.n_teeth'})
    cases = []
    for role, gexpr, mate in (('master', MASTER, 'self.drives'), ('slave', SLAVE, 'self.driven_by')):
        sp = SpecCtx(sx, cls, env=dict(spec.env))
        sp.env['dw'] = sp.value(f'{mate}.reference_diameter')
        sp.env['bw'] = sp.value(f'{mate}.helix_angle')
        cases.append((role, sp.guards(gexpr), sp.value('Ft/((pi*dw*bw.sin()/z)*min(b, 0.67*dw))/Y')))
    match_cases(rep, 'C09.bending', f'{cls}.compute_bending_stress', m.loc,
                [(g, v, ln) for g, v, ln, _ in stores], cases, ctx, sx.show)
    _raise_ok(rep, 'C09.bending', f'{cls}.compute_bending_stress[no-role]', raises, spec, ctx, m.loc, NOROLE)
    # worm-wheel Lewis factor: by pressure angle from the table
    mi = model.member(cls, '__init__')
    outs = sx.run(mi.node, mi.module, cls)
    done = [o for o in outs if o.kind in ('fall', 'return') and
            any(e[0] == 'store' and e[2].endswith('_WormWheel__lewis_factor') for e in o.state.effects)]
    ok = bool(done)
    why = 'no constructor path stores the worm-wheel Lewis factor'
    for o in done:
        got = [r for r in eval_in_state(sx, cls, 'self.lewis_factor', o.state) if not isinstance(r, Outcome)]
        want = SpecCtx(sx, cls, env={'pressure_angle': sx.typed_atom('pressure_angle', ('q', 'Angle'))}).value(
            'worm_wheel_lewis_factor_function(pressure_angle=pressure_angle)')
        if len(got) != 1 or sx.show(got[0][1]) != sx.show(want):
            ok, why = False, f'worm-wheel Lewis factor is `{sx.show(got[0][1]) if got else None}`'
    rep.decide(ok, 'C09.lewis-arg', 'WormWheel.__init__', why, loc=mi.loc)
    rep.require('C09.bending', 5)
    rep.require('C09.lewis-arg', 3)


def check_contact(model, rep, sx):
    ctx = sx.ctx
    from sa.facts import ctor_field_defs
    for cls in ('SpurGear', 'HelicalGear'):
        m, stores, raises, others = method_paths(sx, cls, 'compute_contact_stress', '__contact_stress')
        rep.inspect(len(stores) + len(raises))
        # constants fixed by the constructor (pressure angle, transverse pressure angle) are expanded
        defs = ctor_field_defs(sx, cls)
        stores = [(g, (Q(v.kind, ctx.subst(v.term, defs), v.unit) if isinstance(v, Q) else v), ln, st)
                  for g, v, ln, st in stores]
        cases = []
        A = "Angle(20, 'deg')" if cls == 'SpurGear' else \
            "Angle(value=atan(Angle(20, 'deg').tan()/self.helix_angle.cos()), unit='rad')"
        for role, gexpr, mate in (('master', MASTER, 'self.drives'), ('slave', SLAVE, 'self.driven_by')):
            sp = SpecCtx(sx, cls, symbols={'Ft': 'self.tangential_force', 'b': 'self.face_width',
                                           'D1': 'self.reference_diameter', 'E1': 'self.elastic_modulus',
                                           'D2': f'{mate}.reference_diameter', 'E2': f'{mate}.elastic_modulus'})
            sp.env['A'] = sp.value(A)
            if cls == 'HelicalGear':
                sp.env['B'] = sp.value('self.helix_angle')
            formula = HERTZ.format(extra='*B.cos()' if cls == 'HelicalGear' else '')
            want = sp.value(f"Stress(value=({formula}).to('Pa').value if False else "
                            f"0.262922*sqrt(((2*E1*(E2/(E1 + E2))).to('Pa').value)*"
                            f"((Ft/A.cos()/(b{'/B.cos()' if cls == 'HelicalGear' else ''}*(A.sin()/2*D1*(D2/(D1 + D2))))).to('Pa').value)), unit='Pa')")
            # independent statement of the same Hertz expression, in SI magnitudes
            si = SpecCtx(sx, cls, env={k: N(v.term) if hasattr(v, 'term') else v for k, v in sp.env.items()
                                       if k in ('Ft', 'b', 'D1', 'D2', 'E1', 'E2')})
            si.env['A'] = sp.env['A']
            if cls == 'HelicalGear':
                si.env['B'] = sp.env['B']
            hertz = si.value(formula)
            if not ctx.eq(hertz.term, want.term):
                rep.cannot('C09.contact', f'{cls}[{role}]', 'internal: the two statements of the Hertz oracle disagree')
                continue
            g = sp.guards(f'{gexpr} and {mate}.module is not None and {mate}.elastic_modulus is not None')
            cases.append((role, g, Q('Stress', ctx.subst(hertz.term, defs), None)))
            # mate data missing -> ValueError
            for missing in ('module', 'elastic_modulus'):
                _raise_ok(rep, 'C09.mate-data', f'{cls}.compute_contact_stress[{role},{missing} missing]', raises, sp, ctx,
                          m.loc, f'{gexpr} and {mate}.{missing} is None')
                mg = sp.guards(f'{gexpr} and {mate}.{missing} is None')
                if any(compatible(s[0], mg, ctx) for s in stores):
                    rep.violation('C09.mate-data', f'{cls}.compute_contact_stress[{role},{missing} missing]',
                                  f'a contact stress is stored although the mate\'s {missing} is None', m.loc)
        match_cases(rep, 'C09.contact', f'{cls}.compute_contact_stress', m.loc,
                    [(g, v, ln) for g, v, ln, _ in stores], cases, ctx, sx.show)
        sp0 = SpecCtx(sx, cls)
        _raise_ok(rep, 'C09.contact', f'{cls}.compute_contact_stress[no-role]', raises, sp0, ctx, m.loc, NOROLE)
    rep.require('C09.contact', 6)
    rep.require('C09.mate-data', 8)


FLAGS = {
    'tangential_force_is_computable': 'self.module is not None',
    'bending_stress_is_computable': 'self.module is not None and self.face_width is not None',
    'contact_stress_is_computable': 'self.module is not None and self.face_width is not None and self.elastic_modulus is not None',
}
WW_BENDING = ('(self.mating_role == MatingMaster and self.module is not None and self.face_width is not None and '
              'self.drives.reference_diameter is not None) or '
              '(self.mating_role != MatingMaster and self.mating_role == MatingSlave and self.module is not None and '
              'self.face_width is not None and self.driven_by.reference_diameter is not None) or '
              '(self.mating_role != MatingMaster and self.mating_role != MatingSlave and self.module is not None and '
              'self.face_width is not None)')


def check_flags(model, rep, sx):
    ctx = sx.ctx
    n = 0
    todo = [(cls, f, e) for cls in GEARS for f, e in FLAGS.items()]
    todo.append(('WormGear', 'tangential_force_is_computable', 'self.reference_diameter is not None'))
    for cls, flag, expr in todo:
        if cls == 'WormWheel' and flag == 'bending_stress_is_computable':
            expr = WW_BENDING
        mem = model.find_member(cls, flag)
        if mem is None:
            rep.violation('C09.flags', f'{cls}.{flag}', 'flag property missing')
            continue
        rs = eval_in_state(sx, cls, f'self.{flag}')
        paths = []
        bad_val = None
        for r in rs:
            if isinstance(r, Outcome):
                bad_val = f'raises {r.value}'
                continue
            st, v = r
            if isinstance(v, Bv):
                paths.append((list(st.guards), v.b))
            elif isinstance(v, Bsym):
                paths.append((list(st.guards) + [v.guard], True))
                paths.append((list(st.guards) + [v.guard.negate()], False))
            else:
                bad_val = f'returns {sx.show(v)[:60]}'
        spec = SpecCtx(sx, cls)
        dnf = spec.guard_dnf(expr)
        n += 1
        rep.inspect(len(paths))
        if bad_val:
            rep.violation('C09.flags', f'{cls}.{flag}', f'flag {bad_val}', mem.loc)
            continue
        # a mating role is only ever written together with the link to the mate (C10.atomic / C10.effects, absorbed below):
        # `role set, mate missing` is not a state of a gear, whatever a flag would answer there
        excl = []
        if cls in model.classes and model.find_member(cls, 'mating_role') is not None:
            for e in ('self.mating_role == MatingMaster and self.drives is None',
                      'self.mating_role == MatingSlave and self.driven_by is None'):
                try:
                    excl += spec.guard_dnf(e)
                except Exception:
                    pass
        bad, atoms = truth_table(paths, dnf, excluded_dnf=excl)
        if bad is None:
            rep.cannot('C09.flags', f'{cls}.{flag}', f'too many atoms: {len(atoms)}', mem.loc)
        elif bad:
            a, why = bad[0]
            rep.violation('C09.flags', f'{cls}.{flag}', f'truth table differs from the specification: {why} for the '
                          f'assignment {[(str(k[1])[:60], v) for k, v in a.items()]}', mem.loc, oracle=expr)
        else:
            rep.holds('C09.flags', f'{cls}.{flag}', f'exhaustive truth table over {len(atoms)} atom(s) equals `{expr[:80]}`',
                      mem.loc)
    rep.require('C09.flags', 10)


def check_worm_table(model, rep, R='C09.worm-table'):
    mod = 'gearpy/mechanical_objects/mechanical_object_base.py'
    # --- worm CSV
    path = 'gearpy/mechanical_objects/gear_data/worm_gear_and_wheel_data.csv'
    text = model.data.get(path)
    if text is None:
        rep.cannot(R, path, 'file not found')
    else:
        rows = list(csv.reader(io.StringIO(text)))
        hdr, body = rows[0], [r for r in rows[1:] if r]
        rep.decide(hdr == ['Pressure Angle', 'Maximum Helix Angle', 'Lewis Factor'], R, 'header',
                   f'header is {hdr}', loc=path)
        got = {float(r[0]): (float(r[1]), float(r[2])) for r in body}
        for pa, (mh, y) in WORM.items():
            rep.decide(pa in got and abs(got[pa][0] - mh) < 1e-12 and abs(got[pa][1] - y) < 1e-12, R,
                       f'row[{pa:g}]', f'row is {got.get(pa)}, reference ({mh}, {y})', loc=path)
        extra = sorted(set(got) - set(WORM))
        rep.decide(not extra, R, 'rows', f'unknown pressure angles {extra}', loc=path)
    # lookup functions
    for fname, col, unit in (('worm_wheel_lewis_factor_function', 'Lewis Factor', None),
                             ('worm_gear_and_wheel_maximum_helix_angle_function', 'Maximum Helix Angle', 'deg')):
        if fname not in model.functions:
            rep.cannot(R, fname, 'function not found')
            continue
        _, fn = model.functions[fname]
        s = ast.unparse(fn)
        ok = (repr(col) in s) and ('Pressure Angle' in s or 'pressure_angle' in s)
        if unit:
            ok = ok and (f"unit='{unit}'" in s or f'unit="{unit}"' in s or f"'{unit}')" in s)
        rep.decide(ok, R, fname, f'lookup does not return column {col!r} by pressure angle'
                   + (f' in {unit}' if unit else ''), loc=f'{mod}:{fn.lineno}')
    # 'all four worm pressure angles', in any unit: the table lookups must not key on a converted raw number (C07's rule)
    from sa.core import Report
    from checks.c07 import exact_keys
    dep = Report('C07')
    exact_keys(model, dep)
    rep.absorb(dep, {'C07.exact-key': R + '.key'})


def check_tables(model, rep):
    mod = 'gearpy/mechanical_objects/mechanical_object_base.py'
    # --- Lewis CSV
    path = 'gearpy/mechanical_objects/gear_data/lewis_factor_table.csv'
    text = model.data.get(path)
    if text is None:
        rep.cannot('C09.lewis-table', path, 'file not found')
    else:
        rows = list(csv.reader(io.StringIO(text)))
        hdr, body = rows[0], [r for r in rows[1:] if r]
        ok = hdr == ['Number of teeth', 'Lewis Factor']
        rep.decide(ok, 'C09.lewis-table', 'header', f'header is {hdr}', loc=path)
        try:
            got = [(float(a), float(b)) for a, b in body]
        except ValueError:
            got = None
            rep.violation('C09.lewis-table', 'rows', 'non-numeric row', path)
        if got is not None:
            rep.inspect(len(got))
            inc = all(got[i][0] < got[i + 1][0] for i in range(len(got) - 1))
            rep.decide(inc, 'C09.lewis-table', 'abscissae-increasing', 'teeth numbers are not strictly increasing', loc=path)
            ref = dict(LEWIS)
            for z, y in got:
                if z in ref:
                    rep.decide(abs(ref[z] - y) < 1e-12, 'C09.lewis-table', f'row[{z:g}]',
                               f'Lewis factor {y} differs from the reference {ref[z]}', loc=path)
                else:
                    rep.violation('C09.lewis-table', f'row[{z:g}]', 'row not in the reference table', path)
                if z in PUBLISHED and abs(PUBLISHED[z] - y) > 0.004:
                    rep.violation('C09.lewis-table', f'row[{z:g}]', f'{y} is not within 0.004 of the published value {PUBLISHED[z]}', path)
            missing = sorted(set(ref) - {z for z, _ in got})
            rep.decide(not missing, 'C09.lewis-table', 'rows-complete', f'reference rows missing: {missing}', loc=path)
    # --- interp1d call shape (module constants used as aliases are expanded before a column name is looked for)
    _consts = model.module_consts.get(mod, {})

    def _expand(node, depth=0):
        text = ast.unparse(node)
        if depth < 3:
            for x in ast.walk(node):
                if isinstance(x, ast.Name) and x.id in _consts and x.id.isupper() and not isinstance(_consts[x.id], ast.Constant):
                    text = text.replace(x.id, '(' + _expand(_consts[x.id], depth + 1) + ')')
        return text
    call = model.const(mod, 'lewis_factor_function')
    ok, why = True, ''
    if not (isinstance(call, ast.Call) and ast.unparse(call.func).endswith('interp1d')):
        ok, why = False, 'lewis_factor_function is not an interp1d(...) call'
    else:
        kw = {k.arg: k.value for k in call.keywords}
        pos = list(call.args)
        x = kw.get('x', pos[0] if pos else None)
        y = kw.get('y', pos[1] if len(pos) > 1 else None)
        src = {k: ast.unparse(v) for k, v in kw.items()}
        if x is None or 'Number of teeth' not in _expand(x):
            ok, why = False, 'abscissae are not the teeth column'
        elif y is None or 'Lewis Factor' not in _expand(y):
            ok, why = False, 'ordinates are not the Lewis-factor column'
        elif 'kind' in kw and not (isinstance(kw['kind'], ast.Constant) and kw['kind'].value in ('linear', 1)):
            ok, why = False, f'interpolation kind is {src["kind"]}, specified linear'
        elif not (isinstance(kw.get('bounds_error'), ast.Constant) and kw['bounds_error'].value is False):
            ok, why = False, 'bounds_error is not False (teeth numbers beyond the table would raise instead of clamping)'
        else:
            fv = kw.get('fill_value')
            if not (isinstance(fv, ast.Tuple) and len(fv.elts) == 2):
                ok, why = False, 'fill_value is not the (first, last) pair'
            else:
                a, b = _expand(fv.elts[0]), _expand(fv.elts[1])
                first = ('[0]' in a) and ('Lewis Factor' in a)
                last = ('[-1]' in b) and ('Lewis Factor' in b)
                if not (first and last):
                    ok, why = False, f'fill_value does not clamp to the first/last table value ({a[:40]}, {b[:40]})'
    rep.decide(ok, 'C09.lewis-interp', 'lewis_factor_function', why, loc=f'{mod}:{getattr(call, "lineno", 0)}')
    from checks.c19 import check_minimum_teeth
    check_minimum_teeth(model, rep, R='C09.lewis-interp')
    check_worm_table(model, rep)
    rep.require('C09.lewis-table', 38)
    rep.require('C09.worm-table', 6)


def check_pure(model, rep):
    from sa.extract import purity_scan
    for cls in GEARS + ('WormGear',):
        for meth, allowed in (('compute_tangential_force', ('tangential_force',)), ('compute_bending_stress', ('bending_stress',)),
                              ('compute_contact_stress', ('contact_stress',))):
            m = model.find_member(cls, meth)
            if m is None or m.cls != cls and False:
                continue
            bad = purity_scan(model, cls, m.node, allowed)
            rep.decide(not bad, 'C09.pure', f'{cls}.{meth}', f'the formula is not a pure function of the gear data: it {bad[0][1] if bad else ""}',
                       loc=f'{m.module}:{bad[0][0] if bad else m.node.lineno}')
        mi = model.find_member(cls, '__init__')
        bad = [b for b in purity_scan(model, cls, mi.node, ()) if 'self.' not in b[1] or 'shared container' in b[1] and 'time_variables' not in b[1]]
        bad = [b for b in bad if 'stores the attribute' not in b[1] and 'time_variables' not in b[1]]
        rep.decide(not bad, 'C09.pure', f'{cls}.__init__', f'the constructor {bad[0][1] if bad else ""}: values derived from this gear\'s data '
                   f'(e.g. its Lewis factor) can come from another gear', loc=f'{mi.module}:{bad[0][0] if bad else mi.node.lineno}')


def check(model, rep):
    # hidden state Python keeps outside the objects (not modelled by the evaluator): reported before anything else is evaluated
    from checks.solver_common import package_lints as _package_lints
    _package_lints(model, rep, 'C09.hidden-state', ('/mechanical_objects/',))
    rep.explain('C09: force / bending / contact formulas of SpurGear, HelicalGear, WormWheel (and the role mapping of '
                'WormGear) extracted by gated value numbering and compared, per mating role, with specification terms; '
                'helical virtual-teeth geometry and worm-wheel normal-pitch form; ValueError exits under missing mate '
                'data; the computable flags as exhaustive truth tables over their None-tests; Lewis table rows vs the '
                'reference and the published table; interp1d call shape (linear, clamped). Decides the code shape of the '
                'formulas for all parameter values over the reals.')
    sxm.POSITIVE_ATOMS.clear()
    sx = SX(model)
    sx.opaque_calls |= OPAQUE
    check_pure(model, rep)
    from sa.forwarding import check_forwarding
    from sa.forwarding import check_trig
    check_trig(model, rep, 'C09.trig')
    check_forwarding(model, rep, 'C09.forwarding', ('tangential_force', 'bending_stress', 'contact_stress', 'module', 'face_width', 'elastic_modulus', 'reference_diameter', 'n_teeth', 'mating_role', 'drives', 'driven_by', 'load_torque', 'driving_torque', 'tangential_force_is_computable', 'bending_stress_is_computable', 'contact_stress_is_computable'))
    check_force(model, rep, sx)
    check_bending(model, rep, sx)
    check_contact(model, rep, sx)
    check_flags(model, rep, sx)
    check_tables(model, rep)
    # the formulas read the mate through mating_role / drives / driven_by: those are what the relation functions wrote,
    # role and link together, by accepted declarations only (C10's effect and atomicity rules)
    from sa.core import Report
    from checks import c10
    dep = Report('C10')
    c10.check(model, dep)
    for i in dep.instances:
        if i.rule in ('C10.effects', 'C10.atomic'):
            (rep.holds if i.status == 'HOLDS' else (rep.violation if i.status == 'VIOLATION' else rep.cannot))(
                'C09.dep.mate.' + i.rule.split('.')[1], i.construct, i.detail, i.loc)
    sxm.POSITIVE_ATOMS.clear()
    # the formulas' quantity arithmetic is interpreted natively; the operator triples actually met are re-read from C06's dispatch model
    from checks.solver_common import absorb_arith
    used = sorted(t for t in sx.arith_log)
    absorb_arith(model, rep, 'C09.dep.arith', used)
    rep.analysed['operator_triples_used'] = [' '.join(t) for t in used]
    rep.assume('quantity operators are dimensionally sound and unit-blind (C05/C06)')
    rep.assume('scipy.interpolate.interp1d with default kind interpolates linearly between the tabulated rows')
