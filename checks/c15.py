"""C15 - each control rule applies in its documented window with its documented value.

* C15.window  activity predicate of every rule (operators and inclusive ends) - finite truth tables over
              the canonical comparison atoms
* C15.value   proposal formulas as canonical terms (static error, minimum duty cycle, ramp, current-limit root)
* C15.limit-identity  cross-module: the duty cycle returned by StartLimitCurrent, substituted into the torque
              and current laws *extracted from dc_motor.py*, gives exactly the limit current (mod sqrt(x)^2 = x)
Not decided: clipping and which rule wins at run time (C14)."""
from __future__ import annotations

from sa import sx as sxm
from sa.algebra import Rat
from sa.extract import truth_table
from sa.loops import reduction_loop
from sa.match import SpecCtx, compatible, match_cases, value_equal
from sa.spec.variables import VARIABLE_KINDS
from sa.sx import SX, N, Q, Dyn, Bv, NoneV, Outcome, CannotDecide


def _paths(sx, model, cls, meth):
    m = model.member(cls, meth)
    outs = sx.run(m.node, m.module, cls)
    paths, raises = [], []
    for o in outs:
        if o.kind == 'raise':
            raises.append((list(o.state.guards), o.value, o.loc))
        elif o.kind == 'fall' or isinstance(o.value, NoneV):
            paths.append((list(o.state.guards), None, o.loc or m.node.lineno))
        else:
            paths.append((list(o.state.guards), o.value, o.loc))
    return m, paths, raises


def _window(rep, sx, cons, loc, paths, dnf):
    tt = [(g, v is not None) for g, v, _ in paths]
    bad, atoms = truth_table(tt, dnf)
    if bad is None:
        rep.cannot('C15.window', cons, 'too many atoms', loc)
    elif bad:
        a, why = bad[0]
        rep.violation('C15.window', cons, f'the rule is active on a different set of states than specified ({why}) '
                      f'for the assignment {[(str(k[1])[:70], v) for k, v in a.items()]}', loc)
    else:
        rep.holds('C15.window', cons, f'exhaustive truth table over {len(atoms)} comparison atom(s)', loc)


def _prod_atom(sx, paths, what):
    """the single efficiency-product atom used by the code (its filter is not constrained by the property)"""
    ctx = sx.ctx
    found = {}
    for g, v, _ in paths:
        terms = [v.term] if v is not None and hasattr(v, 'term') else []
        terms += [x.rat for x in g if x.kind == 'cmp']
        for t in terms:
            todo = list(t.atoms())
            seen = set()
            while todo:
                a = todo.pop()
                if a in seen:
                    continue
                seen.add(a)
                if a.startswith('prod['):
                    found[a] = ctx.defs[a]
                if a in ctx.defs:
                    for x in ctx.defs[a][1]:
                        todo.extend(x.atoms())
    if len(found) != 1:
        return None, f'expected exactly one efficiency product, found {sorted(found)}'
    a, (f, args) = next(iter(found.items()))
    per_elem = sx.ctx.show(args[0])
    if not per_elem.endswith('.master_gear_efficiency'):
        return None, f'the product runs over `{per_elem}`, not over master_gear_efficiency'
    return a, _filter_problem(sx, f)


def _filter_problem(sx, fname) -> str:
    """eta_t is documented as the product over ALL matings of the chain: the filter of the product loop must let
    through every concrete element class that carries a master_gear_efficiency (spur, helical, worm wheel AND worm gear -
    a WormGear is not a SpurGear)"""
    model = sx.model
    elem, guards = sx.__dict__.get('reduction_filters', {}).get(fname, (None, None))
    if guards is None:
        return ''
    # classes that can be the slave of a mating with losses: the `isinstance(slave, T)` admission tests of the relation
    # functions that take an efficiency / a friction coefficient (a fixed joint always stores efficiency 1)
    import ast
    admitted = set()
    for name, (mod_, fn) in model.functions.items():
        params = {a.arg for a in fn.args.args}
        if 'slave' in params and params & {'efficiency', 'friction_coefficient'}:
            # names that stand for `slave`: itself, and the target of a loop over a literal tuple that mentions it
            # (`for parameter, gear in (('master', master), ('slave', slave))`)
            stands = {'slave'}
            for n in ast.walk(fn):
                if isinstance(n, ast.For) and isinstance(n.iter, (ast.Tuple, ast.List)) \
                        and any(isinstance(x, ast.Name) and x.id == 'slave' for x in ast.walk(n.iter)):
                    stands |= {x.id for x in ast.walk(n.target) if isinstance(x, ast.Name)}
            for n in ast.walk(fn):
                if isinstance(n, ast.If) and n.body and isinstance(n.body[0], ast.Raise) and isinstance(n.test, ast.UnaryOp) \
                        and isinstance(n.test.op, ast.Not) and isinstance(n.test.operand, ast.Call) \
                        and ast.unparse(n.test.operand.func) == 'isinstance' and ast.unparse(n.test.operand.args[0]) in stands:
                    for x in ast.walk(n.test.operand.args[1]):
                        if isinstance(x, ast.Name) and x.id in model.classes:
                            admitted.add(x.id)
    carriers = sorted(c for c in model.subclasses('RotatingObject') if not model.is_abstract_class(c)
                      and any(model.is_subclass(c, a) for a in admitted)
                      and model.find_member(c, 'master_gear_efficiency') is not None)
    if not carriers:
        raise CannotDecide('no class admitted as the slave of a mating was found (admission tests of the relation functions not recognised)')
    missing = []
    for c in carriers:
        ok = True
        for g in guards:
            if g.kind == 'isinstance' and g.key[0] == elem:
                inside = any(model.is_subclass(c, k) for k in g.key[1])
                ok = ok and (inside == g.pol)
            elif g.kind == 'hasattr':
                continue
            elif any('mating_role' in str(k) for k in g.key):
                return (f'the efficiency product is filtered by the mating ROLE (`{g.show(sx.ctx)[:70]}`): a gear that is slave of one mating and master '
                        f'of the next keeps its mating efficiency but carries the role of its LAST declaration, so an idler gear drops out '
                        f'of eta_t')
            else:
                return ''        # a filter on something else than the class: not decided here
        if not ok:
            missing.append(c)
    if missing:
        return (f'the efficiency product skips {missing}: the documented eta_t is the product over all matings of the chain '
                f'(a {missing[0]} that is the slave of a mating carries that mating\'s efficiency)')
    return ''


def check_pure(model, rep, sx):
    """rules and the timer answer from the present state only: no stored (cached) state"""
    for cls in sorted(c for c in model.subclasses('RuleBase', strict=True) if not model.is_abstract_class(c)) + ['Timer']:
        meth = 'is_active' if cls == 'Timer' else 'apply'
        m = model.find_member(cls, meth)
        if m is None:
            continue
        try:
            outs = sx.run(m.node, m.module, cls)
        except CannotDecide as e:
            from sa.extract import purity_scan
            bad = purity_scan(model, cls, m.node)
            if bad:
                rep.violation('C15.pure', f'{cls}.{meth}', f'the rule keeps or consults remembered state: it {bad[0][1]}', f'{m.module}:{bad[0][0]}')
            else:
                rep.cannot('C15.pure', f'{cls}.{meth}', str(e), m.loc)
            continue
        stores = sorted({f'{e[1]}.{e[2]}' for o in outs for e in o.state.effects if e[0] in ('store', 'setitem')})
        from sa.extract import purity_scan
        stores += [w for _, w in purity_scan(model, cls, m.node)]
        selfreads = set()
        rep.decide(not stores, 'C15.pure', f'{cls}.{meth}',
                   f'the rule stores state when asked ({stores[:3]}): later proposals can be computed from remembered values instead '
                   f'of the present load/state (e.g. a cached minimum duty cycle after reset and a changed load)', loc=m.loc)


def check_timer(model, rep, sx):
    m, paths, raises = _paths(sx, model, 'Timer', 'is_active')
    spec = SpecCtx(sx, 'Timer', env={'current_time': sx.typed_atom('current_time', ('q', 'Time'))})
    dnf = spec.guard_dnf('current_time >= self.start_time and current_time - self.start_time <= self.duration')
    tt = []
    ok = True
    from sa.sx import Bsym, implies
    for g, v, ln in paths:
        if isinstance(v, Bsym):
            # a comparison result returned through a local: its truth may already be decided by the path's guards,
            # otherwise the path splits on it
            if implies(g, v.guard):
                v = Bv(True)
            elif implies(g, v.guard.negate()):
                v = Bv(False)
            else:
                tt.append((list(g) + [v.guard], True))
                tt.append((list(g) + [v.guard.negate()], False))
                continue
        if not isinstance(v, Bv):
            ok = False
        else:
            tt.append((g, v.b))
    bad, atoms = truth_table(tt, dnf) if ok else ([('?', 'non-boolean result')], [])
    rep.decide(not bad, 'C15.window', 'Timer.is_active', f'active set differs from start <= t and t - start <= duration '
               f'(both inclusive): {bad[0][1] if bad else ""}', detail=f'truth table over {len(atoms)} atoms', loc=m.loc)
    rep.inspect(len(paths))


def check_constant(model, rep, sx):
    cls = 'ConstantPWM'
    m, paths, raises = _paths(sx, model, cls, 'apply')
    spec = SpecCtx(sx, cls, symbols={'t': 'self.__powertrain.time[-1]', 'start': 'self.__timer.start_time',
                                      'dur': 'self.__timer.duration'})
    _window(rep, sx, 'ConstantPWM.apply', m.loc, paths, spec.guard_dnf('t >= start and t - start <= dur'))
    want = spec.value('self.__target_pwm_value')
    act = [p for p in paths if p[1] is not None]
    rep.decide(bool(act) and all(value_equal(p[1], want, sx.ctx) for p in act), 'C15.value', 'ConstantPWM.apply',
               'an active path does not return the constant target value', loc=m.loc)
    rep.inspect(len(paths))


def check_reach(model, rep, sx):
    cls = 'ReachAngularPosition'
    m, paths, raises = _paths(sx, model, cls, 'apply')
    rep.inspect(len(paths))
    eta, why = _prod_atom(sx, paths, 'static error')
    if eta is None:
        rep.violation('C15.value', 'ReachAngularPosition.apply[static-error]', why, m.loc)
        return
    rep.decide(not why, 'C15.value', 'ReachAngularPosition.apply[efficiency-product]', why, loc=m.loc)
    spec = SpecCtx(sx, cls, symbols={'th': 'self.__encoder.get_value()', 'thb': 'self.__braking_angle',
                                      'target': 'self.__target_angular_position',
                                      'Tl': 'self.__powertrain.elements[0].load_torque',
                                      'Tmax': 'self.__powertrain.elements[0].maximum_torque'})
    spec.env['ETA'] = N(Rat.atom(eta))
    cases = []
    for name, cond, err in (('load-known', 'Tl is not None', '(Tl/Tmax)/ETA*thb'),
                            ('no-load-yet', 'Tl is None', "AngularPosition(0, 'rad')")):
        sp = SpecCtx(sx, cls, env=dict(spec.env))
        sp.env['ths'] = sp.value(f'target - thb + {err}')
        cases.append((f'{name}:braking', sp.guards(f'{cond} and th >= ths'), sp.value('1 - (th - ths)/thb')))
        cases.append((f'{name}:before', sp.guards(f'{cond} and th < ths'), None))
    match_cases(rep, 'C15.value', 'ReachAngularPosition.apply', m.loc, paths, cases, sx.ctx,
                lambda v: 'None' if v is None else sx.show(v))
    if raises:
        rep.violation('C15.value', 'ReachAngularPosition.apply', f'unexpected raising path ({raises[0][1]})', m.loc)


def check_proportional(model, rep, sx):
    cls = 'StartProportionalToAngularPosition'
    m, paths, raises = _paths(sx, model, cls, 'apply')
    rep.inspect(len(paths) + len(raises))
    eta, why = _prod_atom(sx, paths + [(g, None, ln) for g, e, ln in raises], 'minimum duty cycle')
    if eta is None:
        rep.violation('C15.value', f'{cls}.apply[pwm-min]', why, m.loc)
        return
    rep.decide(not why, 'C15.value', f'{cls}.apply[efficiency-product]', why, loc=m.loc)
    base = {'th': 'self.__encoder.get_value()', 'target': 'self.__target_angular_position',
            'g': 'self.__pwm_min_multiplier', 'p': 'self.__pwm_min',
            'Tmax': 'self.__powertrain.elements[0].maximum_torque',
            'i0': 'self.__powertrain.elements[0].no_load_electric_current',
            'imax': 'self.__powertrain.elements[0].maximum_electric_current'}
    REC = "self.__powertrain.elements[0].time_variables['load torque']"
    cases, rcases = [], []
    for src, cond, tl in (('recorded-load', REC, REC + '[0]'),
                          ('current-load', 'not ' + REC, 'self.__powertrain.elements[0].load_torque')):
        sp = SpecCtx(sx, cls, symbols=dict(base))
        sp.env['ETA'] = N(Rat.atom(eta))
        sp.env['Tl'] = sp.value(tl)
        sp.env['Dc'] = sp.value('g*(1/ETA*(Tl/Tmax)*((imax - i0)/imax) + i0/imax)')
        cases.append((f'{src}:ramp-computed', sp.guards(f'{cond} and Dc != 0 and th <= target'),
                      sp.value('(1 - Dc)*th/target + Dc')))
        cases.append((f'{src}:after-computed', sp.guards(f'{cond} and Dc != 0 and th > target'), None))
        cases.append((f'{src}:ramp-parameter', sp.guards(f'{cond} and Dc == 0 and p is not None and th <= target'),
                      sp.value('(1 - p)*th/target + p')))
        cases.append((f'{src}:after-parameter', sp.guards(f'{cond} and Dc == 0 and p is not None and th > target'), None))
        rcases.append((f'{src}:missing-parameter', sp.guards(f'{cond} and Dc == 0 and p is None')))
    match_cases(rep, 'C15.value', f'{cls}.apply', m.loc, paths, cases, sx.ctx,
                lambda v: 'None' if v is None else sx.show(v))
    for name, sg in rcases:
        hits = [r for r in raises if compatible(r[0], sg, sx.ctx)]
        leak = [p for p in paths if compatible(p[0], sg, sx.ctx)]
        rep.decide(bool(hits) and all(h[1] == 'ValueError' for h in hits) and not leak, 'C15.value',
                   f'{cls}.apply[{name}]', 'a missing minimum duty cycle is not reported with ValueError', loc=m.loc)


def check_limit(model, rep, sx):
    cls = 'StartLimitCurrent'
    ctx = sx.ctx
    m, paths, raises = _paths(sx, model, cls, 'apply')
    rep.inspect(len(paths))
    spec = SpecCtx(sx, cls, symbols={'th': 'self.__encoder.get_value()', 'target': 'self.__target_angular_position',
                                      'w': 'self.__tachometer.get_value()', 'w0': 'self.__motor.no_load_speed',
                                      'imax': 'self.__motor.maximum_electric_current',
                                      'i0': 'self.__motor.no_load_electric_current',
                                      'ilim': 'self.__limit_electric_current'})
    _window(rep, sx, f'{cls}.apply', m.loc, paths, spec.guard_dnf('th <= target'))
    spec.env['s'] = spec.value('w/w0')
    spec.env['e'] = spec.value('ilim/imax')
    want = spec.value('1/2*(s + e + sqrt(s**2 + e**2 + 2*s*((ilim - 2*i0)/imax)))')
    act = [p for p in paths if p[1] is not None]
    ok = bool(act) and all(value_equal(p[1], want, ctx) for p in act)
    rep.decide(ok, 'C15.value', f'{cls}.apply', 'the proposed duty cycle is not the documented root '
               '1/2 (s + e + sqrt(s^2 + e^2 + 2 s (ilim - 2 i0)/imax))', loc=m.loc,
               extracted=sx.show(act[0][1])[:300] if act else '')
    # ---- cross-module identity with the motor laws extracted by C08's machinery
    if not act:
        return
    from checks.c08 import extract, SYMS, COMPUTABLE
    msx = sx     # same Ctx: function atoms shared
    mspec = SpecCtx(msx, 'DCMotor', symbols=SYMS)
    laws = {}
    from sa.facts import positive_atoms
    from sa import sx as _sxm
    saved = set(_sxm.POSITIVE_ATOMS)
    _sxm.POSITIVE_ATOMS.update(positive_atoms(SX(model), 'DCMotor'))      # constructor facts of the motor (Tmax, imax, w0 > 0)
    for meth, suffix in (('compute_torque', '__driving_torque'), ('compute_electric_current', '__electric_current')):
        mm, mpaths, others = extract(msx, model, meth, suffix)
        comp = (COMPUTABLE + ' and ') if meth == 'compute_torque' else ''
        sg = mspec.guards(comp + 'abs(D) > i0/imax and D > i0/imax')
        hits = [p for p in mpaths if compatible(p[0], sg, ctx)]
        if len(hits) != 1:
            _sxm.POSITIVE_ATOMS.clear()
            _sxm.POSITIVE_ATOMS.update(saved)
            rep.cannot('C15.limit-identity', 'StartLimitCurrent x DCMotor', f'positive branch of {meth} not unique', mm.loc)
            return
        laws[meth] = hits[0][1].term
    _sxm.POSITIVE_ATOMS.clear()
    _sxm.POSITIVE_ATOMS.update(saved)
    # rename rule atoms to motor atoms
    ren = {}
    for rule_sym, motor_sym in (('w', 'w'), ('w0', 'w0'), ('imax', 'imax'), ('i0', 'i0')):
        ra = next(iter(spec.value(rule_sym).term.atoms()))
        ren[ra] = mspec.value(motor_sym).term
    Dterm = ctx.subst(act[0][1].term, ren)
    Datom = next(iter(mspec.value('D').term.atoms()))
    Tatom = next(iter(mspec.value('T').term.atoms()))
    T_at_D = ctx.subst(laws['compute_torque'], {Datom: Dterm})
    i_at_D = ctx.subst(ctx.subst(laws['compute_electric_current'], {Tatom: T_at_D}), {Datom: Dterm})
    ilim = spec.value('ilim').term
    diff = ctx.reduce(i_at_D - ilim)
    rep.decide(diff.is_zero(), 'C15.limit-identity', 'StartLimitCurrent.apply x DCMotor.compute_torque/compute_electric_current',
               'substituting the proposed duty cycle into the motor\'s torque and current laws does not give the limit '
               'current: the rule no longer inverts the motor characteristic', loc=m.loc,
               extracted=f'i(D(w)) - ilim has {len(diff.n.t)} residual term(s)')


def check_defined(model, rep):
    """every rule is defined on its whole state space: evaluated with the sign checks of the constrained kinds inlined
    (an Angle scaled by a signed factor raises ValueError when the factor is negative), no path of apply() may raise
    except through a `raise` statement of its own (the documented missing-parameter error)"""
    sx2 = SX(model)
    sx2.loop_handler = reduction_loop
    sx2.variable_kinds = VARIABLE_KINDS
    sx2.inline_ctor_guards = True
    for cls in sorted(c for c in model.subclasses('RuleBase', strict=True) if not model.is_abstract_class(c)):
        m = model.find_member(cls, 'apply')
        try:
            outs = sx2.run(m.node, m.module, cls)
        except CannotDecide as e:
            rep.note('C15.defined', f'{cls}.apply', f'not evaluated with inlined sign checks: {e}', m.loc)
            continue
        bad = None
        for o in outs:
            if o.kind != 'raise':
                continue
            sv = [e for e in o.state.effects if e[0] == 'sign-violation']
            if sv:
                bad = (o, sv[-1])
                break
        rep.decide(bad is None, 'C15.defined', f'{cls}.apply',
                   (f'`{bad[1][2]}` builds a {bad[1][1]} from a signed factor: on states with '
                    f'`{bad[0].state.guards[-1].show(sx2.ctx)[:80]}` the rule raises ValueError instead of proposing the documented value') if bad else '',
                   loc=f'{m.module}:{bad[1][3] if bad else m.node.lineno}')
        rep.inspect(len(outs))


def check(model, rep):
    # hidden state Python keeps outside the objects (not modelled by the evaluator): reported before anything else is evaluated
    from checks.solver_common import package_lints as _package_lints
    _package_lints(model, rep, 'C15.hidden-state', ('/motor_control/', '/sensors/'))
    from checks.solver_common import absorb_cmp
    absorb_cmp(model, rep, 'C15.dep.cmp', ('AngularPosition', 'Angle', 'Time', 'TimeInterval'))
    rep.explain('C15: the four rule classes and Timer evaluated by gated value numbering (sensor reads inlined to the '
                'target attribute, the efficiency product summarised as one reduction atom); activity windows compared '
                'as exhaustive truth tables over the canonical comparison atoms (operators and inclusive ends), proposal '
                'formulas as canonical terms per case; the StartLimitCurrent root substituted into the torque and current '
                'laws extracted from dc_motor.py must yield the limit current identically. Clipping/arbitration: C14.')
    # "whole controlled simulations": what a rule proposes reaches the motor through PWMControl.apply_rules - every rule consulted, the
    # single proposal applied (clipped), wherever the rule sits in the list and whatever its class.  C14's arbitration rules, re-read
    from sa.core import Report as _Report
    from checks import c14 as _c14
    _dep = _Report('C14')
    try:
        _c14.check_shape(model, _dep)
    except CannotDecide as e:
        _dep.cannot('C14.shape', 'PWMControl.apply_rules', str(e))
    rep.absorb(_dep, {'C14.shape': 'C15.dep.arbitration', 'C14.clip': 'C15.dep.arbitration.clip'})
    sxm.POSITIVE_ATOMS.clear()
    sx = SX(model)
    sx.loop_handler = reduction_loop
    sx.variable_kinds = VARIABLE_KINDS
    # "while start <= t <= start + duration", "once theta >= theta_s": t and theta are the PRESENT instant and reading - a rule that
    # keeps a reference to the time axis (or a sample list) taken at construction reads a dead object after Powertrain.reset
    from checks.c12 import check_memoised
    check_memoised(model, rep, R='C15.pure', only=('/motor_control/', '/sensors/'))
    from sa.aliases import alias_findings
    rule_classes = {c for b in ('RuleBase', 'MotorControlBase', 'SensorBase', 'Timer') for c in [b] + sorted(model.subclasses(b, strict=True))}
    found, nscan = alias_findings(model, rule_classes)
    for cname, f, ln, mod_, detail in found:
        rep.violation('C15.pure', f'{cname}.{f}:alias', detail, f'{mod_}:{ln}')
    if not found:
        rep.holds('C15.pure', 'rules:alias', f'{nscan} rule / sensor / timer classes: none keeps a reference to a container its owner rebinds')
    check_pure(model, rep, sx)
    check_timer(model, rep, sx)
    check_constant(model, rep, sx)
    check_reach(model, rep, sx)
    check_proportional(model, rep, sx)
    check_limit(model, rep, sx)
    check_defined(model, rep)
    # the rules' quantity arithmetic is interpreted natively; the operator triples it actually used are re-read from C06's dispatch model
    from checks.solver_common import absorb_arith
    used = sorted(t for t in sx.arith_log if 'number' not in (t[0], t[2]) or t[1] in '*/')
    absorb_arith(model, rep, 'C15.dep.arith', used)
    rep.analysed['operator_triples_used_by_rules'] = [' '.join(t) for t in used]
    rep.require('C15.window', 3)
    rep.require('C15.value', 12)
    rep.require('C15.limit-identity', 1)
    rep.assume('sensors return the live attribute of their target (decided by C16.sensors)')
    rep.assume('quantity operators are dimensionally sound and unit-blind (C05/C06)')
