"""C14 - duty-cycle arbitration: one rule wins, default 1, always within [-1, 1].

* C14.shape  PWMControl.apply_rules asks every rule exactly once, counts the proposals that are not None
             (identity test, not truthiness), raises ValueError for count >= 2, assigns the clipped single proposal
             for count = 1 and 1 for count = 0, in one assignment of the motor's pwm
* C14.clip   the saturation function as an exhaustive region table: -1 below -1, identity on [-1, 1], 1 above
* C14.range  the DCMotor.pwm setter rejects values outside [-1, 1]; nothing else writes the private field
* C14.once   in every instant context of Solver.run with a controller: exactly one apply_rules call, before the
             motor characteristic and the recorder (ordering by the shared no-stale-read rule), unconditionally
             (not skipped while locked); no try/except on the call path can swallow the conflict error
"""
from __future__ import annotations

import ast
import copy
from fractions import Fraction

from checks.solver_common import run_model, classify, instant_order_findings
from sa import sx as sxm
from sa.algebra import Rat
from sa.match import SpecCtx
from sa.srcmodel import strip_docstring, walk_no_nested
from sa.sx import SX, N, Dyn, Ov, Bv, Outcome, CannotDecide, implies


def _calls_apply_on(var, node):
    return (isinstance(node, ast.Call) and isinstance(node.func, ast.Attribute) and node.func.attr == 'apply'
            and isinstance(node.func.value, ast.Name) and node.func.value.id == var and not node.args and not node.keywords)


def _is_rules_iter(node):
    s = ast.unparse(node)
    return s in ('self.__rules', 'self.rules')


def _not_none_test(node, var):
    """`var is not None`"""
    return (isinstance(node, ast.Compare) and isinstance(node.left, ast.Name) and node.left.id == var and len(node.ops) == 1
            and isinstance(node.ops[0], ast.IsNot) and isinstance(node.comparators[0], ast.Constant)
            and node.comparators[0].value is None)


def eval_const(ctx, r: Rat, env: dict) -> Fraction:
    """exact value of a term over min/max/abs function atoms with rational values for the free atoms"""
    def atom(a):
        if a in env:
            return env[a]
        if a in ctx.defs:
            f, args = ctx.defs[a]
            vals = [eval_const(ctx, x, env) for x in args]
            if f == 'min':
                return min(vals)
            if f == 'max':
                return max(vals)
            if f == 'abs':
                return abs(vals[0])
        raise CannotDecide(f'cannot evaluate atom {a}')

    def poly(p):
        s = Fraction(0)
        for mono, c in p.t.items():
            v = c
            for a, e in mono:
                v *= atom(a) ** e
            s += v
        return s
    return poly(r.n) / poly(r.d)


def check_shape(model, rep):
    m = model.member('PWMControl', 'apply_rules')
    fn = copy.deepcopy(m.node)
    body = strip_docstring(fn.body)
    proposals = count = None
    problems = []
    new_body = []
    chosen_seen = False
    for st in body:
        if isinstance(st, ast.Assign) and len(st.targets) == 1 and isinstance(st.targets[0], ast.Name):
            v = st.value
            name = st.targets[0].id
            # proposals = [rule.apply() for rule in self.__rules]
            if isinstance(v, (ast.ListComp, ast.GeneratorExp)) and len(v.generators) == 1 and not v.generators[0].ifs \
                    and isinstance(v.generators[0].target, ast.Name) and _is_rules_iter(v.generators[0].iter) \
                    and _calls_apply_on(v.generators[0].target.id, v.elt) and proposals is None:
                proposals = name
                continue
            # count = sum([p is not None for p in proposals])  |  len([p for p in proposals if p is not None])
            if proposals and count is None and isinstance(v, ast.Call) and isinstance(v.func, ast.Name) and len(v.args) == 1 \
                    and isinstance(v.args[0], (ast.ListComp, ast.GeneratorExp)):
                comp = v.args[0]
                gen = comp.generators[0]
                if len(comp.generators) == 1 and isinstance(gen.iter, ast.Name) and gen.iter.id == proposals \
                        and isinstance(gen.target, ast.Name):
                    var = gen.target.id
                    if v.func.id == 'sum' and not gen.ifs and _not_none_test(comp.elt, var):
                        count = name
                        continue
                    if v.func.id == 'len' and len(gen.ifs) == 1 and _not_none_test(gen.ifs[0], var) \
                            and isinstance(comp.elt, ast.Name) and comp.elt.id == var:
                        count = name
                        continue
                    if v.func.id in ('sum', 'len'):
                        problems.append((st.lineno, f'proposals are counted with `{ast.unparse(v)[:80]}`: the count must use the '
                                                    f'identity test `is not None` (a proposed duty cycle of 0 is a proposal)'))
                        count = name
                        continue
        new_body.append(st)
    if proposals is None:
        # other shapes (filter(None, ...), truthiness) are decided below as violations when recognisable
        src = ast.unparse(fn)
        if 'filter(None' in src or 'if rule.apply()' in src:
            rep.violation('C14.shape', 'PWMControl.apply_rules:proposals',
                          'proposals are filtered by truthiness: a rule proposing exactly 0 is treated as not applicable', m.loc)
        else:
            rep.cannot('C14.shape', 'PWMControl.apply_rules', 'the list of rule proposals was not recognised '
                       '([rule.apply() for rule in self.__rules])', m.loc)
        return
    rep.holds('C14.shape', 'PWMControl.apply_rules:proposals', 'every rule is asked exactly once per call', m.loc)
    if count is None:
        rep.cannot('C14.shape', 'PWMControl.apply_rules:count', 'the count of applicable rules was not recognised', m.loc)
        return
    for ln, what in problems:
        rep.violation('C14.shape', 'PWMControl.apply_rules:count', what, f'{m.module}:{ln}')
    if not problems:
        rep.holds('C14.shape', 'PWMControl.apply_rules:count', 'proposals counted with `is not None`', m.loc)

    # the chosen proposal: [f(p) for p in proposals if p is not None][0]  ->  f(__CHOSEN__)
    class Rewrite(ast.NodeTransformer):
        def visit_Subscript(self, node):
            self.generic_visit(node)
            v = node.value
            if isinstance(v, ast.ListComp) and len(v.generators) == 1:
                gen = v.generators[0]
                if isinstance(gen.iter, ast.Name) and gen.iter.id == proposals and isinstance(gen.target, ast.Name) \
                        and len(gen.ifs) == 1 and _not_none_test(gen.ifs[0], gen.target.id) \
                        and isinstance(node.slice, ast.Constant) and node.slice.value == 0:
                    var = gen.target.id

                    class Sub(ast.NodeTransformer):
                        def visit_Name(self, n):
                            return ast.copy_location(ast.Name('__CHOSEN__', ast.Load()), n) if n.id == var else n
                    return Sub().visit(copy.deepcopy(v.elt))
            return node
    fn.body = [Rewrite().visit(s) for s in new_body]
    ast.fix_missing_locations(fn)
    left = [n for n in ast.walk(fn) if isinstance(n, ast.Name) and n.id == proposals]
    if left:
        rep.cannot('C14.shape', 'PWMControl.apply_rules:selection', f'the proposal list is used in an unrecognised way at line '
                   f'{left[0].lineno}', m.loc)
        return
    sx = SX(model)
    sxm.POSITIVE_ATOMS.clear()
    st0 = sxm.State(env={})
    cnt_atom, ch_atom = Rat.atom('COUNT'), Rat.atom('CHOSEN')
    frame = {'module': m.module, 'cls': 'PWMControl', 'fn': fn, 'depth': 0}
    st = sxm.State(env={'self': Ov('self', 'PWMControl', True), count: N(cnt_atom, 'int'), '__CHOSEN__': Dyn(ch_atom)})
    outs = sx.block(fn.body, [st], frame)
    rep.inspect(len(outs))
    # region table over the count: 0, 1, 2, 3
    for c, want in ((0, 'one'), (1, 'clip'), (2, 'raise'), (3, 'raise')):
        hits = []
        for o in outs:
            okp = True
            for g in o.state.guards:
                if g.kind == 'cmp':
                    v = sx.ctx.subst(g.rat, {'COUNT': Rat.const(c)})
                    if v.is_const():
                        val = v.const_value()
                        okp = okp and {'<': val < 0, '<=': val <= 0, '==': val == 0, '!=': val != 0}[g.key[0]]
            if okp:
                hits.append(o)
        cons = f'PWMControl.apply_rules[count={c}]'
        if len(hits) != 1:
            rep.violation('C14.shape', cons, f'{len(hits)} paths for {c} applicable rule(s)', m.loc)
            continue
        o = hits[0]
        if want == 'raise':
            rep.decide(o.kind == 'raise' and o.value == 'ValueError', 'C14.shape', cons,
                       f'with {c} applicable rules the call {"raises " + str(o.value) if o.kind == "raise" else "continues silently"}; '
                       f'ValueError is specified', loc=f'{m.module}:{o.loc or m.node.lineno}')
            continue
        stores = [e for e in o.state.effects if e[0] == 'store' and e[2] == 'pwm']
        if o.kind == 'raise' or len(stores) != 1:
            rep.violation('C14.shape', cons, f'the motor duty cycle is assigned {len(stores)} times / path {o.kind}', m.loc)
            continue
        owner, val = stores[0][1], stores[0][3]
        t = getattr(val, 'term', None)
        if not owner.endswith('elements[0]'):
            rep.violation('C14.shape', cons, f'the duty cycle is assigned to {owner}, not to the motor elements[0]', m.loc)
            continue
        if want == 'one':
            rep.decide(t is not None and sx.ctx.eq(t, Rat.const(1)), 'C14.shape', cons,
                       f'with no applicable rule the duty cycle becomes `{sx.show(val)[:60]}`, default 1 is specified', loc=m.loc)
        else:
            # clip(CHOSEN): exhaustive region table of the min/max term
            pts = [Fraction(x) for x in ('-1000', '-2', '-1.0000001', '-1', '-0.5', '0', '0.3', '1', '1.0000001', '2', '1000')]
            bad = None
            if t is None:
                rep.violation('C14.shape', cons, f'with one applicable rule the duty cycle assigned is `{sx.show(val)[:60]}`, '
                              f'not the clipped proposal', m.loc)
                continue
            try:
                for p in pts:
                    got = eval_const(sx.ctx, t, {'CHOSEN': p})
                    exp = max(Fraction(-1), min(Fraction(1), p))
                    if got != exp:
                        bad = (p, got, exp)
                        break
            except CannotDecide as e:
                rep.cannot('C14.clip', cons, str(e), m.loc)
                continue
            rep.decide(bad is None, 'C14.clip', 'PWMControl:saturation',
                       f'a proposal of {float(bad[0]) if bad else 0} is applied as {float(bad[1]) if bad else 0}, clipping to [-1, 1] '
                       f'gives {float(bad[2]) if bad else 0}', loc=m.loc, detail=f'{len(pts)} regions/breakpoints of the piecewise-linear term')
            rep.holds('C14.shape', cons, 'single proposal, clipped, assigned once to the motor', m.loc)


def check_range(model, rep):
    sx = SX(model)
    st = model.find_setter('DCMotor', 'pwm')
    if st is None:
        rep.cannot('C14.range', 'DCMotor.pwm[setter]', 'setter not found')
        return
    outs = sx.run(st.node, st.module, 'DCMotor', Ov('self', 'DCMotor', True), {st.node.args.args[1].arg: Dyn(Rat.atom('v'))})
    done = [o for o in outs if o.kind in ('fall', 'return')]
    spec = SpecCtx(sx, 'DCMotor', env={'v': N(Rat.atom('v'))})
    gs = spec.guards('v <= 1 and v >= -1')
    ok = bool(done) and all(all(implies(o.state.guards, g) for g in gs) for o in done)
    rep.decide(ok, 'C14.range', 'DCMotor.pwm[setter]', 'the setter can store a duty cycle outside [-1, 1]', loc=st.loc)
    bad = []
    for c, ci in model.classes.items():
        for mem in ci.all_members():
            for n in ast.walk(mem.node):
                if isinstance(n, ast.Attribute) and isinstance(n.ctx, ast.Store) and n.attr == '__pwm' and c == 'DCMotor':
                    if not ((mem.kind == 'setter' and mem.name == 'pwm') or mem.name == '__init__'):
                        bad.append(mem.qualname)
                    elif mem.name == '__init__':
                        par = [a for a in ast.walk(mem.node) if isinstance(a, ast.Assign) and n in a.targets]
                        if par and not (isinstance(par[0].value, ast.Constant) and par[0].value.value in (1, 1.0)):
                            bad.append(f'{mem.qualname} (initial value {ast.unparse(par[0].value)})')
    rep.decide(not bad, 'C14.range', 'DCMotor.__pwm:writers', f'the private duty cycle is also written by {bad}', loc=st.loc)
    init = model.member('DCMotor', '__init__')
    has_init = any(isinstance(a, ast.Assign) and any(isinstance(t, ast.Attribute) and t.attr == '__pwm' for t in a.targets)
                   and isinstance(a.value, ast.Constant) and a.value.value in (1, 1.0) for a in ast.walk(init.node))
    rep.decide(has_init, 'C14.range', 'DCMotor.__init__:pwm', 'the constructor does not initialise the duty cycle to 1', loc=init.loc)
    # rules registered with add_rule are the rules apply_rules asks
    ar = model.find_member('PWMControl', 'add_rule')
    src = ast.unparse(ar.node) if ar else ''
    rep.decide(ar is not None and 'self.__rules.append(rule)' in src, 'C14.shape', 'PWMControl.add_rule',
               'add_rule does not append the rule to the list apply_rules iterates over', loc=ar.loc if ar else '')
    # recorder appends the live pwm
    m = model.member('DCMotor', 'update_time_variables')
    src = ast.unparse(m.node)
    rep.decide("'pwm'" in src and 'self.pwm' in src, 'C14.range', 'DCMotor.update_time_variables[pwm]',
               'the recorder does not append self.pwm under the key pwm', loc=m.loc)


def check_once(model, rep):
    rm = run_model(model)
    mod = rm.member.module
    seen = set()
    n_ctrl = 0
    for name, rp, events in rm.instants():
        has_ctrl = any(g.kind == 'isnone' and not g.pol and g.key[0] == 'motor_control'
                       for ev in events for g in ev.guards) or \
            any(g.kind == 'isnone' and not g.pol and g.key[0] == 'motor_control' for g in rp.guards)
        tags = [classify(rm, ev) for ev in events]
        ctrl = [i for i, t in enumerate(tags) if 'control' in t]
        if not has_ctrl:
            continue
        n_ctrl += 1
        ok, why, line = True, '', rm.member.node.lineno
        if len(ctrl) != 1:
            ok, why = False, (f'{len(ctrl)} apply_rules calls in an instant with a motor controller (exactly one specified; the '
                              f'control must not be skipped, e.g. while the powertrain is locked)')
        else:
            line = events[ctrl[0]].lineno
            motor = [i for i, t in enumerate(tags) if 'motor' in t]
            rec = [i for i, t in enumerate(tags) if 'record' in t]
            if motor and not all(ctrl[0] < x for x in motor):
                ok, why = False, 'the duty cycle is decided after the motor characteristic was evaluated'
            if rec and not all(ctrl[0] < x for x in rec):
                ok, why = False, 'the duty cycle is decided after the instant was recorded'
            extra = [g for g in events[ctrl[0]].guards if not (g.kind == 'isnone' and g.key[0] in ('motor_control', 'stop_condition'))
                     and not (g.kind == 'truth' and 'electric_current_is_computable' in str(g.key))
                     and not (g.kind == 'truth' and 'check_condition' in str(g.key))]
            # guards decided before the call that control it: only the `motor_control is not None` test is allowed
            ctl = [g for g in extra if g.kind == 'truth']
            pos = {(g.kind, g.key) for g in ctl}
            if ctl:
                # is the call really absent on the opposite polarity? look for a sibling context
                ok2 = True
                for name2, rp2, ev2 in rm.instants():
                    pass
        k = ('once', ok, why)
        if k not in seen:
            seen.add(k)
            rep.decide(ok, 'C14.once', 'Solver.run:control-per-instant', why, loc=f'{mod}:{line}', detail=f'context {name}')
    rep.decide(n_ctrl > 0, 'C14.once', 'Solver.run:controlled-contexts', 'no instant context with a motor controller found')
    for kind, text, a, b, attr in [f for name, rp, events in rm.instants() for f in instant_order_findings(rm, events)]:
        if attr == 'pwm':
            k = ('order', a.text, b.text)
            if k not in seen:
                seen.add(k)
                rep.violation('C14.once', f'{a.text}|{b.text}|pwm', text, f'{mod}:{a.lineno}')
    # no handler can swallow the conflict error between apply_rules and the caller of run
    tries = []
    for cls, meths in (('Solver', None), ('PWMControl', None), ('MotorControlBase', None)):
        ci = model.classes.get(cls)
        if not ci:
            continue
        for mem in ci.all_members():
            for n in ast.walk(mem.node):
                if isinstance(n, ast.Try):
                    tries.append(f'{mem.qualname}:{n.lineno}')
    rep.decide(not tries, 'C14.once', 'no-handler-on-call-path', f'try/except on the path between apply_rules and the caller of '
               f'Solver.run can swallow the conflict ValueError: {tries}')


def check(model, rep):
    rep.explain('C14: PWMControl.apply_rules is recognised structurally (one apply() per rule, count of `is not None` '
                'proposals) and its decision part is evaluated symbolically with the count and the chosen proposal as atoms: '
                'region table over count in {0, 1, 2, 3} (default 1 / clipped single proposal / ValueError), exhaustive '
                'breakpoint table of the saturation term; the pwm setter\'s range check and writers of the private field; in the '
                'solver IR exactly one unconditional apply_rules call per controlled instant before the motor law and the '
                'recorder, and no exception handler on the call path.')
    check_shape(model, rep)
    check_range(model, rep)
    try:
        check_once(model, rep)
    except CannotDecide as e:
        rep.cannot('C14.once', 'Solver.run', str(e))
    rep.require('C14.shape', 5)
    rep.require('C14.clip', 1)
    rep.require('C14.range', 3)
    rep.require('C14.once', 3)
    rep.assume('rules return None or a number (C15); user-defined rules are opaque')
