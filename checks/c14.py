"""C14 - duty-cycle arbitration: one rule wins, default 1, always within [-1, 1].

* C14.shape  PWMControl.apply_rules asks every rule exactly once, counts the proposals that are not None
             (identity test, not truthiness), raises ValueError for count >= 2, assigns the clipped single proposal
             for count = 1 and 1 for count = 0, in one assignment of the motor's pwm
* C14.clip   the saturation function as an exhaustive region table: -1 below -1, identity on [-1, 1], 1 above
* C14.range  the DCMotor.pwm setter rejects values outside [-1, 1]; nothing else writes the private field
* C14.once   in every instant context of Solver.run with a controller: exactly one apply_rules call, before the
             motor characteristic and the recorder (ordering by the shared no-stale-read rule), unconditionally
             (not skipped while locked); no try/except on the call path can swallow the conflict error
"""
from __future__ import annotations

import ast
import copy
from fractions import Fraction

from checks.solver_common import run_model, classify, instant_order_findings
from sa import sx as sxm
from sa.algebra import Rat
from sa.match import SpecCtx
from sa.srcmodel import strip_docstring, walk_no_nested
from sa.sx import abs_consequences, SX, N, Dyn, Ov, Bv, Outcome, CannotDecide, implies


def _calls_apply_on(var, node):
    return (isinstance(node, ast.Call) and isinstance(node.func, ast.Attribute) and node.func.attr == 'apply'
            and isinstance(node.func.value, ast.Name) and node.func.value.id == var and not node.args and not node.keywords)


def _is_rules_iter(node):
    s = ast.unparse(node)
    return s in ('self.__rules', 'self.rules')


def _not_none_test(node, var):
    """`var is not None`"""
    return (isinstance(node, ast.Compare) and isinstance(node.left, ast.Name) and node.left.id == var and len(node.ops) == 1
            and isinstance(node.ops[0], ast.IsNot) and isinstance(node.comparators[0], ast.Constant)
            and node.comparators[0].value is None)


def eval_const(ctx, r: Rat, env: dict) -> Fraction:
    """exact value of a term over min/max/abs function atoms with rational values for the free atoms"""
    def atom(a):
        if a in env:
            return env[a]
        if a in ctx.defs:
            f, args = ctx.defs[a]
            vals = [eval_const(ctx, x, env) for x in args]
            if f == 'min':
                return min(vals)
            if f == 'max':
                return max(vals)
            if f == 'abs':
                return abs(vals[0])
        raise CannotDecide(f'cannot evaluate atom {a}')

    def poly(p):
        s = Fraction(0)
        for mono, c in p.t.items():
            v = c
            for a, e in mono:
                v *= atom(a) ** e
            s += v
        return s
    return poly(r.n) / poly(r.d)


def _guard_holds(ctx, g, env):
    """truth of a comparison guard at rational values of the free atoms (None when it is not a comparison)"""
    if g.kind != 'cmp':
        return None
    val = eval_const(ctx, g.rat, env)
    return {'<': val < 0, '<=': val <= 0, '==': val == 0, '!=': val != 0}[g.key[0]]


PTS = [Fraction(x) for x in ('-1000', '-2', '-1.0000001', '-1', '-0.5', '0', '0.3', '1', '1.0000001', '2', '1000')]


def check_shape(model, rep):
    """apply_rules is evaluated abstractly for every rule set of 0..4 rules and every subset of applicable rules
    (a rule's apply() returns None, a symbolic proposal p_i, or the literal 0): 31 + 8 configurations.  Written as
    a counting if-chain, a match statement, an accumulating loop or a filter - the evaluator does not care."""
    import itertools
    m = model.member('PWMControl', 'apply_rules')
    import os
    deep = os.environ.get('VERIF_TIER') == 'thorough'
    configs = []
    for n in range(0, 7 if deep else 5):
        for mask in itertools.product((False, True), repeat=n):
            configs.append([('p' if x else None) for x in mask])
    for n in range(1, 4):          # a proposal of exactly 0 is a proposal (identity test, not truthiness)
        for pos in range(n):
            configs.append(['zero' if i == pos else None for i in range(n)])
    configs.append(['zero', 'p'])
    configs.append(['p', 'zero'])
    # the rule list is the private list add_rule appends its argument to (evaluated, not matched as text)
    ar = model.find_member('PWMControl', 'add_rule')
    rules_field = None
    if ar is not None:
        par = ar.node.args.args[1].arg
        sx0 = SX(model)
        outs0 = sx0.run(ar.node, ar.module, 'PWMControl', Ov('self', 'PWMControl', True), {par: Ov('the-rule', 'RuleBase', False)})
        done0 = [o for o in outs0 if o.kind in ('fall', 'return')]
        fields = set()
        for o in done0:
            hit = [e for e in o.state.effects if e[0] == 'opaque-call' and e[1].endswith('.append') and len(e[2]) == 1
                   and getattr(e[2][0], 'path', None) == 'the-rule']
            fields.add(hit[0][1][:-len('.append')] if len(hit) == 1 else None)
        appended = None
        if len(fields) == 1 and None not in fields and done0:
            appended = fields.pop()               # e.g. 'self.rules' (private field named by its public property)
            for n in ast.walk(ar.node):
                if isinstance(n, ast.Call) and isinstance(n.func, ast.Attribute) and n.func.attr == 'append' \
                        and isinstance(n.func.value, ast.Attribute) and isinstance(n.func.value.value, ast.Name) \
                        and n.func.value.value.id == 'self':
                    rules_field = model.mangle('PWMControl', n.func.value.attr)
        rep.decide(rules_field is not None, 'C14.shape', 'PWMControl.add_rule',
                   'add_rule does not append its argument to one list of the controller on every accepting path', loc=ar.loc)
    if rules_field is None:
        if ar is None:
            rep.cannot('C14.shape', 'PWMControl.add_rule', 'method not found')
        return
    per_k = {}          # k -> [problem strings]
    n_by_k = {}
    clip_bad = None
    zero_bad = None
    n_eval = 0
    for cfg in configs:
        sx = SX(model)
        sx.eval_comprehensions = True
        sxm.POSITIVE_ATOMS.clear()
        values = {}
        for i, c in enumerate(cfg):
            values[f'rule{i}'] = sxm.NoneV() if c is None else (N(Rat.const(0)) if c == 'zero' else N(Rat.atom(f'p{i}'), 'float'))

        def hook(sx_, n, f, recv, args, kwargs, st, frame, values=values):
            if isinstance(f, ast.Attribute) and f.attr == 'apply' and isinstance(recv, Ov) and recv.path in values:
                return [(st.with_effect(('rule-apply', recv.path, n.lineno)), values[recv.path])]
            return None
        sx.call_hook = hook
        st = sxm.State(env={})
        st.heap[('self', rules_field)] = sxm.Tv([Ov(f'rule{i}', 'RuleBase', False) for i in range(len(cfg))])
        try:
            outs = sx.run(m.node, m.module, 'PWMControl', Ov('self', 'PWMControl', True), {}, st)
        except CannotDecide as e:
            rep.cannot('C14.shape', 'PWMControl.apply_rules', f'{e} (rule set {cfg})', m.loc)
            return
        n_eval += len(outs)
        k = sum(1 for c in cfg if c is not None)
        probs = per_k.setdefault(min(k, 4), [])
        n_by_k[min(k, 4)] = n_by_k.get(min(k, 4), 0) + 1
        tag = '[' + ', '.join('None' if c is None else ('0' if c == 'zero' else 'p') for c in cfg) + ']'
        if not outs:
            probs.append(f'no path for the rule set {tag}')
            continue
        if k >= 2:
            for o in outs:
                if not (o.kind == 'raise' and o.value == 'ValueError'):
                    probs.append(f'with proposals {tag} the call '
                                 f'{"raises " + str(o.value) if o.kind == "raise" else "continues silently"}; ValueError is specified')
                    break
            continue
        # k in (0, 1): every path completes with one store of the duty cycle on the motor
        bad = None
        for o in outs:
            stores = [e for e in o.state.effects if e[0] == 'store' and e[2] == 'pwm']
            if o.kind == 'raise':
                bad = f'with proposals {tag} the call raises {o.value}'
            elif len(stores) != 1:
                bad = f'with proposals {tag} the motor duty cycle is assigned {len(stores)} times'
            elif not stores[0][1].endswith('elements[0]'):
                bad = f'the duty cycle is assigned to {stores[0][1]}, not to the motor elements[0]'
            elif getattr(stores[0][3], 'py', None) == 'numpy':
                bad = (f'with proposals {tag} the value handed to the duty-cycle setter is a numpy scalar (`{sx.show(stores[0][3])[:50]}`): for an int '
                       f'proposal (ConstantPWM with 1, 0 or -1) that is a numpy.int64, which the setter\'s isinstance(float | int) test rejects with TypeError')
            if bad:
                break
        if bad:
            probs.append(bad)
            continue
        if k == 0 or 'zero' in cfg:
            want = Fraction(1) if k == 0 else Fraction(0)
            for o in outs:
                val = [e for e in o.state.effects if e[0] == 'store' and e[2] == 'pwm'][0][3]
                t = getattr(val, 'term', None)
                try:
                    same = t is not None and eval_const(sx.ctx, t, {}) == want
                except CannotDecide:
                    same = False
                if not same:
                    msg = (f'with proposals {tag} the duty cycle becomes `{sx.show(val)[:60]}`; ' +
                           ('default 1 is specified' if k == 0 else 'a rule proposing exactly 0 is applicable and must win'))
                    if k == 0:
                        probs.append(msg)
                    else:
                        zero_bad = zero_bad or msg
            continue
        # one symbolic proposal: region table over the proposal value
        atom = f'p{cfg.index("p")}'
        for pt in PTS:
            env = {atom: pt}
            try:
                live = [o for o in outs if all(_guard_holds(sx.ctx, g, env) is not False for g in o.state.guards)]
                if len(live) != 1:
                    probs.append(f'{len(live)} paths for the single proposal {float(pt)} ({tag})')
                    break
                val = [e for e in live[0].state.effects if e[0] == 'store' and e[2] == 'pwm'][0][3]
                t = getattr(val, 'term', None)
                if t is None:
                    probs.append(f'with one applicable rule the duty cycle assigned is `{sx.show(val)[:60]}`, not the clipped proposal')
                    break
                got = eval_const(sx.ctx, t, env)
            except CannotDecide as e:
                rep.cannot('C14.clip', 'PWMControl:saturation', str(e), m.loc)
                return
            exp = max(Fraction(-1), min(Fraction(1), pt))
            if got != exp:
                clip_bad = clip_bad or (pt, got, exp, tag)
                break
    rep.inspect(n_eval)
    for k in range(0, 5):
        probs = per_k.get(k, [])
        cons = f'PWMControl.apply_rules[count={k}]'
        rep.decide(not probs, 'C14.shape', cons, probs[0] if probs else '', loc=m.loc,
                   detail=f'{n_by_k.get(k, 0)} rule-set configurations (rule lists of 0..{6 if deep else 4} rules)')
    rep.decide(zero_bad is None, 'C14.shape', 'PWMControl.apply_rules:zero-proposal', zero_bad or '', loc=m.loc)
    rep.decide(clip_bad is None, 'C14.clip', 'PWMControl:saturation',
               (f'a proposal of {float(clip_bad[0])} is applied as {float(clip_bad[1])}, clipping to [-1, 1] gives '
                f'{float(clip_bad[2])} (rule set {clip_bad[3]})') if clip_bad else '', loc=m.loc,
               detail=f'{len(PTS)} regions/breakpoints of the proposal value, every position of the applicable rule')
    rep.analysed['apply_rules_configurations'] = len(configs)


def _nan_truth(test, par):
    """truth of a guard expression when `par` is NaN (a float): True / False / None (not decidable here)"""
    if isinstance(test, ast.BoolOp):
        vals = [_nan_truth(v, par) for v in test.values]
        if isinstance(test.op, ast.Or):
            return True if any(v is True for v in vals) else (None if any(v is None for v in vals) else False)
        return False if any(v is False for v in vals) else (None if any(v is None for v in vals) else True)
    if isinstance(test, ast.UnaryOp) and isinstance(test.op, ast.Not):
        v = _nan_truth(test.operand, par)
        return None if v is None else not v
    if isinstance(test, ast.Compare):
        operands = [test.left] + list(test.comparators)
        res = True
        for a, op, b in zip(operands, test.ops, operands[1:]):
            involves = any(isinstance(x, ast.Name) and x.id == par for y in (a, b) for x in ast.walk(y))
            if not involves or not isinstance(op, (ast.Gt, ast.GtE, ast.Lt, ast.LtE, ast.Eq, ast.NotEq)):
                return None
            if not isinstance(op, ast.NotEq):
                res = False
        return res
    if isinstance(test, ast.Call) and isinstance(test.func, ast.Name) and test.func.id == 'isinstance' and len(test.args) == 2 \
            and isinstance(test.args[0], ast.Name) and test.args[0].id == par:
        return True if 'float' in ast.unparse(test.args[1]) else None
    if isinstance(test, ast.Call) and ast.unparse(test.func) in ('isnan', 'math.isnan', 'np.isnan', 'numpy.isnan') \
            and len(test.args) == 1 and isinstance(test.args[0], ast.Name) and test.args[0].id == par:
        return True
    return None


def _nan_reaches_store(body, par):
    """sequence of `if guard: raise` statements followed by the store: does a NaN argument reach the store?"""
    for s in body:
        if isinstance(s, ast.If) and not s.orelse and s.body and isinstance(s.body[-1], ast.Raise):
            v = _nan_truth(s.test, par)
            if v is None:
                return None
            if v:
                return False
            continue
        if isinstance(s, ast.Assign):
            if all(isinstance(t, (ast.Name, ast.Tuple)) and all(isinstance(x, ast.Name) and x.id != par for x in ast.walk(t)
                                                                  if isinstance(x, ast.Name)) for t in s.targets) \
                    and not any(isinstance(x, ast.Name) and x.id == par for x in ast.walk(s.value)):
                continue            # a local that does not involve the argument (limits unpacked from a constant)
            return True
        return None
    return None


def check_range(model, rep):
    sx = SX(model)
    st = model.find_setter('DCMotor', 'pwm')
    if st is None:
        rep.cannot('C14.range', 'DCMotor.pwm[setter]', 'setter not found')
        return
    outs = sx.run(st.node, st.module, 'DCMotor', Ov('self', 'DCMotor', True), {st.node.args.args[1].arg: Dyn(Rat.atom('v'))})
    done = [o for o in outs if o.kind in ('fall', 'return')]
    spec = SpecCtx(sx, 'DCMotor', env={'v': N(Rat.atom('v'))})
    gs = spec.guards('v <= 1 and v >= -1')
    ok = bool(done) and all(all(implies(abs_consequences(sx.ctx, o.state.guards), g) for g in gs) for o in done)
    rep.decide(ok, 'C14.range', 'DCMotor.pwm[setter]', 'the setter can store a duty cycle outside [-1, 1]', loc=st.loc)
    dirty = [o for o in outs if o.kind == 'raise' and any(e[0] == 'store' and e[1] == 'self' for e in o.state.effects)]
    rep.decide(not dirty, 'C14.range', 'DCMotor.pwm[setter]:raising-paths',
               f'a path that raises {dirty[0].value if dirty else ""} has already stored the rejected duty cycle (the range check comes '
               f'after the store): a caller that handles the error goes on with a duty cycle outside [-1, 1]',
               loc=f'{st.module}:{dirty[0].loc if dirty else st.node.lineno}')
    # IEEE clause of the same guard: every ordering comparison with NaN is false, so a guard written as
    # `raise if v > 1 or v < -1` lets NaN through where `raise unless -1 <= v <= 1` does not (the built-in
    # StartLimitCurrent rule returns NaN for a negative radicand, and min(max(nan, -1), 1) is nan)
    par = st.node.args.args[1].arg
    verdict = _nan_reaches_store(strip_docstring(st.node.body), par)
    if verdict is None:
        rep.note('C14.range', 'DCMotor.pwm[setter]:nan', 'guard shape outside the comparison idioms; NaN clause not decided', st.loc)
    else:
        rep.decide(not verdict, 'C14.range', 'DCMotor.pwm[setter]:nan',
                   'a NaN duty cycle (e.g. proposed by StartLimitCurrent for a negative radicand) passes the range guard, which only '
                   'raises on `>`/`<` comparisons that are false for NaN, and is stored and recorded', loc=st.loc)
    # the private field behind the `pwm` property (whatever it is called)
    mangled = sx.trivial_getter_field('DCMotor', 'pwm') or '_DCMotor__pwm'
    fld = '__' + mangled.split('__', 1)[1] if '__' in mangled else mangled
    bad = []
    for c, ci in model.classes.items():
        for mem in ci.all_members():
            for n in ast.walk(mem.node):
                if isinstance(n, ast.Attribute) and isinstance(n.ctx, ast.Store) and n.attr == fld and c == 'DCMotor':
                    if not ((mem.kind == 'setter' and mem.name == 'pwm') or mem.name == '__init__'):
                        bad.append(mem.qualname)
                    elif mem.name == '__init__':
                        par = [a for a in ast.walk(mem.node) if isinstance(a, ast.Assign) and n in a.targets]
                        if par and not (isinstance(par[0].value, ast.Constant) and isinstance(par[0].value.value, (int, float))
                                        and not isinstance(par[0].value.value, bool) and -1 <= par[0].value.value <= 1):
                            bad.append(f'{mem.qualname} (initial value {ast.unparse(par[0].value)})')
    rep.decide(not bad, 'C14.range', 'DCMotor.__pwm:writers', f'the private duty cycle is also written by {bad}', loc=st.loc)
    init = model.member('DCMotor', '__init__')
    # the property bounds every recorded duty cycle, it does not fix the one a motor starts with: the constructor may start from a
    # constant inside [-1, 1] (stored directly) or hand its value to the validating setter
    has_init = any(isinstance(a, ast.Assign) and any(isinstance(t, ast.Attribute) and isinstance(t.value, ast.Name) and t.value.id == 'self'
                                                     and (t.attr == fld and isinstance(a.value, ast.Constant) or t.attr == 'pwm')
                                                     for t in a.targets) for a in ast.walk(init.node))
    rep.decide(has_init, 'C14.range', 'DCMotor.__init__:pwm', 'the constructor does not give the duty cycle an initial value (a constant in '
               '[-1, 1] or a value checked by the setter)', loc=init.loc)
    # recorder appends the live pwm: the per-class recorder evaluation of C17, restricted to the motor's pwm key
    from sa.core import Report
    from checks.c17 import check_classes
    dep = Report('C17')
    check_classes(model, dep)
    got = [i for i in dep.instances if i.rule in ('C17.one', 'C17.guards') and i.construct.startswith('DCMotor[') and 'pwm' in i.construct]
    for i in got:
        (rep.holds if i.status == 'HOLDS' else rep.violation)('C14.range.recorded', i.construct, i.detail, i.loc)
    if not got:
        rep.cannot('C14.range.recorded', 'DCMotor[pwm]', 'the recorder instance for the pwm key was not produced')


def check_once(model, rep):
    rm = run_model(model)
    mod = rm.member.module
    seen = set()
    n_ctrl = 0
    for name, rp, events in rm.instants():
        has_ctrl = any(g.kind == 'isnone' and not g.pol and g.key[0] == 'motor_control'
                       for ev in events for g in ev.guards) or \
            any(g.kind == 'isnone' and not g.pol and g.key[0] == 'motor_control' for g in rp.guards)
        tags = [classify(rm, ev) for ev in events]
        ctrl = [i for i, t in enumerate(tags) if 'control' in t]
        for i_ in ctrl:
            owners = sorted({c[0] for c in events[i_].calls if c[1] == 'apply_rules'})
            if owners and owners != ['motor_control'] and ('owner', owners[0]) not in seen:
                seen.add(('owner', owners[0]))
                rep.violation('C14.once', 'Solver.run:controller-applied',
                              f'the controller whose rules are applied is `{owners[0]}`, not the `motor_control` handed to this call of run(): a continued '
                              f'run (or a second solver) that brings another controller - or none - is governed by a remembered one',
                              f'{mod}:{events[i_].lineno}')
        if not has_ctrl:
            continue
        n_ctrl += 1
        ok, why, line = True, '', rm.member.node.lineno
        if len(ctrl) != 1:
            ok, why = False, (f'{len(ctrl)} apply_rules calls in an instant with a motor controller (exactly one specified; the '
                              f'control must not be skipped, e.g. while the powertrain is locked)')
        else:
            line = events[ctrl[0]].lineno
            owners = sorted({c[0] for c in events[ctrl[0]].calls if c[1] == 'apply_rules'})
            if owners and owners != ['motor_control']:
                ok, why = False, (f'the controller whose rules are applied is `{owners[0]}`, not the `motor_control` handed to this call of run(): '
                                  f'a continued run (or a second solver) that brings another controller - or none - is governed by a remembered one')
            motor = [i for i, t in enumerate(tags) if 'motor' in t]
            rec = [i for i, t in enumerate(tags) if 'record' in t]
            if motor and not all(ctrl[0] < x for x in motor):
                ok, why = False, 'the duty cycle is decided after the motor characteristic was evaluated'
            if rec and not all(ctrl[0] < x for x in rec):
                ok, why = False, 'the duty cycle is decided after the instant was recorded'
            extra = [g for g in events[ctrl[0]].guards if not (g.kind == 'isnone' and g.key[0] in ('motor_control', 'stop_condition'))
                     and not (g.kind == 'truth' and 'electric_current_is_computable' in str(g.key))
                     and not (g.kind == 'truth' and 'check_condition' in str(g.key))]
            # guards decided before the call that control it: only the `motor_control is not None` test is allowed
            ctl = [g for g in extra if g.kind == 'truth']
            pos = {(g.kind, g.key) for g in ctl}
            if ctl:
                # is the call really absent on the opposite polarity? look for a sibling context
                ok2 = True
                for name2, rp2, ev2 in rm.instants():
                    pass
        k = ('once', ok, why)
        if k not in seen:
            seen.add(k)
            rep.decide(ok, 'C14.once', 'Solver.run:control-per-instant', why, loc=f'{mod}:{line}', detail=f'context {name}')
    rep.decide(n_ctrl > 0, 'C14.once', 'Solver.run:controlled-contexts', 'no instant context with a motor controller found')
    for kind, text, a, b, attr in [f for name, rp, events in rm.instants() for f in instant_order_findings(rm, events)]:
        if attr == 'pwm':
            k = ('order', a.text, b.text)
            if k not in seen:
                seen.add(k)
                rep.violation('C14.once', f'{a.text}|{b.text}|pwm', text, f'{mod}:{a.lineno}')
    # no handler can swallow the conflict error between apply_rules and the caller of run: call graph by method name over the three
    # classes; a `try` counts when its function lies between Solver.run and the raise, its body contains a call on that path (or a
    # raise), and one of its handlers can catch a ValueError without re-raising it (or its `finally` leaves with return/break/continue)
    members = {}
    for cls in ('Solver', 'PWMControl', 'MotorControlBase'):
        ci = model.classes.get(cls)
        for mem in (ci.all_members() if ci else ()):
            members.setdefault(mem.name, []).append(mem)

    def callees(node):
        return {c.func.attr for c in ast.walk(node) if isinstance(c, ast.Call) and isinstance(c.func, ast.Attribute) and c.func.attr in members}
    graph = {nm: set().union(*[callees(m_.node) for m_ in ms]) for nm, ms in members.items()}

    def reach(src):
        seen_, todo = set(), [src]
        while todo:
            x = todo.pop()
            for y in graph.get(x, ()):
                if y not in seen_:
                    seen_.add(y)
                    todo.append(y)
        return seen_
    from_run = reach('run') | {'run'}
    below = reach('apply_rules') | {'apply_rules'}
    on_path = {nm for nm in from_run if nm in below or 'apply_rules' in reach(nm)}
    tries = []
    for nm in sorted(on_path):
        for mem in members[nm]:
            for n in ast.walk(mem.node):
                if not isinstance(n, ast.Try):
                    continue
                inside = any(isinstance(x, ast.Raise) for b in n.body for x in ast.walk(b)) or \
                    any(callees(b) & on_path for b in n.body)
                if not inside:
                    continue

                def catches(h):
                    if h.type is None:
                        return True
                    names = {x.id if isinstance(x, ast.Name) else x.attr for x in ast.walk(h.type) if isinstance(x, (ast.Name, ast.Attribute))}
                    return bool(names & {'ValueError', 'Exception', 'BaseException'}) or not names
                swallow = any(catches(h) and not (h.body and isinstance(h.body[-1], ast.Raise) and h.body[-1].exc is None
                                                  and not any(isinstance(x, (ast.Return, ast.Break, ast.Continue)) for b in h.body for x in ast.walk(b)))
                              for h in n.handlers)
                swallow = swallow or any(isinstance(x, (ast.Return, ast.Break, ast.Continue)) for b in n.finalbody for x in ast.walk(b))
                if swallow:
                    tries.append(f'{mem.qualname}:{n.lineno}')
    rep.decide(not tries, 'C14.once', 'no-handler-on-call-path', f'try/except on the path between apply_rules and the caller of '
               f'Solver.run can swallow the conflict ValueError: {tries}',
               detail=f'functions between Solver.run and the raise: {sorted(on_path)}')


def check(model, rep):
    # hidden state Python keeps outside the objects (not modelled by the evaluator): reported before anything else is evaluated
    from checks.solver_common import package_lints as _package_lints
    _package_lints(model, rep, 'C14.hidden-state', ('/motor_control/pwm_control.py', '/dc_motor.py', '/solver.py'))
    rep.explain('C14: PWMControl.apply_rules is recognised structurally (one apply() per rule, count of `is not None` '
                'proposals) and its decision part is evaluated symbolically with the count and the chosen proposal as atoms: '
                'region table over count in {0, 1, 2, 3} (default 1 / clipped single proposal / ValueError), exhaustive '
                'breakpoint table of the saturation term; the pwm setter\'s range check and writers of the private field; in the '
                'solver IR exactly one unconditional apply_rules call per controlled instant before the motor law and the '
                'recorder, and no exception handler on the call path.')
    check_shape(model, rep)
    check_range(model, rep)
    try:
        check_once(model, rep)
    except CannotDecide as e:
        rep.cannot('C14.once', 'Solver.run', str(e))
    rep.require('C14.shape', 5)
    rep.require('C14.clip', 1)
    rep.require('C14.range', 3)
    rep.require('C14.once', 3)
    rep.assume('rules return None or a number (C15); user-defined rules are opaque')
