"""C01 - kinematic coupling: neighbours move in the gear ratio at every instant.

Decided clause: the code that produces every recorded position / speed / acceleration assigns
`upstream = downstream.master_gear_ratio x downstream` for every adjacent pair, for every n >= 2, in every
instant context (fresh start, stepping loop, every branch combination), in an order compatible with the
dependence, and nothing disturbs it before it is recorded (the only later writer allowed is the uniform
zero clamp over *all* elements, which preserves the relation for every ratio).
Not decided: numeric equality at run time (follows from C06 up to rounding)."""
from __future__ import annotations

from fractions import Fraction

from checks.solver_common import run_model, classify, instant_order_findings, describe, lock_flag_fields
from sa.algebra import Rat
from sa.instant import KIN, loop_interval, Aff
from sa.effects import summarise_method
from sa.sx import SX, Ov, CannotDecide

RULES = {'angular_position': 'C01.formula.position', 'angular_speed': 'C01.formula.speed',
         'angular_acceleration': 'C01.formula.acceleration'}


def check_instant(rm, rep, name, events, seen):
    ctx = rm.ir.ctx
    tags = [classify(rm, ev) for ev in events]
    # ---- propagation formulas + coverage, per kinematic variable
    for X in KIN:
        writers = [(ev, t) for ev, t in zip(events, tags) if ('kin:' + X) in t]
        locked_path = any('clamp' in t for t in tags)
        if X == 'angular_acceleration' and locked_path and not writers:
            continue        # acceleration update skipped while locked (C13/C03): the clamp sets all to zero
        loops = [ev for ev, t in writers if ev.kind == 'loop']
        key = (RULES[X], 'missing', name.split('#')[0])
        if not loops:
            if key not in seen:
                seen.add(key)
                rep.violation(RULES[X], f'Solver.run[{name.split("#")[0]}]', f'no loop propagates {X} to the upstream elements '
                              f'in this instant context', f'{rm.member.module}:{rm.member.node.lineno}')
            continue
        for ev in loops:
            L = ev.loop
            cons = f'{L.func}:{X}'
            iv, direction = loop_interval(L)
            stores = [s for s in ev.stores if s[1] == X]
            ok, why = True, ''
            # every iteration must write: a path through the loop body that skips the store leaves that element with the
            # value of the previous instant (or of a previous simulation)
            paths = [p for p in L.paths if p.exit in ('next', 'continue')]
            skipping = [p for p in paths if not any(e[0] == 'store' and e[2] == X for e in p.effects)]
            if skipping and len(skipping) < len(paths) or (paths and len(skipping) == len(paths) and stores):
                gtxt = ' and '.join(g_.show(ctx)[:60] for g_ in skipping[0].guards[-2:])
                ok, why = False, (f'under `{gtxt}` an iteration of the propagation loop does not assign {X}: that element keeps a stale '
                                  f'value and the pair is decoupled')
            # ... and every element must be reached: a path that leaves the loop early (break / return) stops the walk before the
            # motor side, whatever the test that decides it looks at
            early = [p for p in L.paths if p.exit in ('break', 'return')]
            if ok and early:
                gtxt = ' and '.join(g_.show(ctx)[:60] for g_ in early[0].guards[-2:])
                ok, why = False, (f'under `{gtxt}` the propagation loop is left before all upstream elements have received {X}: they keep stale values')
            for idx, attr, val, g in stores:
                if not ok:
                    break
                if idx.c != 1 or idx.a != 0:
                    ok, why = False, f'writes E[{idx}].{X}: not an affine walk over the elements'
                    break
                down = ctx.show(L.index + Rat.const(idx.b + 1))
                want = Rat.atom(f'E[{down}].master_gear_ratio') * Rat.atom(f'E[{down}].{X}')
                t = getattr(val, 'term', None)
                if t is None or not ctx.eq(t, want):
                    ok, why = False, (f'E[{idx}].{X} = `{ctx.show(t)[:140] if t is not None else val}`, specified '
                                      f'`E[{down}].master_gear_ratio * E[{down}].{X}` (the downstream neighbour times its ratio)')
                    break
            k = (RULES[X], cons, ok, why)
            if k not in seen:
                seen.add(k)
                rep.decide(ok, RULES[X], cons, why, detail=f'context {name}', loc=f'{rm.member.module}:{L.lineno}')
            # coverage: the written elements are exactly E[0 .. n-2]
            w = [a for a in ev.writes if a.attr == X]
            cov_ok = bool(w) and all(a.who.equals(0, 0, 1, -2) for a in w)
            k = ('C01.coverage', cons, cov_ok)
            if k not in seen:
                seen.add(k)
                rep.decide(cov_ok, 'C01.coverage', cons,
                           f'the loop writes {X} of {", ".join(sorted({str(a.who) for a in w}))}; every adjacent pair needs '
                           f'E[0 .. n - 2] (an element is skipped or the walk overruns)', loc=f'{rm.member.module}:{L.lineno}',
                           detail=f'index set {L.index_set(ctx)}')
    # ---- ordering inside the instant
    for kind, text, a, b, attr in instant_order_findings(rm, events):
        if attr not in KIN and kind != 'loop-order':
            continue
        if kind == 'loop-order' and attr not in KIN:
            continue
        cons = f'{describe(a)} -> {describe(b)}[{attr}]'
        k = ('C01.order', a.lineno, b.lineno, attr)
        if k not in seen:
            seen.add(k)
            rep.violation('C01.order', f'{a.text}|{b.text}|{attr}', text,
                          f'{rm.member.module}:{a.lineno}', context=name)
    # ---- clamp: uniform zero over all elements, both speed and acceleration
    for ev, t in zip(events, tags):
        if 'clamp' in t:
            attrs = {}
            for a in ev.writes:
                attrs.setdefault(a.attr, []).append(a.who)
            ok = all(x in attrs for x in ('angular_speed', 'angular_acceleration')) and \
                all(w.is_all() for ws in attrs.values() for w in ws)
            k = ('C01.clamp', ev.lineno, ok)
            if k not in seen:
                seen.add(k)
                rep.decide(ok, 'C01.clamp', f'{ev.loop.func if ev.loop else ev.text}',
                           f'the lock clamp must zero speed AND acceleration of ALL elements together; it writes '
                           f'{ {k2: sorted({str(w) for w in v}) for k2, v in attrs.items()} }',
                           loc=f'{rm.member.module}:{ev.lineno}')
        elif ev.kind == 'store' and any(s[1] in KIN and getattr(s[2], 'term', None) is not None and s[2].term.is_zero()
                                        for s in ev.stores):
            k = ('C01.clamp', ev.lineno, 'partial')
            if k not in seen:
                seen.add(k)
                rep.violation('C01.clamp', ev.text, 'a single element\'s speed/acceleration is zeroed outside a uniform clamp '
                              'over all elements (breaks x_i = r * x_{i+1} for the others)', f'{rm.member.module}:{ev.lineno}')


def check_recorder(model, rep):
    """RotatingObject.update_time_variables appends the three live kinematic attributes under their keys"""
    sx = SX(model)
    m = model.member('RotatingObject', 'update_time_variables')
    outs = sx.run(m.node, m.module, 'RotatingObject', Ov('self', 'RotatingObject', True))
    want = {'angular position': 'angular_position', 'angular speed': 'angular_speed',
            'angular acceleration': 'angular_acceleration'}
    got = {}
    for o in outs:
        for e in o.state.effects:
            if e[0] == 'opaque-call' and isinstance(e[1], str) and e[1].endswith('.append'):
                for key in want:
                    if repr(key) in e[1]:
                        got[key] = sx.show(e[2][0]) if e[2] else None
    for key, attr in want.items():
        ok = got.get(key) is not None and got[key].endswith('.' + attr)
        rep.decide(ok, 'C01.recorded', f'RotatingObject.update_time_variables[{key}]',
                   f'the sample appended under {key!r} is `{got.get(key)}`, not the element\'s {attr}', loc=m.loc)


def check(model, rep):
    # hidden state Python keeps outside the objects (not modelled by the evaluator): reported before anything else is evaluated
    from checks.solver_common import package_lints as _package_lints
    _package_lints(model, rep, 'C01.hidden-state', ('/solver.py', '/powertrain.py'))
    from checks.solver_common import absorb_arith, TIME_ARITH, EULER_ARITH, KIN_ARITH, TORQUE_ARITH
    absorb_arith(model, rep, 'C01.dep.arith', KIN_ARITH, solver_log=True)
    rep.explain('C01: Solver.run is inlined into an event structure over an abstract element array E[0..n-1] (sa.solver_ir); '
                'for every instant context (fresh start and every branch combination of the stepping loop) the loops writing '
                'position/speed/acceleration must have the canonical term E[i+1].ratio * E[i+1].X, cover exactly E[0..n-2] '
                'for all n >= 2, iterate in an order compatible with the dependence, and no event may read or overwrite a '
                'kinematic attribute in a way that makes a recorded value stale (generic no-stale-read rule with the uniform '
                'zero clamp as the only allowed late writer). Decides the code shape, not numeric trajectories.')
    # "at every recorded instant", after any history: Powertrain.reset must hand every variable its own fresh list and restore the
    # attributes from their own first samples (C12's reset rule) - else a rerun records into lists that are no longer one per variable
    from checks.c12 import check_reset as _check_reset
    _check_reset(model, rep, R='C01.recorded.reset')
    # rules that do not need the solver IR first: they report even when the IR cannot be built
    check_recorder(model, rep)
    from sa.forwarding import check_forwarding
    check_forwarding(model, rep, 'C01.forwarding', ('angular_position', 'angular_speed', 'angular_acceleration', 'master_gear_ratio'))
    from sa.forwarding import check_setter_stores
    check_setter_stores(model, rep, 'C01.setter-stores', ('angular_position', 'angular_speed', 'angular_acceleration', 'master_gear_ratio'))
    # "multiplied by the downstream element's gear ratio to its driver (slave teeth / master teeth ..., exactly 1 for a joint)":
    # the ratio is what the relation functions stored, by accepted declarations only (C10's effect and atomicity rules)
    from sa.core import Report
    from checks import c10
    dep = Report('C10')
    c10.check(model, dep)
    for i in dep.instances:
        if i.rule in ('C10.effects', 'C10.atomic'):
            (rep.holds if i.status == 'HOLDS' else (rep.violation if i.status == 'VIOLATION' else rep.cannot))(
                'C01.dep.ratio.' + i.rule.split('.')[1], i.construct, i.detail, i.loc)
    try:
        rm = run_model(model)
    except CannotDecide as e:
        rep.cannot('C01.formula', 'Solver.run', str(e))
        return
    seen = set()
    ins = rm.instants()
    rep.inspect(sum(len(ev) for _, _, ev in ins))
    for name, rp, events in ins:
        check_instant(rm, rep, name, events, seen)
    if not any(i.rule == 'C01.order' for i in rep.instances):
        rep.holds('C01.order', 'all instants', f'{len(ins)} instant contexts: no stale read / loop-order defect on the kinematic attributes')
    fresh = [n for n, _, _ in ins if n.startswith('fresh')]
    rep.decide(bool(fresh), 'C01.contexts', 'fresh-start instant', 'no fresh-start instant (t = 0) is computed before the stepping loop')
    rep.analysed.update({'run_paths': len(rm.paths), 'instant_contexts': len(ins), 'loops': len(rm.ir.loops)})
    rep.require('C01.formula', 3, 'position, speed and acceleration propagation')
    rep.require('C01.coverage', 3)
    rep.require('C01.clamp', 1)
    rep.require('C01.recorded', 3)
    rep.assume('master_gear_ratio is the ratio set by the relation functions (decided by C10)')
    rep.assume('quantity arithmetic is sound (C06); equality up to rounding')
