#!/usr/bin/env python3
"""Entry point of every registered check.

    python3 checks/run.py C07 --tier quick
    python3 checks/run.py C07 --tier thorough
    python3 checks/run.py C07 --replay evidence/replay/C07_0.json

Reads /repo's current working tree as text on every run (never imports gearpy), applies the
property's static rules, prints the verdict lines and rewrites evidence/<id>.json.
Exit 0 = every rule instance holds (or is a listed known finding); 1 = unlisted violation
(`VIOLATION property=<id> replay=<path>`); 2 = ANALYSIS-ERROR (cannot decide / internal error).
"""
from __future__ import annotations

import argparse
import importlib
import json
import os
import pathlib
import sys
import time
import traceback

HERE = pathlib.Path(__file__).resolve().parent
sys.path.insert(0, str(HERE.parent))

from sa.core import AnalysisError, Report, finish, load_sources  # noqa: E402
from sa.srcmodel import Model  # noqa: E402


def run_property(pid: str, sources: dict) -> Report:
    """apply the rules of one property to one source map (used by the CLI and by the self-tests)"""
    mod = importlib.import_module(f'checks.{pid.lower()}')
    rep = Report(pid)
    model = Model(sources)
    rep.analysed.update(model.stats())
    try:
        mod.check(model, rep)
    except AnalysisError as e:
        rep.cannot(f'{pid}.analysis', '<engine>', str(e))
    return rep


def main(argv=None) -> int:
    ap = argparse.ArgumentParser()
    ap.add_argument('pid')
    ap.add_argument('--tier', default=os.environ.get('VERIF_TIER', 'quick'), choices=['quick', 'thorough'])
    ap.add_argument('--replay')
    ap.add_argument('--repo', default=None)
    a = ap.parse_args(argv)
    seed = int(os.environ.get('VERIF_SEED', '0') or 0)
    t0 = time.time()
    pid = a.pid.upper()
    os.environ['VERIF_TIER'] = a.tier          # checks with a finite configuration family widen it in the thorough tier
    try:
        sources = load_sources(a.repo)
        rep = run_property(pid, sources)
        if a.replay:
            want = json.loads(pathlib.Path(a.replay).read_text())
            hits = [i for i in rep.instances if i.key == want.get('key')]
            print(f'replay of {want.get("key")}: {len(hits)} matching instance(s) on the current tree')
            for h in hits:
                print(json.dumps(h.as_dict(), indent=1, default=str))
            return 1 if any(h.status == 'VIOLATION' for h in hits) else 0
        selftest = None
        if a.tier == 'thorough':
            from selftest.battery import run_battery
            selftest = run_battery(pid, sources, seed, rep)
        return finish(rep, a.tier, seed, t0, selftest)
    except Exception as e:   # internal error: never disguised as a violation
        traceback.print_exc()
        print(f'ANALYSIS-ERROR property={pid} internal error: {type(e).__name__}: {e}')
        return 2


if __name__ == '__main__':
    sys.exit(main())
