"""C05 - unit conversion agrees with SI definitions; comparisons are unit-blind.

Rules
* C05.table   every entry of every `__UNITS` dict literal, constant-folded exactly over Q[pi], equals
              an independent compositional SI oracle (sa/spec/si.py); exhaustive over all entries.
* C05.to      every `to()` implementation: on every non-raising path the SI magnitude is preserved, the
              result carries the target unit, the copying form returns the receiver's own kind and leaves
              the receiver unchanged, the in-place form stores value *and* unit and returns self, copying
              and in-place agree; unknown units raise KeyError.
* C05.mirror  sub-kinds (Angle, TimeInterval) keep their private value/unit copies equal to the parent's.
* C05.cmp     the six comparison dunders x {same unit, different units} x all kinds: the result is the
              specified predicate of d = SI-difference expressed in the left operand's unit; foreign kinds
              raise TypeError.
* C05.blind   the truth of a comparison must not depend on the unit an operand is expressed in: a unit
              factor surviving in the canonical predicate is a violation.
"""
from __future__ import annotations

import ast
from fractions import Fraction

from sa import sx as sxm
from sa.algebra import Rat
from sa.core import AnalysisError
from sa.spec.si import DIMS, SUBKINDS, si_factor
from sa.sx import SX, Q, N, U, Ov, Uv, Sv, Unk, Bsym, Bv, G, Outcome, State, CannotDecide, make_cmp, static_truth
from sa.units import UnitTables, rat_to_float

REL_TOL = Fraction(1, 10 ** 12)
CMP = {'__eq__': 'eq', '__ne__': 'ne', '__gt__': 'gt', '__ge__': 'ge', '__lt__': 'lt', '__le__': 'le'}


def check_tables(model, rep, tables: UnitTables, R='C05.table'):
    n = 0
    for kind, unit, ln in tables.duplicates:
        rep.violation(R, f"{kind}.__UNITS[{unit!r}]:duplicate", f'the key {unit!r} is written twice in the table literal: Python keeps the last value, '
                      f'the earlier line is dead text that still looks like the definition', f'{model.classes[kind].module}:{ln}')
    for kind, tab in sorted(tables.tables.items()):
        loc = f'{model.classes[kind].module}:{tables.nodes[kind].lineno}'
        if kind not in DIMS:
            rep.cannot(R, f'{kind}.__UNITS', 'kind unknown to the SI oracle', loc)
            continue
        si_units = 0
        for unit, val in tab.items():
            n += 1
            rep.inspect()
            cons = f'{kind}.__UNITS[{unit!r}]'
            want = si_factor(kind, unit)
            if want is None:
                rep.cannot(R, cons, 'unit symbol is outside the oracle grammar', loc)
                continue
            if val.eq(want):
                rep.holds(R, cons, 'equals the SI definition exactly over Q[pi]', loc,
                          extracted=repr(val), oracle=repr(want))
            else:
                ratio = val / want
                ok = False
                if ratio.is_const():
                    r = ratio.const_value()
                    ok = abs(r - 1) <= REL_TOL
                if ok:
                    rep.holds(R, cons, 'equals the SI definition within 1e-12 relative', loc)
                else:
                    try:
                        shown = f'{rat_to_float(val):.12g} vs SI {rat_to_float(want):.12g}'
                    except ValueError:
                        shown = f'{val} vs SI {want}'
                    rep.violation(R, cons, f'factor differs from the SI definition: {shown}', loc,
                                  extracted=repr(val), oracle=repr(want))
            if val.is_const() and val.const_value() == 1:
                si_units += 1
            # positivity (used by C19's sign reasoning)
            try:
                if rat_to_float(val) <= 0:
                    rep.violation(R, cons, 'non-positive unit factor', loc)
            except ValueError:
                pass
        if si_units < 1:
            rep.violation(R, f'{kind}.__UNITS', 'no unit with factor 1 (the SI unit is missing)', loc)
    rep.require(R, 60, 'one instance per table entry (66 on the pinned tree)')
    rep.analysed['unit_entries'] = n
    rep.analysed['unit_tables'] = len(tables.tables)


# ------------------------------------------------------------------------------------------ to()
def _final_value_unit(sx, kind, state):
    """(value V, unit V) of `self` as seen through the public properties in `state`"""
    frame = {'module': sx.model.classes[kind].module, 'cls': kind,
             'fn': ast.parse('def probe(): pass').body[0], 'depth': 0}
    st = state.copy()
    st.env = {'self': Ov('self', kind, True)}
    v = sx.eval1(ast.parse('self.value', mode='eval').body, st, frame)
    u = sx.eval1(ast.parse('self.unit', mode='eval').body, st, frame)
    return v, u


def _unit_name(u):
    if isinstance(u, Unk):
        return u.text
    if isinstance(u, Uv):
        return u.unit.sym if u.unit.sym is not None else u.unit.lit
    return None


def _judge_to_outcome(sx, model, kind, o, S0, tgt, Ft, subst, problems, copy_vals, inplace_vals):
    """one completed path of a to(): `tgt` is the name of the target unit (symbolic 'target_unit' or a literal unit),
    `Ft` its SI factor, `S0` the SI magnitude before the call"""
    ctx = sx.ctx
    if o.kind == 'fall':
        problems.append((o.loc, 'a path falls off the end of to() without returning a quantity'))
        return
    stores = [e for e in o.state.effects if e[0] == 'store' and e[1] == 'self']
    v = o.value
    if isinstance(v, Q):
        if v.kind != kind:
            problems.append((o.loc, f'copying conversion returns a {v.kind}, not a {kind}'))
        if stores:
            problems.append((o.loc, 'copying conversion modifies the receiver'))
        if v.unit is None or (v.unit.sym if v.unit.sym is not None else v.unit.lit) != tgt:
            problems.append((o.loc, f'result is labelled {v.unit!r}, not the target unit'))
        t = ctx.subst(v.term, subst) if subst else v.term
        if not ctx.eq(t, S0):
            problems.append((o.loc, f'copying conversion changes the SI magnitude: '
                                    f'{ctx.show(ctx.reduce(t))[:160]} instead of {ctx.show(S0)[:80]}'))
        copy_vals.append(ctx.subst(v.term / Ft, subst) if subst else v.term / Ft)
    elif isinstance(v, Ov) and v.path == 'self':
        try:
            v1, u1 = _final_value_unit(sx, kind, o.state)
        except CannotDecide as e:
            problems.append((o.loc, f'state after in-place conversion not readable: {e}'))
            return
        if _unit_name(u1) != tgt:
            problems.append((o.loc, f'in-place conversion leaves unit {_unit_name(u1)!r}, not the target unit'))
        t = v1.term * Ft
        t = ctx.subst(t, subst) if subst else t
        if not ctx.eq(t, S0):
            problems.append((o.loc, f'in-place conversion changes the SI magnitude: value becomes '
                                    f'{ctx.show(ctx.reduce(v1.term))[:160]}'))
        # all private copies must agree
        vals = [e for e in stores if e[2].endswith('__value')]
        units = [e for e in stores if e[2].endswith('__unit')]
        if not vals or not units:
            problems.append((o.loc, 'in-place conversion does not store both value and unit'))
        final = {}
        for e in stores:
            final[e[2]] = e[3]
        fvals = [x for k, x in final.items() if k.endswith('__value')]
        funits = [x for k, x in final.items() if k.endswith('__unit')]
        if any(not ctx.eq(x.term, fvals[0].term) for x in fvals[1:] if hasattr(x, 'term')):
            problems.append((o.loc, 'private value copies disagree after in-place conversion'))
        if len({_unit_name(x) for x in funits}) > 1:
            problems.append((o.loc, 'private unit copies disagree after in-place conversion'))
        need = _private_copies(model, kind)
        missing = sorted(need - set(final))
        if missing:
            problems.append((o.loc, f'in-place conversion leaves stale private copies: {missing}'))
        inplace_vals.append(ctx.subst(v1.term, subst) if subst else v1.term)
    else:
        problems.append((o.loc, f'to() returns {sx.show(v)[:60]}'))


def _private_copies(model, kind):
    return {f'_{c}{priv}' for priv in ('__value', '__unit') for c in model.mro(kind)
            if c in model.classes and any(
        isinstance(n, ast.Attribute) and n.attr == priv and isinstance(n.ctx, ast.Store)
        for mm in model.classes[c].all_members() for n in ast.walk(mm.node))}


def _concrete_to(sx, model, kind, fam, m, tables):
    """fallback when to() consults something a symbolic unit cannot index (a second constant table, a chain of
    literal unit tests): the unit table is finite, so every (present unit, target unit) pair is evaluated concretely"""
    from sa.sx import U
    problems, copy_vals, inplace_vals = [], [], []
    units = list(tables.table_of(fam))
    priv = sorted(f for f in _private_copies(model, kind) if f.endswith('__unit'))
    saw_keyerror = False
    paths = 0
    for u in units + ['<not-a-unit>']:
        for t in units + ['<not-a-unit>']:
            if (u == '<not-a-unit>') == (t == '<not-a-unit>'):
                if u == '<not-a-unit>':
                    continue
            if u == '<not-a-unit>':
                continue
            st = State()
            for f in priv:
                st.heap[('self', f)] = Uv(U(lit=u))
            v0, _ = _final_value_unit(sx, kind, st)
            S0 = v0.term * tables.factor(fam, u)
            tv = Uv(U(lit=t)) if t != '<not-a-unit>' else Sv(t)
            outs = sx.run(m.node, m.module, kind, Ov('self', kind, True), {'target_unit': tv}, st)
            for o in outs:
                paths += 1
                if o.kind == 'raise':
                    if o.value == 'KeyError' and t == '<not-a-unit>':
                        saw_keyerror = True
                    elif t != '<not-a-unit>' and o.value not in ('TypeError',):
                        problems.append((o.loc, f'converting {u!r} to {t!r} raises {o.value}'))
                    continue
                if t == '<not-a-unit>':
                    problems.append((o.loc, 'an unknown target unit is converted instead of rejected'))
                    continue
                before = len(problems)
                _judge_to_outcome(sx, model, kind, o, S0, t, tables.factor(fam, t), {}, problems, copy_vals, inplace_vals)
                problems[before:] = [(ln, f'{u!r} -> {t!r}: {w}') for ln, w in problems[before:]]
    return problems, copy_vals, inplace_vals, saw_keyerror, paths


def check_to(model, rep, sx: SX, tables: UnitTables, R='C05.to'):
    ctx = sx.ctx
    kinds = sorted(model.quantity_kinds())
    impls = 0
    for kind in kinds:
        m = model.find_member(kind, 'to')
        if m is None or m.cls == 'UnitBase':
            rep.violation(R, f'{kind}.to', 'no concrete to() implementation')
            continue
        impls += 1
        fam = tables.family(kind)
        cons = f'{kind}.to'
        try:
            v0, u0 = _final_value_unit(sx, kind, State())
            u0n = _unit_name(u0)
            S0 = v0.term * Rat.atom(f'F[{fam}:{u0n}]')
            outs = sx.run(m.node, m.module, kind, Ov('self', kind, True))
        except CannotDecide as e:
            try:
                problems, copy_vals, inplace_vals, saw_keyerror, np = _concrete_to(sx, model, kind, fam, m, tables)
            except CannotDecide as e2:
                rep.cannot(R, cons, f'{e}; per-unit evaluation: {e2}', m.loc)
                continue
            rep.inspect(np)
            outs = []
            concrete = True
        else:
            concrete = False
            rep.inspect(len(outs))
            copy_vals, inplace_vals = [], []
            saw_keyerror = False
            problems = []
        # the default of `inplace`: every internal `other.to(self.unit)` relies on the copying default
        dflt = {a.arg: d for a, d in zip(m.node.args.args[len(m.node.args.args) - len(m.node.args.defaults):], m.node.args.defaults)}
        if 'inplace' in dflt and not (isinstance(dflt['inplace'], ast.Constant) and dflt['inplace'].value is False):
            problems.append((m.node.lineno, f'to() converts in place by default (inplace={ast.unparse(dflt["inplace"])}): every `x.to(unit)` then rewrites x'))
        for o in outs:
            member = [g for g in o.state.guards if g.kind == 'in' and 'target_unit' in str(g.key[0]) and '__UNITS' in str(g.key[1])]
            if o.kind == 'raise':
                if o.value == 'KeyError':
                    saw_keyerror = True
                    if any(g.pol for g in member):
                        problems.append((o.loc, 'KeyError is raised for a target unit that IS in the unit table'))
                continue
            if any(not g.pol for g in member):
                problems.append((o.loc, 'a target unit that is not in the unit table is converted instead of rejected'))
            # equal-unit guard: target_unit == self unit  =>  identify the two unit factors
            subst = {}
            for g in o.state.guards:
                if g.kind == 'eq' and g.pol and 'target_unit' in g.key:
                    other = [k for k in g.key if k != 'target_unit']
                    if other:
                        subst[f'F[{fam}:target_unit]'] = Rat.atom(f'F[{fam}:{other[0]}]')
            _judge_to_outcome(sx, model, kind, o, S0, 'target_unit', Rat.atom(f'F[{fam}:target_unit]'), subst,
                              problems, copy_vals, inplace_vals)
        if not copy_vals:
            problems.append((m.node.lineno, 'no copying path'))
        if not inplace_vals:
            problems.append((m.node.lineno, 'no in-place path'))
        if not saw_keyerror:
            problems.append((m.node.lineno, 'an unknown target unit is not rejected with KeyError'))
        if problems:
            for ln, what in problems[:4]:
                rep.violation(R, cons, what, f'{m.module}:{ln}')
        else:
            rep.holds(R, cons, f'{len(copy_vals)} copying and {len(inplace_vals)} in-place path(s): SI magnitude '
                      f'preserved, unit = target, KeyError on unknown unit', m.loc,
                      extracted=ctx.show(ctx.reduce(copy_vals[-1]))[:200])
    rep.require(R, 13, 'one instance per quantity kind')
    rep.analysed['to_implementations'] = impls


def check_mirror(model, rep, sx: SX, R='C05.mirror'):
    """sub-kinds store private copies of value/unit; their constructor must store the same value as
    the parent's"""
    for sub, base in sorted(SUBKINDS.items()):
        if sub not in model.classes:
            continue
        m = model.find_member(sub, '__init__')
        outs = sx.run(m.node, m.module, sub, Ov('self', sub, True))
        ok, why = True, ''
        done = [o for o in outs if o.kind in ('fall', 'return')]
        if not done:
            ok, why = False, 'constructor never completes'
        for o in done:
            final = {}
            for e in o.state.effects:
                if e[0] == 'store' and e[1] == 'self':
                    final[e[2]] = e[3]
            vals = [v for k, v in final.items() if k.endswith('__value')]
            units = [v for k, v in final.items() if k.endswith('__unit')]
            if len(vals) < 1 or len(units) < 1:
                ok, why = False, 'constructor does not store value and unit'
            if any(sx.show(v) != sx.show(vals[0]) for v in vals[1:]) or any(sx.show(u) != sx.show(units[0]) for u in units[1:]):
                ok, why = False, 'private copies of value/unit are initialised differently'
        rep.decide(ok, R, f'{sub}.__init__', why, loc=m.loc)


# ------------------------------------------------------------------------------------------ comparisons
def spec_predicate(name, d: Rat, T: Rat, ctx):
    """specified truth condition as a canonical guard on d (difference in the left unit)"""
    if name == 'eq':
        return make_cmp('<', ctx.call('abs', d) - T)
    if name == 'ne':
        return make_cmp('<', T - ctx.call('abs', d))
    if name == 'gt':
        return make_cmp('<', T - d)
    if name == 'ge':
        return make_cmp('<=', -T - d)
    if name == 'lt':
        return make_cmp('<', d + T)
    if name == 'le':
        return make_cmp('<=', d - T)


def exact_predicate(name, d: Rat):
    return {'eq': make_cmp('==', d), 'ne': make_cmp('!=', d), 'gt': make_cmp('<', -d), 'ge': make_cmp('<=', -d),
            'lt': make_cmp('<', d), 'le': make_cmp('<=', d)}[name]


def _num_eval(ctx, rat, env):
    """exact value (Fraction) of a canonical term at a point: env maps atoms to Fractions; function atoms (abs, fabs, min, max) are
    evaluated on their evaluated arguments"""
    def atom(a):
        if a in env:
            return env[a]
        if a in ctx.defs:
            f, args = ctx.defs[a]
            vals = [_num_eval(ctx, x, env) for x in args]
            if f in ('abs', 'fabs'):
                return abs(vals[0])
            if f == 'min':
                return min(vals)
            if f == 'max':
                return max(vals)
        raise KeyError(a)

    def poly(p_):
        tot = Fraction(0)
        for mono, c in p_.t.items():
            v = Fraction(c)
            for a, e in mono:
                v *= atom(a) ** e
            tot += v
        return tot
    den = poly(rat.d)
    if den == 0:
        raise ZeroDivisionError
    return poly(rat.n) / den


def _guard_holds(ctx, g, env):
    v = _num_eval(ctx, g.rat, env)
    r = {'<': v < 0, '<=': v <= 0, '==': v == 0, '!=': v != 0}[g.key[0]]
    return r if g.pol else not r


def _decide_by_points(ctx, paths, want, env_of, points):
    """the boolean function coded by `paths` [(cmp guards, truth)] against the specified predicate `want`, at every point of
    `points` (the breakpoints of the piecewise predicate, the midpoints and beyond): -> (ok, why)"""
    for d in points:
        env = env_of(d)
        try:
            hits = [t for gs, t in paths if all(_guard_holds(ctx, g, env) for g in gs)]
            spec = _guard_holds(ctx, want, env)
        except (KeyError, ZeroDivisionError) as e:
            return None, f'predicate not evaluable at a point ({e!r})'
        if not hits:
            return False, f'no path answers for a difference of {d} (in the left unit)'
        if any(h != hits[0] for h in hits):
            return False, f'paths disagree for a difference of {d}'
        if hits[0] != spec:
            return False, f'for a difference of {float(d):g} (left unit; tolerance {float(points[-1]) / 1e6 if False else "T"}) the method answers {hits[0]}, specified {spec}'
    return True, ''


def check_cmp(model, rep, sx: SX, tables):
    ctx = sx.ctx
    kinds = sorted(model.quantity_kinds())
    # tolerance constant
    tol_node = None
    for mod, consts in model.module_consts.items():
        if 'COMPARISON_TOLERANCE' in consts:
            tol_node = consts['COMPARISON_TOLERANCE']
    S, O = Rat.atom('S'), Rat.atom('O')
    n_inst = 0
    blind_reported = set()
    for dunder, name in CMP.items():
        for left in kinds:
            m = model.find_member(left, dunder)
            if m is None:
                rep.violation('C05.cmp', f'{left}.{dunder}', 'comparison dunder missing')
                continue
            fam = tables.family(left)
            for right in kinds:
                related = SUBKINDS.get(left, left) == SUBKINDS.get(right, right)
                cons = f'{m.cls}.{dunder}[{left},{right}]'
                sx.cmp_sides = []
                try:
                    outs = sx.run(m.node, m.module, m.cls, Q(left, S, U(sym='a')), {
                        [a.arg for a in m.node.args.args][1]: Q(right, O, U(sym='b'))})
                except CannotDecide as e:
                    rep.cannot('C05.cmp', cons, str(e), m.loc)
                    sx.cmp_sides = None
                    continue
                sides, sx.cmp_sides = sx.cmp_sides, None
                rep.inspect()
                n_inst += 1
                rets = [o for o in outs if o.kind == 'return']
                if not related:
                    if rets:
                        rep.violation('C05.cmp', cons, 'comparison between different kinds does not raise TypeError', m.loc)
                    else:
                        rep.holds('C05.cmp', cons, 'foreign kind rejected', m.loc)
                    continue
                if not rets:
                    rep.violation('C05.cmp', cons, 'comparison of related kinds raises on every path', m.loc)
                    continue
                Fa, Fb = Rat.atom(f'F[{fam}:a]'), Rat.atom(f'F[{fam}:b]')
                ok, why, locline = True, '', m.node.lineno
                T = None
                if tol_node is not None:
                    from sa.units import const_fold
                    T = const_fold(tol_node)
                if T is None or not T.is_const() or not (0 < T.const_value() <= Fraction(1, 10 ** 6)):
                    rep.violation('C05.cmp', cons, 'comparison tolerance is not a small positive constant', m.loc)
                    continue
                Tv_ = T.const_value()
                # the answer as a function of the difference, decided per unit branch on the breakpoints of the piecewise predicate
                branches = {True: [], False: []}
                bad_value = None
                for o in rets:
                    same_unit = any(g.kind == 'eq' and g.pol and set(g.key) == {'unit-of(a)', 'unit-of(b)'} for g in o.state.guards)
                    known_diff = any(g.kind == 'eq' and not g.pol and set(g.key) == {'unit-of(a)', 'unit-of(b)'} for g in o.state.guards)
                    cg = [g for g in o.state.guards if g.kind == 'cmp']
                    v = o.value
                    if isinstance(v, Bv):
                        outs_ = [(cg, v.b)]
                    elif isinstance(v, Bsym) and v.guard.kind == 'cmp':
                        outs_ = [(cg + [v.guard], True), (cg + [v.guard.negate()], False)]
                    else:
                        bad_value, locline = f'returns {sx.show(v)[:80]}', o.loc
                        continue
                    for b_ in ((True,) if same_unit else ((False,) if known_diff else (True, False))):
                        branches[b_] += outs_
                    # unit-blindness of the predicate (different units)
                    if not same_unit:
                        for g in [x for x in (cg + ([v.guard] if isinstance(v, Bsym) else []))]:
                            leftover = {a for a in g.rat.atoms() if a.startswith('F[')}
                            for a, (f, args) in list(ctx.defs.items()):
                                if a in g.rat.atoms():
                                    for x in args:
                                        leftover |= {b for b in x.atoms() if b.startswith('F[')}
                            if leftover:
                                g1 = make_cmp(g.key[0], ctx.subst(g.rat, {a: Rat.const(1) for a in leftover}))
                                g2 = make_cmp(g.key[0], ctx.subst(g.rat, {a: Rat.const(1000) for a in leftover}))
                                if not g1.same(g2):
                                    key = f'{m.cls}.{dunder}'
                                    if key not in blind_reported:
                                        blind_reported.add(key)
                                        rep.violation('C05.blind', key,
                                                      'the comparison tolerance is absolute in the left operand\'s unit: the '
                                                      'result depends on the unit the operands are expressed in '
                                                      f'(`{g.show(ctx)[:140]}`)', f'{m.module}:{o.loc}')
                if bad_value:
                    rep.violation('C05.cmp', cons, bad_value, f'{m.module}:{locline}')
                    continue
                # the tolerance must meet the DIFFERENCE of the two values: added to (or subtracted from) a value-sized operand it is
                # absorbed by rounding as soon as |value| >= 2**14 (1e-12 is below half an ulp there), and equal magnitudes compare unequal
                absorbed = None
                for node_, op_, lt, rt in sides:
                    for side in (lt, rt):
                        ones = {a: Rat.const(1) for a in (side.n.atoms() | side.d.atoms()) if a.startswith('F[')}
                        side = ctx.reduce(ctx.subst(side, ones) if ones else side)
                        if side.d.is_const() and len(side.n.t) > 1 and () in side.n.t:
                            c0 = abs(side.n.t[()] / side.d.const_value())
                            if c0 == Tv_ and (lt - rt).n.atoms():
                                others = Rat(side.n) - Rat.const(side.n.t[()])
                                diff_like = 'S' in others.atoms() and 'O' in others.atoms()
                                if not diff_like:
                                    absorbed = (getattr(node_, 'lineno', m.node.lineno), ctx.show(side)[:80])
                if absorbed:
                    rep.violation('C05.cmp', cons, f'the tolerance is added to an operand (`{absorbed[1]}`) instead of being compared with the '
                                  f'difference of the operands: for magnitudes of 2**14 and more the sum rounds back to the operand and quantities '
                                  f'denoting the same magnitude compare unequal', f'{m.module}:{absorbed[0]}')
                    continue
                pts = [Fraction(-1), -2 * Tv_, -Tv_, -Tv_ / 2, Fraction(0), Tv_ / 2, Tv_, 2 * Tv_, Fraction(1), Fraction(-10 ** 6), Fraction(10 ** 6)]
                for same_unit, paths in branches.items():
                    if not paths:
                        continue

                    def env_of(d, same_unit=same_unit):
                        # generic operands with (S - O)/F[a] = d; in the different-unit branch the right unit's factor differs from the
                        # left one (a comparison that forgets to convert the right operand then sees another difference)
                        fa = Fraction(2)
                        base = Fraction(10 ** 7)
                        from sa.spec.si import SIGN as _SIGN
                        if right in _SIGN:
                            # the right operand must stay a valid value of its kind: it is held fixed, the left one carries the difference
                            S_, O_ = base + d * fa, base
                        else:
                            # the left operand is held fixed and the right one moves - through negative values too, where a sign shortcut
                            # of a sub-kind's own comparison (e.g. "an Angle is never below a negative position") would answer
                            S_, O_ = Fraction(7), Fraction(7) - d * fa
                        return {'S': S_, 'O': O_, f'F[{fam}:a]': fa, f'F[{fam}:b]': fa if same_unit else Fraction(3)}
                    want = exact_predicate(name, S - O) if same_unit else spec_predicate(name, (S - O) / Fa, T, ctx)
                    r_ok, r_why = _decide_by_points(ctx, paths, want, env_of, pts)
                    if r_ok is None:
                        rep.cannot('C05.cmp', cons, r_why, m.loc)
                        ok = None
                        break
                    if not r_ok:
                        # accept a unit-blind exact formulation in the different-unit branch too (decided above by C05.blind)
                        if not same_unit:
                            r2, _ = _decide_by_points(ctx, paths, exact_predicate(name, S - O), env_of, pts)
                            if r2:
                                continue
                        ok, why = False, f'{"same" if same_unit else "different"}-unit branch: {r_why}'
                        break
                if ok is None:
                    continue
                rep.decide(ok, 'C05.cmp', cons, why, loc=f'{m.module}:{locline}')
        key = f'UnitBase.{dunder}'
        if key not in blind_reported and model.find_member('UnitBase', dunder):
            rep.holds('C05.blind', key, 'predicate free of unit factors')
    rep.require('C05.cmp', 6 * 13 * 13, 'six dunders x kinds x kinds')
    rep.analysed['comparison_instances'] = n_inst


def check_ctor_stores(model, rep, sx, R='C05.ctor'):
    """the evaluator models quantity construction natively (value*F[unit]); so the constructors themselves are decided
    here: every accepting path stores exactly the value and the unit it was given, in the fields the `value` / `unit`
    properties (and the class's own private reads) return"""
    from sa.sx import Uv
    for kind in sorted(model.quantity_kinds()):
        m = model.member(kind, '__init__')
        names = [a.arg for a in m.node.args.args[1:]]
        if names[:2] != ['value', 'unit']:
            rep.violation(R, f'{kind}.__init__', f'constructor parameters are {names}, specified (value, unit)', m.loc)
            continue
        try:
            outs = sx.run(m.node, m.module, kind, Ov('self', kind, True), {'value': N(Rat.atom('v'), 'float'), 'unit': Uv(U(sym='u'))})
        except CannotDecide as e:
            rep.cannot(R, f'{kind}.__init__', str(e), m.loc)
            continue
        done = [o for o in outs if o.kind in ('fall', 'return')]
        ok, why = bool(done), 'no accepting path'
        for o in done:
            st = {e[2]: e[3] for e in o.state.effects if e[0] == 'store' and e[1] == 'self'}
            for prop, want in (('value', 'v'), ('unit', 'unit-of(u)')):
                fld = sx.trivial_getter_field(kind, prop)
                own = f'_{kind}__{prop}'
                need = {fld} | ({own} if any(k == own for k in st) or own == fld else set())
                # every class of the hierarchy that READS its own private copy (`self.__value` inside class C is `_C__value`)
                need |= {f'_{c}__{prop}' for c in model.mro(kind) if c in model.classes and any(
                    isinstance(n_, ast.Attribute) and n_.attr == f'__{prop}' and isinstance(n_.ctx, ast.Load)
                    for mm in model.classes[c].all_members() for n_ in ast.walk(mm.node))}
                if fld is None:
                    ok, why = False, f'the {prop} property does not return a stored field'
                    continue
                for f in need | {k for k in st if k.endswith(f'__{prop}')}:
                    if f not in st or sx.show(st[f]) != want:
                        ok, why = False, f'field {f} is {"not stored" if f not in st else "stored as `" + sx.show(st[f])[:40] + "`"}; specified the {prop} argument'
        rep.decide(ok, R, f'{kind}.__init__', why, loc=m.loc)
        rep.inspect()


def check(model, rep):
    # hidden state Python keeps outside the objects (not modelled by the evaluator): reported before anything else is evaluated
    from checks.solver_common import package_lints as _package_lints
    _package_lints(model, rep, 'C05.hidden-state', ('/units/',))
    rep.explain('C05: (1) all unit factors, folded exactly over Q[pi], against an independent compositional SI '
                'oracle (exhaustive); (2) every to() implementation evaluated symbolically: SI magnitude preserved '
                'on every non-raising path, copy == in-place, target unit stored, KeyError on unknown unit; '
                '(3) the six comparison dunders for every ordered pair of kinds: specified predicate of the '
                'SI difference, TypeError for foreign kinds; (4) unit-blindness of the comparison predicate. '
                'Decides conversion/comparison semantics for all units and all real values; rounding is not decided.')
    tables = UnitTables(model)
    sx = SX(model, tables)
    sxm.POSITIVE_ATOMS.clear()
    check_tables(model, rep, tables)
    check_ctor_stores(model, rep, sx)
    check_to(model, rep, sx, tables)
    check_mirror(model, rep, sx)
    check_cmp(model, rep, sx, tables)
    rep.exhaustive = True
    rep.assume('unit factors are positive (checked per entry)')
