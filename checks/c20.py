"""C20 - a powertrain is exactly the drive chain reachable from its motor.

* C20.walk     Powertrain.__init__ builds the element sequence by starting at the motor and appending
               `last.drives` until it is None - nothing else can end or alter the walk; stored as a tuple
* C20.rejects  a motor that drives nothing -> ValueError; duplicate names -> NameError; both before the stores
* C20.locking  self_locking starts False and becomes True iff some element is a WormGear whose self_locking is
               true (scan over all elements, no other assignment)
* C20.frozen   `elements` and `self_locking` are read-only properties returning the private fields unchanged; the
               fields have no writer outside __init__ anywhere in the package
"""
from __future__ import annotations

import ast

from sa.algebra import Rat
from sa.solver_ir import SolverIR
from sa.srcmodel import strip_docstring, walk_no_nested
from sa.sx import SX, State, Ov, Seq, Bv, CannotDecide, guards_at


def _is_last_drives(node, lst):
    """<lst>[-1].drives"""
    return (isinstance(node, ast.Attribute) and node.attr == 'drives' and isinstance(node.value, ast.Subscript)
            and isinstance(node.value.value, ast.Name) and node.value.value.id == lst
            and ast.unparse(node.value.slice) == '-1')


def check_walk(model, rep, m):
    body = strip_docstring(m.node.body)
    motor = m.node.args.args[1].arg
    whiles = [s for s in body if isinstance(s, ast.While)]
    fors_recursive = None
    if len(whiles) != 1:
        rep.cannot('C20.walk', 'Powertrain.__init__', f'{len(whiles)} while loops; the chain walk was not recognised', m.loc)
        return None
    w = whiles[0]
    wi = body.index(w)
    ok, why = True, ''
    lst = None
    t = w.test
    # idiom A: while L[-1].drives is not None: L.append(L[-1].drives)
    if isinstance(t, ast.Compare) and len(t.ops) == 1 and isinstance(t.ops[0], ast.IsNot) \
            and isinstance(t.comparators[0], ast.Constant) and t.comparators[0].value is None \
            and isinstance(t.left, ast.Attribute) and t.left.attr == 'drives' and isinstance(t.left.value, ast.Subscript) \
            and isinstance(t.left.value.value, ast.Name):
        lst = t.left.value.value.id
        if not _is_last_drives(t.left, lst):
            ok, why = False, f'the walk tests `{ast.unparse(t)}`, not the last element\'s drives'
        if w.orelse:
            ok, why = False, 'while/else in the chain walk'
        if len(w.body) != 1:
            ok, why = False, (f'the walk body has {len(w.body)} statements: something other than appending `last.drives` can stop '
                              f'or alter the walk (`{ast.unparse(w.body[0])[:70]}` ...)')
        else:
            b = w.body[0]
            if not (isinstance(b, ast.Expr) and isinstance(b.value, ast.Call) and isinstance(b.value.func, ast.Attribute)
                    and b.value.func.attr == 'append' and isinstance(b.value.func.value, ast.Name)
                    and b.value.func.value.id == lst and len(b.value.args) == 1 and _is_last_drives(b.value.args[0], lst)):
                ok, why = False, f'the walk step is `{ast.unparse(b)[:80]}`, specified {lst}.append({lst}[-1].drives)'
        # initialisation [motor]
        inits = [s for s in body[:wi] if isinstance(s, ast.Assign) and any(isinstance(x, ast.Name) and x.id == lst for x in s.targets)]
        if not inits or ast.unparse(inits[-1].value) != f'[{motor}]':
            ok, why = False, f'the walk does not start from the motor alone (`{ast.unparse(inits[-1].value) if inits else None}`)'
        # nothing between the walk and the store may modify the list
        for s in body[wi + 1:]:
            for n in ast.walk(s):
                if isinstance(n, ast.Call) and isinstance(n.func, ast.Attribute) and isinstance(n.func.value, ast.Name) \
                        and n.func.value.id == lst and n.func.attr in ('append', 'pop', 'remove', 'insert', 'reverse', 'sort', 'clear', 'extend'):
                    ok, why = False, f'the element list is modified after the walk ({ast.unparse(n)[:60]})'
                if isinstance(n, (ast.Assign, ast.AugAssign)) and any(isinstance(x, ast.Name) and x.id == lst
                                                                      for x in ([n.target] if isinstance(n, ast.AugAssign) else n.targets)):
                    ok, why = False, 'the element list is rebound after the walk'
    else:
        rep.cannot('C20.walk', 'Powertrain.__init__', f'chain walk `while {ast.unparse(t)[:60]}` is outside the recognised idiom', m.loc)
        return None
    rep.decide(ok, 'C20.walk', 'Powertrain.__init__:chain-walk', why, loc=f'{m.module}:{w.lineno}')
    # stored as a tuple of exactly that list
    stores = [s for s in body if isinstance(s, ast.Assign) and any(isinstance(x, ast.Attribute) and x.attr == '__elements' for x in s.targets)]
    oks = len(stores) == 1 and ast.unparse(stores[0].value) == f'tuple({lst})'
    rep.decide(oks, 'C20.walk', 'Powertrain.__init__:stored-tuple',
               f'elements stored as `{ast.unparse(stores[0].value) if stores else None}`, specified tuple({lst})',
               loc=f'{m.module}:{stores[0].lineno if stores else m.node.lineno}')
    return lst, (stores[0] if stores else None)


def check_rejects(model, rep, m, store):
    body = strip_docstring(m.node.body)
    motor = m.node.args.args[1].arg
    first_store = min([s.lineno for s in ast.walk(m.node) if isinstance(s, ast.Attribute) and isinstance(s.ctx, ast.Store)
                       and isinstance(s.value, ast.Name) and s.value.id == 'self'] or [10 ** 9])
    found = {'no-drive': None, 'duplicate': None, 'type': None}
    for s in ast.walk(m.node):
        if isinstance(s, ast.If):
            raises = [r for r in s.body if isinstance(r, ast.Raise)]
            if not raises:
                continue
            exc = ast.unparse(raises[0].exc.func) if isinstance(raises[0].exc, ast.Call) else ''
            test = ast.unparse(s.test)
            if exc == 'ValueError' and test == f'{motor}.drives is None':
                found['no-drive'] = s
            if exc == 'NameError' and ('> 1' in test or '>= 2' in test):
                found['duplicate'] = s
            if exc == 'TypeError' and 'isinstance' in test and 'MotorBase' in test:
                found['type'] = s
    rep.decide(found['no-drive'] is not None and found['no-drive'].lineno < first_store, 'C20.rejects',
               'Powertrain.__init__[motor drives nothing]', 'a motor connected to nothing is not rejected with ValueError before the '
               'powertrain is assembled', loc=m.loc)
    d = found['duplicate']
    okd = d is not None and d.lineno < first_store
    if okd:
        # the count must come from the names of the walked elements
        src = ast.unparse(m.node)
        okd = 'Counter' in src and '.name' in src
    rep.decide(okd, 'C20.rejects', 'Powertrain.__init__[duplicate names]',
               'two elements sharing a name are not rejected with NameError before the powertrain is assembled', loc=m.loc)
    rep.decide(found['type'] is not None and found['type'].lineno < first_store, 'C20.rejects',
               'Powertrain.__init__[motor type]', 'a non-motor argument is not rejected with TypeError', loc=m.loc)


def _elements_iter(node):
    return isinstance(node, (ast.Attribute, ast.Name)) and ast.unparse(node) in ('self.elements', 'self.__elements', 'elements')


def _conj(node):
    if isinstance(node, ast.BoolOp) and isinstance(node.op, ast.And):
        return [c for v in node.values for c in _conj(v)]
    return [node]


def _comprehension_forms(rep, R, m, tail) -> bool:
    """the scan written as a comprehension instead of the for-loop: `any(...)` quantifies over every
    element (decided here), `next(...)` consults the first match only (a violation when the flag hangs on it)"""
    stores = [s for s in tail for n in ast.walk(s) if isinstance(n, ast.Assign)
              and any(isinstance(t, ast.Attribute) and t.attr == '__self_locking' for t in n.targets) for s in [n]]
    if len(stores) != 1:
        return False
    val = stores[0].value
    loc = f'{m.module}:{stores[0].lineno}'
    # names bound by next(<generator over the elements>, default)
    firsts = {}
    for s in tail:
        for n in ast.walk(s):
            if isinstance(n, ast.Assign) and len(n.targets) == 1 and isinstance(n.targets[0], ast.Name) \
                    and isinstance(n.value, ast.Call) and isinstance(n.value.func, ast.Name) and n.value.func.id == 'next' \
                    and n.value.args and isinstance(n.value.args[0], ast.GeneratorExp) \
                    and _elements_iter(n.value.args[0].generators[0].iter):
                firsts[n.targets[0].id] = n.value.args[0]
    used = {x.id for x in ast.walk(val) if isinstance(x, ast.Name)} & set(firsts)
    inline_next = [x for x in ast.walk(val) if isinstance(x, ast.Call) and isinstance(x.func, ast.Name) and x.func.id == 'next'
                   and x.args and isinstance(x.args[0], ast.GeneratorExp) and _elements_iter(x.args[0].generators[0].iter)]
    if used or inline_next:
        gen = firsts[sorted(used)[0]] if used else inline_next[0].args[0]
        conds = [ast.unparse(c) for c in gen.generators[0].ifs]
        selective = any('self_locking' in c for c in conds)
        if not selective:
            rep.violation(R, 'Powertrain.__init__:scan', f'the flag is decided by the first element matching `{" and ".join(conds) or "True"}` '
                          f'only (next(...)): a self-locking worm gear further down the chain is never consulted', loc)
            return True
        return False
    if isinstance(val, ast.Call) and isinstance(val.func, ast.Name) and val.func.id == 'any' and len(val.args) == 1 \
            and isinstance(val.args[0], (ast.GeneratorExp, ast.ListComp)) and len(val.args[0].generators) == 1:
        comp = val.args[0]
        g = comp.generators[0]
        if not (_elements_iter(g.iter) and isinstance(g.target, ast.Name)):
            return False
        x = g.target.id
        parts = [c for cnd in g.ifs for c in _conj(cnd)] + _conj(comp.elt)
        txt = {ast.unparse(c) for c in parts}
        worm = {f'isinstance({x}, WormGear)'}
        lock = {f'{x}.self_locking', f'{x}.self_locking is True', f'{x}.self_locking == True'}
        ok = bool(txt & worm) and bool(txt & lock) and not (txt - worm - lock)
        rep.holds(R, 'Powertrain.__init__:initial-flag', 'any(...) over no match is False', loc)
        rep.holds(R, 'Powertrain.__init__:scan-coverage', 'any(...) over the whole element tuple', loc)
        rep.decide(ok, R, 'Powertrain.__init__:scan', f'the flag is any({" and ".join(sorted(txt))}); specified: some element is a WormGear '
                   f'whose self_locking is true', loc=loc)
        return True
    return False


def check_locking(model, rep, m, R='C20.locking'):
    """evaluate the tail of __init__ (after the elements are stored) with the element tuple symbolic"""
    body = strip_docstring(m.node.body)
    idx = None
    for i, s in enumerate(body):
        if isinstance(s, ast.Assign) and any(isinstance(x, ast.Attribute) and x.attr == '__elements' for x in s.targets):
            idx = i
    if idx is None:
        rep.cannot(R, 'Powertrain.__init__', 'store of the element tuple not found', m.loc)
        return
    if _comprehension_forms(rep, R, m, body[idx + 1:]):
        return
    ir = SolverIR(model, opaque_methods=())
    ir.install_subscript()
    sx = ir.sx
    st = State(env={'self': Ov('self', 'Powertrain', True)})
    st.heap[('self', '_Powertrain__elements')] = Seq('self.elements', ('obj', 'RotatingObject'))
    frame = {'module': m.module, 'cls': 'Powertrain', 'fn': m.node, 'depth': 0}
    try:
        outs = sx.block(body[idx + 1:], [st], frame)
    except CannotDecide as e:
        rep.cannot(R, 'Powertrain.__init__', str(e), m.loc)
        return
    done = [o for o in outs if o.kind in ('fall', 'return')]
    if len(done) != 1:
        rep.cannot(R, 'Powertrain.__init__', f'{len(done)} completing paths after the chain walk', m.loc)
        return
    effs = done[0].state.effects
    init = [e for e in effs if e[0] == 'store' and e[1] == 'self' and e[2].endswith('__self_locking')]
    ok_init = len(init) == 1 and isinstance(init[0][3], Bv) and init[0][3].b is False
    rep.decide(ok_init, R, 'Powertrain.__init__:initial-flag', 'the self-locking flag does not start as False', loc=m.loc)
    loops = [e[1] for e in effs if e[0] == 'loop' and any(
        x[0] == 'store' and x[2].endswith('__self_locking') for p in e[1].paths for x in p.effects)]
    if len(loops) != 1:
        rep.violation(R, 'Powertrain.__init__:scan', f'{len(loops)} loops set the self-locking flag (one scan over all elements specified)', m.loc)
        return
    L = loops[0]
    ctx = ir.ctx
    cov = L.kind == 'index' and ctx.eq(L.start, Rat.const(0)) and ctx.eq(L.stop, Rat.atom('n')) and ctx.eq(L.step, Rat.const(1))
    # position: the scan must come after the flag initialisation
    rep.decide(cov, R, 'Powertrain.__init__:scan-coverage', f'the scan visits {L.index_set(ctx) if L.kind == "index" else L.iter_text}, '
               f'all elements are specified', loc=f'{m.module}:{L.lineno}')
    ok, why = True, ''
    me = f'E[{ctx.show(L.index)}]'
    n_true = 0
    for p in L.paths:
        stores = [x for x in p.effects if x[0] == 'store' and x[2].endswith('__self_locking')]
        if p.exit not in ('next', 'break'):
            ok, why = False, f'the scan can exit with {p.exit}'
        for x in stores:
            g = guards_at(x, p.guards)
            if not (isinstance(x[3], Bv) and x[3].b is True):
                ok, why = False, (f'the scan assigns `{sx.show(x[3])[:60]}` to the flag (the last element scanned would decide); only '
                                  f'True may be assigned')
                continue
            n_true += 1
            is_worm = any(y.kind == 'isinstance' and y.pol and y.key[0] == me and 'WormGear' in y.key[1] for y in g)
            is_sl = any(y.kind == 'truth' and y.pol and y.key[0] == f'{me}.self_locking' for y in g)
            if not (is_worm and is_sl):
                ok, why = False, 'the flag is set without testing that the element is a WormGear whose self_locking is true'
        if not stores:
            # a path that does not set the flag must fail one of the two tests
            sets = any(y.kind == 'isinstance' and y.pol and 'WormGear' in str(y.key[1]) for y in p.guards) and \
                any(y.kind == 'truth' and y.pol and str(y.key[0]).endswith('.self_locking') for y in p.guards)
            if sets:
                ok, why = False, 'a self-locking worm gear does not set the flag on some path'
    if n_true == 0:
        ok, why = False, 'no path sets the flag to True'
    rep.decide(ok, R, 'Powertrain.__init__:scan', why, loc=f'{m.module}:{L.lineno}')


def check_frozen(model, rep):
    for prop, field in (('elements', '__elements'), ('self_locking', '__self_locking')):
        g = model.find_member('Powertrain', prop)
        s = model.find_setter('Powertrain', prop)
        ok = g is not None and g.kind == 'property' and s is None
        rep.decide(ok, 'C20.frozen', f'Powertrain.{prop}[read-only]', f'{prop} is not a read-only property', loc=g.loc if g else '')
        if g is not None:
            body = strip_docstring(g.node.body)
            trivial = len(body) == 1 and isinstance(body[0], ast.Return) and ast.unparse(body[0].value) == f'self.{field}'
            rep.decide(trivial, 'C20.frozen', f'Powertrain.{prop}[getter]',
                       f'the getter computes `{ast.unparse(body[0])[:80] if body else None}` instead of returning the value frozen at '
                       f'assembly', loc=g.loc)
        writers = []
        for c, ci in model.classes.items():
            for mem in ci.all_members():
                for n in ast.walk(mem.node):
                    if isinstance(n, ast.Attribute) and isinstance(n.ctx, ast.Store) and model.mangle(c, n.attr) == f'_Powertrain{field}':
                        if not (c == 'Powertrain' and mem.name == '__init__'):
                            writers.append(mem.qualname)
        for mod, tree in model.trees.items():
            for n in ast.walk(tree):
                if isinstance(n, ast.Attribute) and n.attr == f'_Powertrain{field}' and isinstance(n.ctx, ast.Store):
                    writers.append(f'{mod}:{n.lineno}')
                if isinstance(n, ast.Call) and isinstance(n.func, ast.Name) and n.func.id == 'setattr' and \
                        any(isinstance(a, ast.Constant) and isinstance(a.value, str) and field.strip('_') in a.value for a in n.args):
                    writers.append(f'{mod}:{n.lineno} setattr')
        rep.decide(not writers, 'C20.frozen', f'Powertrain.{field}:writers', f'the field is also written by {writers}')


def check(model, rep):
    rep.explain('C20: Powertrain.__init__ is matched against the chain-walk idiom (start [motor]; while last.drives is not None: '
                'append last.drives; nothing else in the loop, list untouched afterwards, stored as tuple); the two rejections '
                'precede every store; the self-locking scan (tail of __init__ evaluated symbolically over the abstract element '
                'tuple) starts False, visits all elements and assigns True exactly under isinstance(WormGear) and self_locking; '
                'both public attributes are setter-less properties returning the private field, with no other writer in the package.')
    m = model.member('Powertrain', '__init__')
    rep.inspect(len(list(ast.walk(m.node))))
    r = check_walk(model, rep, m)
    check_rejects(model, rep, m, r[1] if r else None)
    check_locking(model, rep, m)
    check_frozen(model, rep)
    rep.require('C20.walk', 2)
    rep.require('C20.rejects', 3)
    rep.require('C20.locking', 3)
    rep.require('C20.frozen', 6)
    rep.assume('drives links are those written by the relation functions (C10)')
