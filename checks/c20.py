"""C20 - a powertrain is exactly the drive chain reachable from its motor.

* C20.walk     Powertrain.__init__ evaluated abstractly on every concrete chain of 2..5 elements (spur gears,
               self-locking / reversible worm gears, with and without driven_by back-links): the stored value is a
               tuple of exactly the drives-chain, in order
* C20.rejects  on concrete inputs: a motor that drives nothing -> ValueError; a non-motor -> TypeError; every pattern
               of equal names (adjacent or not, 74 patterns) -> NameError before any store, distinct names accepted
* C20.locking  self_locking starts False and becomes True iff some element is a WormGear whose self_locking is
               true (scan over all elements, no other assignment)
* C20.frozen   `elements` and `self_locking` are read-only properties returning the private fields unchanged; the
               fields have no writer outside __init__ anywhere in the package
"""
from __future__ import annotations

import ast

from sa.algebra import Rat
from sa.solver_ir import SolverIR
from sa.srcmodel import strip_docstring, walk_no_nested
from sa.sx import SX, State, Ov, Seq, Bv, CannotDecide, guards_at






def _partitions(n):
    """all assignments of names to n positions up to renaming (restricted growth strings)"""
    def rec(prefix, mx):
        if len(prefix) == n:
            yield tuple(prefix)
            return
        for k in range(mx + 2):
            yield from rec(prefix + [k], max(mx, k))
    yield from rec([0], 0)






def concrete_init(model, m, classes, names=None, flags=None, backlinks=True):
    """Powertrain.__init__ evaluated on one concrete chain: classes[0] is passed as `motor`, element i drives
    element i+1, the last drives nothing.  -> (sx, outcomes, element objects)"""
    from sa import sx as sxm
    from sa.sx import SX, Sv, NoneV
    sx = SX(model)
    sx.eval_comprehensions = True
    sxm.POSITIVE_ATOMS.clear()
    st = sxm.State(env={})
    els = [Ov(f'el{i}', c, True) for i, c in enumerate(classes)]
    for i, o in enumerate(els):
        st.heap[(o.path, 'name')] = Sv(names[i] if names else f'name{i}')
        st.heap[(o.path, 'drives')] = els[i + 1] if i + 1 < len(els) else NoneV()
        st.heap[(o.path, 'driven_by')] = (els[i - 1] if i > 0 else NoneV()) if backlinks else NoneV()
        if flags and flags[i] is not None:
            st.heap[(o.path, 'self_locking')] = NoneV() if flags[i] == 'none' else Bv(flags[i])
    outs = sx.run(m.node, m.module, 'Powertrain', Ov('self', 'Powertrain', True), {m.node.args.args[1].arg: els[0]}, st)
    return sx, outs, els


def check_concrete(model, rep, m):
    """the constructor evaluated on every chain of 2..5 elements made of spur gears, self-locking and reversible worm
    gears (120 chains, with and without consistent driven_by back-links): the stored tuple is the chain in order and the
    frozen flag is `some worm gear is flagged self-locking`; a motor driving nothing and a non-motor are rejected"""
    import itertools
    from sa.sx import Tv
    import os
    efield = SX(model).trivial_getter_field('Powertrain', 'elements') or '_Powertrain__elements'
    ffield = SX(model).trivial_getter_field('Powertrain', 'self_locking') or '_Powertrain__self_locking'
    deep = os.environ.get('VERIF_TIER') == 'thorough'
    top = 8 if deep else 6
    walk_bad = tuple_bad = flag_bad = None
    n_cfg = 0
    try:
        for n in range(2, top):
            # 'WN': a worm gear held by fixed joints only - no mating ever flagged it, its flag is None (short chains only)
            for combo in itertools.product(('S', 'WT', 'WF', 'WN') if n <= (5 if deep else 4) else ('S', 'WT', 'WF'), repeat=n - 1):
                for backlinks in ((True, False) if n <= 4 else (True,)):
                    n_cfg += 1
                    classes = ['DCMotor'] + ['SpurGear' if c == 'S' else 'WormGear' for c in combo]
                    flags = [None] + [None if c == 'S' else ('none' if c == 'WN' else c == 'WT') for c in combo]
                    sx, outs, els = concrete_init(model, m, classes, flags=flags, backlinks=backlinks)
                    tag = 'motor -> ' + ' -> '.join({'S': 'spur', 'WT': 'worm(self-locking)', 'WF': 'worm', 'WN': 'worm(never mated)'}[c] for c in combo) + \
                          ('' if backlinks else ' (driven_by links not set)')
                    done = [o for o in outs if o.kind in ('fall', 'return')]
                    if len(done) != 1 or len(outs) != 1:
                        walk_bad = walk_bad or f'the chain {tag} is not assembled: {[(o.kind, o.value) for o in outs if o.kind == "raise"][:1] or len(done)} '
                        continue
                    effs = done[0].state.effects
                    st_el = [e for e in effs if e[0] == 'store' and e[1] == 'self' and e[2] == efield]
                    st_fl = [e for e in effs if e[0] == 'store' and e[1] == 'self' and e[2] == ffield]
                    if not st_el or not isinstance(st_el[-1][3], Tv):
                        walk_bad = walk_bad or f'for the chain {tag} the elements are stored as `{sx.show(st_el[-1][3])[:60] if st_el else None}`'
                        continue
                    got = [getattr(i, 'path', '?') for i in st_el[-1][3].items]
                    if got != [e.path for e in els]:
                        walk_bad = walk_bad or (f'for the chain {tag} the stored elements are positions '
                                                f'{[g.replace("el", "") for g in got]} of the chain, specified every element once, in order')
                    if st_el[-1][3].kind != 'tuple':
                        tuple_bad = tuple_bad or f'the elements are stored as a {st_el[-1][3].kind}, specified an immutable tuple'
                    want = any(c == 'WT' for c in combo)
                    val = st_fl[-1][3] if st_fl else None
                    if val is None:
                        # the flag is not one stored boolean: read it through the public getter on the assembled object
                        try:
                            fr = {'module': m.module, 'cls': 'Powertrain', 'fn': m.node, 'depth': 0}
                            s_ = done[0].state.copy()
                            s_.env = {'self': Ov('self', 'Powertrain', True)}
                            sx.eval_comprehensions = True
                            rs = [r for r in sx.eval_x(ast.parse('self.self_locking', mode='eval').body, s_, fr) if not hasattr(r, 'kind')]
                            if len(rs) == 1:
                                val = rs[0][1]
                        except CannotDecide:
                            pass
                    if not (isinstance(val, Bv) and val.b is want):
                        flag_bad = flag_bad or (f'for the chain {tag} the frozen self-locking flag is `{sx.show(val)[:40] if val is not None else None}`, '
                                                f'specified {want}')
        # rejections
        sx, outs, _ = concrete_init(model, m, ['DCMotor'])
        ok_nd = bool(outs) and all(o.kind == 'raise' and o.value == 'ValueError' for o in outs)
        sx, outs, _ = concrete_init(model, m, ['SpurGear', 'SpurGear'])
        ok_ty = bool(outs) and all(o.kind == 'raise' and o.value == 'TypeError' for o in outs)
    except CannotDecide as e:
        rep.cannot('C20.walk', 'Powertrain.__init__', str(e), m.loc)
        return
    rep.inspect(n_cfg)
    d = f'{n_cfg} concrete chains of 2..{top - 1} elements'
    rep.decide(walk_bad is None, 'C20.walk', 'Powertrain.__init__:chain-walk', walk_bad or '', loc=m.loc, detail=d)
    rep.decide(tuple_bad is None, 'C20.walk', 'Powertrain.__init__:stored-tuple', tuple_bad or '', loc=m.loc, detail=d)
    rep.decide(flag_bad is None, 'C20.locking', 'Powertrain.__init__:flag-value', flag_bad or '', loc=m.loc, detail=d)
    rep.decide(ok_nd, 'C20.rejects', 'Powertrain.__init__[motor drives nothing]', 'a motor connected to nothing is not rejected with '
               'ValueError before the powertrain is assembled', loc=m.loc)
    rep.decide(ok_ty, 'C20.rejects', 'Powertrain.__init__[motor type]', 'a non-motor argument is not rejected with TypeError', loc=m.loc)
    # duplicate names, wherever they sit
    bad = None
    n_pat = 0
    try:
        for n in range(2, 7 if deep else 6):
            for pat in _partitions(n):
                n_pat += 1
                sx, outs, _ = concrete_init(model, m, ['DCMotor'] + ['SpurGear'] * (n - 1), names=[f'name{k}' for k in pat])
                dup = len(set(pat)) < n
                for o in outs:
                    raised = o.kind == 'raise'
                    if dup and not (raised and o.value == 'NameError'):
                        bad = bad or (f'a chain whose elements are named {["name%d" % k for k in pat]} is '
                                      f'{"rejected with " + str(o.value) if raised else "accepted"}; NameError is specified whenever two '
                                      f'elements share a name (adjacent or not)')
                    if not dup and raised:
                        bad = bad or f'a chain of {n} distinctly named elements is rejected with {o.value}'
                    if dup and raised and any(e[0] == 'store' and e[1] == 'self' for e in o.state.effects):
                        bad = bad or 'the duplicate is reported after the powertrain has been (partly) assembled'
                    # ... and a rejected chain must leave its elements as they were: marks put on them during the walk and not taken
                    # off again on the raising path make the next assembly of the same elements behave differently
                    left = sorted({(e[1], e[2]) for e in o.state.effects if e[0] == 'store' and e[1] != 'self'
                                   and not (getattr(o.state.heap.get((e[1], e[2])), 'text', None) == '<deleted>')})
                    if raised and left:
                        bad = bad or (f'the chain named {["name%d" % k for k in pat]} is rejected with {o.value} after `{left[0][1]}` was written on '
                                      f'its elements and not removed: the elements are not what they were before the attempt')
    except CannotDecide as e:
        rep.cannot('C20.rejects', 'Powertrain.__init__[duplicate names]', str(e), m.loc)
        return
    rep.inspect(n_pat)
    rep.decide(bad is None, 'C20.rejects', 'Powertrain.__init__[duplicate names]', bad or '', loc=m.loc,
               detail=f'{n_pat} name patterns on chains of 2..{6 if deep else 5} elements')


def _elements_iter(node):
    return isinstance(node, (ast.Attribute, ast.Name)) and ast.unparse(node) in ('self.elements', 'self.__elements', 'elements')


def _conj(node):
    if isinstance(node, ast.BoolOp) and isinstance(node.op, ast.And):
        return [c for v in node.values for c in _conj(v)]
    return [node]


def _comprehension_forms(rep, R, m, tail) -> bool:
    """the scan written as a comprehension instead of the for-loop: `any(...)` quantifies over every
    element (decided here), `next(...)` consults the first match only (a violation when the flag hangs on it)"""
    stores = [s for s in tail for n in ast.walk(s) if isinstance(n, ast.Assign)
              and any(isinstance(t, ast.Attribute) and t.attr == '__self_locking' for t in n.targets) for s in [n]]
    if len(stores) != 1:
        return False
    val = stores[0].value
    loc = f'{m.module}:{stores[0].lineno}'
    # names bound by next(<generator over the elements>, default)
    firsts = {}
    for s in tail:
        for n in ast.walk(s):
            if isinstance(n, ast.Assign) and len(n.targets) == 1 and isinstance(n.targets[0], ast.Name) \
                    and isinstance(n.value, ast.Call) and isinstance(n.value.func, ast.Name) and n.value.func.id == 'next' \
                    and n.value.args and isinstance(n.value.args[0], ast.GeneratorExp) \
                    and _elements_iter(n.value.args[0].generators[0].iter):
                firsts[n.targets[0].id] = n.value.args[0]
    used = {x.id for x in ast.walk(val) if isinstance(x, ast.Name)} & set(firsts)
    inline_next = [x for x in ast.walk(val) if isinstance(x, ast.Call) and isinstance(x.func, ast.Name) and x.func.id == 'next'
                   and x.args and isinstance(x.args[0], ast.GeneratorExp) and _elements_iter(x.args[0].generators[0].iter)]
    if used or inline_next:
        gen = firsts[sorted(used)[0]] if used else inline_next[0].args[0]
        conds = [ast.unparse(c) for c in gen.generators[0].ifs]
        selective = any('self_locking' in c for c in conds)
        if not selective:
            rep.violation(R, 'Powertrain.__init__:scan', f'the flag is decided by the first element matching `{" and ".join(conds) or "True"}` '
                          f'only (next(...)): a self-locking worm gear further down the chain is never consulted', loc)
            return True
        return False
    if isinstance(val, ast.Call) and isinstance(val.func, ast.Name) and val.func.id == 'any' and len(val.args) == 1 \
            and isinstance(val.args[0], (ast.GeneratorExp, ast.ListComp)) and len(val.args[0].generators) == 1:
        comp = val.args[0]
        g = comp.generators[0]
        if not (_elements_iter(g.iter) and isinstance(g.target, ast.Name)):
            return False
        x = g.target.id
        parts = [c for cnd in g.ifs for c in _conj(cnd)] + _conj(comp.elt)
        txt = {ast.unparse(c) for c in parts}
        worm = {f'isinstance({x}, WormGear)'}
        lock = {f'{x}.self_locking', f'{x}.self_locking is True', f'{x}.self_locking == True'}
        ok = bool(txt & worm) and bool(txt & lock) and not (txt - worm - lock)
        rep.holds(R, 'Powertrain.__init__:initial-flag', 'any(...) over no match is False', loc)
        rep.holds(R, 'Powertrain.__init__:scan-coverage', 'any(...) over the whole element tuple', loc)
        rep.decide(ok, R, 'Powertrain.__init__:scan', f'the flag is any({" and ".join(sorted(txt))}); specified: some element is a WormGear '
                   f'whose self_locking is true', loc=loc)
        return True
    return False


def _quantified_form(model, rep, R, m, tail) -> bool:
    """the flag stored as any(<image of the whole element tuple>) - directly or through helper functions: decided on the
    map value (generic element, cases): some element satisfies a case with a true value exactly when it is a WormGear
    whose self_locking is true"""
    from sa import sx as sxm
    from sa.sx import SX, Qv, Mv, Bsym, G
    sx = SX(model)
    sx.eval_comprehensions = True
    st = sxm.State(env={'self': Ov('self', 'Powertrain', True)})
    st.heap[('self', 'elements')] = Seq('self.elements', ('obj', 'RotatingObject'))
    st.heap[('self', '_Powertrain__elements')] = Seq('self.elements', ('obj', 'RotatingObject'))
    frame = {'module': m.module, 'cls': 'Powertrain', 'fn': m.node, 'depth': 0}
    try:
        outs = sx.block(tail, [st], frame)
    except CannotDecide:
        return False
    done = [o for o in outs if o.kind in ('fall', 'return')]
    if len(done) != 1 or len(outs) != 1:
        return False
    stores = [e for e in done[0].state.effects if e[0] == 'store' and e[1] == 'self'
              and sx.canon_field('Powertrain', e[2]) == 'self_locking']
    if len(stores) != 1 or not isinstance(stores[0][3], Qv):
        return False
    q = stores[0][3]
    loc = f'{m.module}:{stores[0][4]}'
    each = f'each({q.mv.src})'
    rep.holds(R, 'Powertrain.__init__:initial-flag', 'any(...) over no match is False', loc)
    rep.decide(q.mv.src == 'self.elements', R, 'Powertrain.__init__:scan-coverage',
               f'the scan visits `{q.mv.src}`, all elements are specified', loc=loc)
    ok, why = q.quant == 'any', f'the flag is {q.quant}(...) over the elements; specified: SOME element is a self-locking worm gear'
    sets = []
    for guards, val in q.mv.cases:
        t = sx.truth(val)
        if t is False:
            continue
        conj = set()
        for g in tuple(guards) + (() if t is True else (t,)):
            if g.kind == 'isinstance' and g.key[0] == each:
                conj.add(('worm', g.pol) if 'WormGear' in g.key[1] and len(g.key[1]) == 1 else ('isinstance:' + ','.join(g.key[1]), g.pol))
            elif g.kind == 'truth' and str(g.key[0]) == f'{each}.self_locking':
                conj.add(('locking', g.pol))
            else:
                conj.add((g.show(sx.ctx)[:50], True))
        if any((k, not pol) in conj for k, pol in conj):
            continue            # contradictory: the value is false under the case's own guards
        sets.append(frozenset(conj))
    if ok and set(sets) != {frozenset({('worm', True), ('locking', True)})}:
        ok, why = False, (f'an element counts when {[sorted(x) for x in sets][:2]}; specified: exactly when it is a WormGear whose '
                          f'self_locking is true')
    rep.decide(ok, R, 'Powertrain.__init__:scan', why, loc=loc)
    return True


def check_flag_writers(model, rep, R='C20.locking'):
    """"a worm gear whose mating was flagged self-locking": the flag is what the last accepted worm-mating declaration wrote.
    Inside the gear classes only the constructor and the `self_locking` setter itself may write the private field - a write
    from another setter or method (e.g. a `driven_by` setter that "invalidates" it) changes the verdict of a mating that is
    still in force"""
    n = 0
    for cname, ci in sorted(model.classes.items()):
        st_ = model.find_setter(cname, 'self_locking') if hasattr(model, 'find_setter') else None
        if st_ is None or st_.cls != cname:
            continue
        fld = None
        for x in ast.walk(st_.node):
            if isinstance(x, ast.Attribute) and isinstance(x.ctx, ast.Store) and isinstance(x.value, ast.Name) and x.value.id == 'self':
                fld = x.attr
        if fld is None:
            continue
        n += 1
        bad = []
        for sub in [cname] + sorted(model.subclasses(cname, strict=True)):
            for mem in model.classes[sub].all_members():
                if mem.name == '__init__' or (mem.kind == 'setter' and mem.name == 'self_locking'):
                    continue
                for x in ast.walk(mem.node):
                    if isinstance(x, ast.Attribute) and isinstance(x.ctx, ast.Store) and isinstance(x.value, ast.Name) and x.value.id == 'self' \
                            and model.mangle(sub, x.attr) == model.mangle(cname, fld):
                        bad.append((mem, x.lineno))
                    if isinstance(x, ast.Attribute) and isinstance(x.ctx, ast.Store) and x.attr == 'self_locking' \
                            and isinstance(x.value, ast.Name) and x.value.id == 'self':
                        bad.append((mem, x.lineno))
        rep.decide(not bad, R, f'{cname}.self_locking:writers',
                   f'{bad[0][0].qualname if bad else ""} writes the self-locking flag (line {bad[0][1] if bad else 0}): '
                   f'the verdict of the worm mating in force is changed by something else than a worm-mating declaration',
                   loc=f'{bad[0][0].module}:{bad[0][1]}' if bad else st_.loc)
    if n == 0:
        rep.cannot(R, 'self_locking:writers', 'no class with a self_locking setter found')


def check_locking(model, rep, m, R='C20.locking'):
    """evaluate the tail of __init__ (after the elements are stored) with the element tuple symbolic"""
    body = strip_docstring(m.node.body)
    idx = None
    efield = SX(model).trivial_getter_field('Powertrain', 'elements') or '_Powertrain__elements'
    ffield = SX(model).trivial_getter_field('Powertrain', 'self_locking') or '_Powertrain__self_locking'
    for i, s in enumerate(body):
        if isinstance(s, ast.Assign) and any(isinstance(x, ast.Attribute) and model.mangle('Powertrain', x.attr) == efield for x in s.targets):
            idx = i
    flag_stores = [i for i, s in enumerate(body) for x in ast.walk(s) if isinstance(x, ast.Attribute) and isinstance(x.ctx, ast.Store)
                   and model.mangle('Powertrain', x.attr) == ffield]
    if idx is None or not flag_stores or min(flag_stores) < idx:
        # the scan is not a statement sequence over self.elements after the tuple is stored (e.g. it runs over the local list
        # before the stores): its all-n form is not decided here; chains of 2..5 (2..7 thorough) are decided by C20.locking flag-value
        for c in ('initial-flag', 'scan-coverage', 'scan'):
            rep.note(R, f'Powertrain.__init__:{c}', 'scan form outside the symbolic rule; decided on concrete chains only', m.loc)
        return
    if _quantified_form(model, rep, R, m, body[idx + 1:]):
        return
    if _comprehension_forms(rep, R, m, body[idx + 1:]):
        return
    ir = SolverIR(model, opaque_methods=())
    ir.install_subscript()
    sx = ir.sx
    st = State(env={'self': Ov('self', 'Powertrain', True)})
    st.heap[('self', '_Powertrain__elements')] = Seq('self.elements', ('obj', 'RotatingObject'))
    frame = {'module': m.module, 'cls': 'Powertrain', 'fn': m.node, 'depth': 0}
    try:
        outs = sx.block(body[idx + 1:], [st], frame)
    except CannotDecide as e:
        rep.cannot(R, 'Powertrain.__init__', str(e), m.loc)
        return
    done = [o for o in outs if o.kind in ('fall', 'return')]
    if len(done) != 1:
        rep.cannot(R, 'Powertrain.__init__', f'{len(done)} completing paths after the chain walk', m.loc)
        return
    effs = done[0].state.effects
    init = [e for e in effs if e[0] == 'store' and e[1] == 'self' and e[2] == ffield]
    from sa.sx import Fv, Unk
    if init and all(isinstance(e[3], (Fv, Unk)) for e in init) and not any(e[0] == 'loop' for e in effs):
        # the flag is a value computed before the tuple was stored (a local): the all-n form is not decided here
        for c in ('initial-flag', 'scan-coverage', 'scan'):
            rep.note(R, f'Powertrain.__init__:{c}', 'scan form outside the symbolic rule; decided on concrete chains only', m.loc)
        return
    loops = [e[1] for e in effs if e[0] == 'loop' and any(
        x[0] == 'store' and x[2] == ffield for p in e[1].paths for x in p.effects)]
    if not loops:
        # the flag is not set by a scan loop at all (a search with next(...), a position tested against None, ...): the all-n form is not
        # decided by this rule; chains of 2..5 (2..7 thorough) elements incl. never-mated worm gears are decided by the flag-value rule
        for c in ('initial-flag', 'scan-coverage', 'scan'):
            rep.note(R, f'Powertrain.__init__:{c}', 'scan form outside the symbolic rule; decided on concrete chains only', m.loc)
        return
    ok_init = len(init) == 1 and isinstance(init[0][3], Bv) and init[0][3].b is False
    rep.decide(ok_init, R, 'Powertrain.__init__:initial-flag', 'the self-locking flag does not start as False', loc=m.loc)
    if len(loops) != 1:
        rep.violation(R, 'Powertrain.__init__:scan', f'{len(loops)} loops set the self-locking flag (one scan over all elements specified)', m.loc)
        return
    L = loops[0]
    ctx = ir.ctx
    cov = L.kind == 'index' and ctx.eq(L.start, Rat.const(0)) and ctx.eq(L.stop, Rat.atom('n')) and ctx.eq(L.step, Rat.const(1))
    # position: the scan must come after the flag initialisation
    rep.decide(cov, R, 'Powertrain.__init__:scan-coverage', f'the scan visits {L.index_set(ctx) if L.kind == "index" else L.iter_text}, '
               f'all elements are specified', loc=f'{m.module}:{L.lineno}')
    ok, why = True, ''
    me = f'E[{ctx.show(L.index)}]'
    n_true = 0
    for p in L.paths:
        stores = [x for x in p.effects if x[0] == 'store' and x[2] == ffield]
        if p.exit not in ('next', 'break'):
            ok, why = False, f'the scan can exit with {p.exit}'
        for x in stores:
            g = guards_at(x, p.guards)
            from sa.sx import Bsym as _Bsym, implies as _implies
            if isinstance(x[3], _Bsym) and _implies(list(g), x[3].guard):
                x = x[:3] + (Bv(True),) + x[4:]          # a truth value that is true under the guards of this very path
            elif (isinstance(x[3], _Bsym) and x[3].guard.kind == 'truth' and str(x[3].guard.key[0]).split('#')[0] in (
                    'self.self_locking', 'self.' + ffield, f'carry:{ffield}')) or (
                    ffield.split('__')[-1] in sx.show(x[3]) and ('carry' in sx.show(x[3]) or sx.show(x[3]).startswith('self.'))):
                continue                                  # `flag = <...> or flag` on the path where the flag keeps its own value
            if not (isinstance(x[3], Bv) and x[3].b is True):
                ok, why = False, (f'the scan assigns `{sx.show(x[3])[:60]}` to the flag (the last element scanned would decide); only '
                                  f'True may be assigned')
                continue
            n_true += 1
            is_worm = any(y.kind == 'isinstance' and y.pol and y.key[0] == me and 'WormGear' in y.key[1] for y in g)
            is_sl = any(y.kind == 'truth' and y.pol and y.key[0] == f'{me}.self_locking' for y in g)
            if not (is_worm and is_sl):
                ok, why = False, 'the flag is set without testing that the element is a WormGear whose self_locking is true'
        if not stores:
            # a path that does not set the flag must fail one of the two tests
            sets = any(y.kind == 'isinstance' and y.pol and 'WormGear' in str(y.key[1]) for y in p.guards) and \
                any(y.kind == 'truth' and y.pol and str(y.key[0]).endswith('.self_locking') for y in p.guards)
            if sets:
                ok, why = False, 'a self-locking worm gear does not set the flag on some path'
    if n_true == 0:
        ok, why = False, 'no path sets the flag to True'
    rep.decide(ok, R, 'Powertrain.__init__:scan', why, loc=f'{m.module}:{L.lineno}')


def check_frozen(model, rep):
    for prop, default_field in (('elements', '__elements'), ('self_locking', '__self_locking')):
        g = model.find_member('Powertrain', prop)
        s = model.find_setter('Powertrain', prop)
        ok = g is not None and g.kind == 'property' and s is None
        rep.decide(ok, 'C20.frozen', f'Powertrain.{prop}[read-only]', f'{prop} is not a read-only property', loc=g.loc if g else '')
        field = default_field
        if g is not None:
            body = strip_docstring(g.node.body)
            # the getter returns one private field of the powertrain unchanged (whatever that field is called)
            trivial = len(body) == 1 and isinstance(body[0], ast.Return) and isinstance(body[0].value, ast.Attribute) \
                and isinstance(body[0].value.value, ast.Name) and body[0].value.value.id == 'self' \
                and body[0].value.attr.startswith('__') and not body[0].value.attr.endswith('__')
            if trivial:
                field = body[0].value.attr
            elif len(body) == 1 and isinstance(body[0], ast.Return) and body[0].value is not None:
                # a pure function of private fields of the powertrain (e.g. `len(self.__locking_gears) > 0`): frozen when those fields are -
                # it may not look INTO the elements (their flags can change after assembly)
                attrs = [a for a in ast.walk(body[0].value) if isinstance(a, ast.Attribute)]
                calls = [c for c in ast.walk(body[0].value) if isinstance(c, ast.Call)]
                own = [a for a in attrs if isinstance(a.value, ast.Name) and a.value.id == 'self' and a.attr.startswith('__') and not a.attr.endswith('__')]
                if attrs and len(own) == len(attrs) and all(isinstance(c.func, ast.Name) and c.func.id in ('len', 'bool', 'any', 'all', 'tuple') for c in calls) \
                        and not any(isinstance(x, (ast.GeneratorExp, ast.ListComp, ast.Lambda)) for x in ast.walk(body[0].value)):
                    trivial = True
                    field = own[0].attr
                # one field of an immutable record kept in a private field (`self.__layout.elements`, the record a NamedTuple defined in
                # the module): frozen when the private field is
                v = body[0].value
                if not trivial and isinstance(v, ast.Attribute) and isinstance(v.value, ast.Attribute) and isinstance(v.value.value, ast.Name) \
                        and v.value.value.id == 'self' and v.value.attr.startswith('__') and not v.value.attr.endswith('__'):
                    tree = model.trees.get(g.module)
                    records = {c.name for c in ast.walk(tree) if isinstance(c, ast.ClassDef)
                               and any(ast.unparse(b).split('.')[-1] == 'NamedTuple' for b in c.bases)} if tree is not None else set()
                    init = model.find_member('Powertrain', '__init__')
                    built = [a.value for a in ast.walk(init.node) if isinstance(a, ast.Assign)
                             and any(isinstance(t, ast.Attribute) and t.attr == v.value.attr for t in a.targets)] if init else []
                    if built and all(isinstance(b, ast.Call) and ((isinstance(b.func, ast.Name) and b.func.id in records) or (
                            isinstance(b.func, ast.Attribute) and b.func.attr == '_replace')) for b in built):
                        trivial = True
                        field = v.value.attr
            rep.decide(trivial, 'C20.frozen', f'Powertrain.{prop}[getter]',
                       f'the getter computes `{ast.unparse(body[0])[:80] if body else None}` instead of returning the value frozen at '
                       f'assembly', loc=g.loc)
        writers = []
        for c, ci in model.classes.items():
            for mem in ci.all_members():
                for n in ast.walk(mem.node):
                    if isinstance(n, ast.Attribute) and isinstance(n.ctx, ast.Store) and model.mangle(c, n.attr) == f'_Powertrain{field}':
                        if not (c == 'Powertrain' and mem.name == '__init__'):
                            writers.append(mem.qualname)
        for mod, tree in model.trees.items():
            for n in ast.walk(tree):
                if isinstance(n, ast.Attribute) and n.attr == f'_Powertrain{field}' and isinstance(n.ctx, ast.Store):
                    writers.append(f'{mod}:{n.lineno}')
                if isinstance(n, ast.Call) and isinstance(n.func, ast.Name) and n.func.id == 'setattr' and \
                        any(isinstance(a, ast.Constant) and isinstance(a.value, str) and field.strip('_') in a.value for a in n.args):
                    writers.append(f'{mod}:{n.lineno} setattr')
        rep.decide(not writers, 'C20.frozen', f'Powertrain.{default_field}:writers', f'the field {field} is also written by {writers}')


def check(model, rep):
    # hidden state Python keeps outside the objects (not modelled by the evaluator): reported before anything else is evaluated
    from checks.solver_common import package_lints as _package_lints
    _package_lints(model, rep, 'C20.hidden-state', ('/powertrain.py', '/utils/relations.py', '/mechanical_objects/worm_gear.py'))
    rep.explain('C20: Powertrain.__init__ is evaluated abstractly on every concrete chain of 2..5 elements (spur gears, self-locking and '
                'reversible worm gears, with and without driven_by back-links) and every pattern of equal/distinct names: the stored '
                'tuple is the drives-chain in order, the frozen flag is the disjunction over the worm gears, duplicates / a motor driving '
                'nothing / a non-motor raise before any store; the self-locking scan (tail of __init__ evaluated symbolically over the abstract element '
                'tuple) starts False, visits all elements and assigns True exactly under isinstance(WormGear) and self_locking; '
                'both public attributes are setter-less properties returning the private field, with no other writer in the package.')
    m = model.member('Powertrain', '__init__')
    rep.inspect(len(list(ast.walk(m.node))))
    check_concrete(model, rep, m)
    check_locking(model, rep, m)
    check_flag_writers(model, rep)
    # the chain is what the relation functions declared: every accepted declaration links master.drives / slave.driven_by
    # (C10's effect rules; a declaration that returns without linking leaves an older link in force)
    from sa.core import Report
    from checks import c10
    dep = Report('C10')
    c10.check(model, dep)
    for i in dep.instances:
        if i.rule == 'C10.effects':
            (rep.holds if i.status == 'HOLDS' else (rep.violation if i.status == 'VIOLATION' else rep.cannot))(
                'C20.links', i.construct, i.detail, i.loc)
        # "a worm gear whose mating was flagged self-locking": the flag of a REFUSED declaration must not stay behind
        if i.rule == 'C10.atomic':
            (rep.holds if i.status == 'HOLDS' else (rep.violation if i.status == 'VIOLATION' else rep.cannot))(
                'C20.links.atomic', i.construct, i.detail, i.loc)
    check_frozen(model, rep)
    rep.require('C20.walk', 2)
    rep.require('C20.rejects', 3)
    rep.require('C20.locking', 1)
    rep.require('C20.frozen', 6)
    rep.assume('drives links are those written by the relation functions (C10)')
