"""C03 - equation of motion and time-step update of the output element.

Decided clause: the inertia-reduction recurrence (J <- E[0].J; for i = 1..n-1 ascending: J <- J*ratio_i + J_i),
recomputed on every run before the first instant; acc(E[n-1]) = net torque / J exactly when not locked;
semi-implicit Euler on E[n-1] in the stepping loop only (speed += acc*dt, then position += new speed*dt) with
dt the time-step parameter as a quantity; result kinds of the three products.  Not decided: magnitudes."""
from __future__ import annotations

from checks.solver_common import run_model, classify, run_params, describe, lock_flag_fields
from sa.algebra import Rat
from sa.instant import KIN, loop_interval
from sa.solver_ir import atoms_deep
from sa.sx import Q, N, CannotDecide

KIND_OF = {'angular_position': 'AngularPosition', 'angular_speed': 'AngularSpeed',
           'angular_acceleration': 'AngularAcceleration', 'torque': 'Torque', 'driving_torque': 'Torque',
           'load_torque': 'Torque'}


def _once(rep, seen, key, ok, rule, cons, why, **kw):
    if key in seen:
        return
    seen.add(key)
    rep.decide(ok, rule, cons, why, **kw)


def find_inertia(rm, rp):
    """(init store event, loop event) of the inertia reduction on a run path: a loop with one carried
    quantity whose init value is an element's inertia moment"""
    for i, ev in enumerate(rp.pre):
        if ev.kind == 'loop' and ev.loop.kind == 'index':
            for name, init in ev.loop.carries.items():
                t = getattr(init, 'term', None)
                if t is not None and any(a.endswith('.inertia_moment') for a in t.atoms()):
                    return i, ev, name, init
    return None, None, None, None


def check(model, rep):
    # hidden state Python keeps outside the objects (not modelled by the evaluator): reported before anything else is evaluated
    from checks.solver_common import package_lints as _package_lints
    _package_lints(model, rep, 'C03.hidden-state', ('/solver.py', '/powertrain.py'))
    from sa.aliases import value_order_findings as _vof
    for _q, _m, _ln, _d in _vof(model, 'Solver'):
        rep.violation('C03.inertia', f'{_q}:value-order', _d, f'{_m}:{_ln}')
    from checks.solver_common import absorb_arith, TIME_ARITH, EULER_ARITH, KIN_ARITH, TORQUE_ARITH
    absorb_arith(model, rep, 'C03.dep.arith', EULER_ARITH + TIME_ARITH, solver_log=True)
    rep.explain('C03: on the solver IR: the inertia loop is recognised by its loop-carried quantity; its initial value, '
                'recurrence term, index set {1..n-1} ascending and position before the first instant on every run path are '
                'compared with the documented reduction; the acceleration of E[n-1] must be net torque / that folded inertia, '
                'present exactly on the not-locked paths; the stepping loop integrates E[n-1] once per iteration with the '
                'canonical semi-implicit Euler terms in dt, before propagation (generic no-stale-read rule, shared with '
                'C01/C02), never at t = 0; stored kinds are checked against the attribute kinds.')
    # "at every recorded instant", after any history: Powertrain.reset must hand every variable its own fresh list and restore the
    # attributes from their own first samples (C12's reset rule) - else a rerun records into lists that are no longer one per variable
    from checks.c12 import check_reset as _check_reset
    _check_reset(model, rep, R='C03.recorded.reset')
    try:
        rm = run_model(model)
    except CannotDecide as e:
        rep.cannot('C03.inertia', 'Solver.run', str(e))
        return
    ctx = rm.ir.ctx
    mod = rm.member.module
    seen = set()
    params = run_params(rm)
    folds = set()
    # ---- inertia reduction on every run path
    for k, rp in enumerate(rm.paths):
        i, ev, cname, init = find_inertia(rm, rp)
        if ev is None:
            _once(rep, seen, ('inertia-missing', k), False, 'C03.inertia', 'Solver.run:inertia-reduction',
                  f'run path #{k} ({"fresh" if rp.fresh else "continuation"}) does not recompute the equivalent inertia '
                  f'before stepping', loc=f'{mod}:{rm.member.node.lineno}')
            continue
        L = ev.loop
        folds.add(f'fold{L.id}:{cname}')
        init_ok = ctx.eq(init.term, Rat.atom('E[0].inertia_moment'))
        _once(rep, seen, ('inertia-init', init_ok), init_ok, 'C03.inertia', f'{L.func}:start',
              f'the reduction starts from `{ctx.show(init.term)[:80]}`, specified the motor inertia E[0].inertia_moment',
              loc=f'{mod}:{L.lineno}')
        iv, direction = loop_interval(L)
        rng_ok = iv is not None and iv.equals(0, 1, 1, -1) and direction == 1
        _once(rep, seen, ('inertia-range', rng_ok), rng_ok, 'C03.inertia', f'{L.func}:index-set',
              f'the reduction visits {L.index_set(ctx)}; specified E[1] .. E[n-1] moving downstream', loc=f'{mod}:{L.lineno}')
        rec_ok, why = True, ''
        if len(L.paths) != 1:
            rec_ok, why = False, f'{len(L.paths)} body paths'
        else:
            p = L.paths[0]
            got = p.carried.get(cname)
            me = ctx.show(L.index)
            want = Rat.atom(f'carry{L.id}:{cname}') * Rat.atom(f'E[{me}].master_gear_ratio') + Rat.atom(f'E[{me}].inertia_moment')
            if got is None or not ctx.eq(got.term, want):
                rec_ok, why = False, (f'one step maps J to `{ctx.show(got.term)[:160] if got is not None else None}`, '
                                      f'specified J*E[i].master_gear_ratio + E[i].inertia_moment')
            if got is not None and isinstance(got, Q) and got.kind != 'InertiaMoment':
                rec_ok, why = False, f'the running total is a {got.kind}'
        _once(rep, seen, ('inertia-rec', rec_ok, why), rec_ok, 'C03.inertia', f'{L.func}:recurrence', why, loc=f'{mod}:{L.lineno}')
        # before the first instant: no time append before it in `pre`
        first_time = next((j for j, e2 in enumerate(rp.pre) if e2.kind == 'time'), None)
        before = first_time is None or i < first_time
        _once(rep, seen, ('inertia-before', before), before, 'C03.inertia', f'{L.func}:before-first-instant',
              'the equivalent inertia is computed after an instant has already been computed', loc=f'{mod}:{L.lineno}')
    # ---- per instant: equation of motion and integration
    ins = rm.instants()
    rep.inspect(sum(len(e) for _, _, e in ins))
    flags = lock_flag_fields(rm)
    for name, rp, events in ins:
        tags = [classify(rm, ev) for ev in events]
        stepping = name.startswith('step')
        locked = any('clamp' in t for t in tags)
        # acceleration seed
        seeds = [ev for ev in events if ev.kind == 'store' and any(s[1] == 'angular_acceleration' for s in ev.stores)
                 and 'clamp' not in classify(rm, ev)]
        if not locked:
            ok, why, line = True, '', rm.member.node.lineno
            if len(seeds) != 1:
                ok, why = False, f'{len(seeds)} assignments of the output element\'s acceleration on a not-locked path'
            else:
                idx, attr, val, g = seeds[0].stores[0]
                line = seeds[0].lineno
                t = getattr(val, 'term', None)
                okf = False
                if t is not None and idx.c == 0 and idx.a == 1 and idx.b == -1:
                    for f in folds:
                        if ctx.eq(t, Rat.atom('E[n + -1].torque') / Rat.atom(f)):
                            okf = True
                if not okf:
                    ok, why = False, (f'E[{idx}].angular_acceleration = `{ctx.show(t)[:140] if t is not None else val}`, '
                                      f'specified E[n-1].torque / equivalent inertia')
                elif isinstance(val, Q) and val.kind != 'AngularAcceleration':
                    ok, why = False, f'acceleration stored as a {val.kind}'
            _once(rep, seen, ('eom', ok, why), ok, 'C03.eom', 'acceleration of the output element', why, loc=f'{mod}:{line}',
                  detail=f'context {name}')
        else:
            ok = not seeds
            _once(rep, seen, ('eom-locked', ok), ok, 'C03.eom', 'acceleration while locked',
                  'the acceleration is recomputed from the torque although the powertrain is held (must stay clamped to zero)',
                  loc=f'{mod}:{seeds[0].lineno if seeds else 0}')
        # acceleration guarded exactly by "not locked": on not-locked paths the guards of the seed contain the negated flag
        if seeds and not locked:
            g = tuple(seeds[0].guards) + tuple(rp.guards)
            okg = any(x.kind == 'truth' and not x.pol and str(x.key[0]).split('#')[0] in flags for x in g) or not flags
            _once(rep, seen, ('eom-guard', okg), okg, 'C03.eom', 'acceleration guard',
                  'the acceleration update is not conditioned on the powertrain not being locked', loc=f'{mod}:{seeds[0].lineno}')
        # integration
        integ = [ev for ev, t in zip(events, tags) if 'integrate' in t]
        if not stepping:
            ok = not integ
            _once(rep, seen, ('euler-fresh', ok), ok, 'C03.euler', 'fresh-start instant',
                  'the t = 0 instant already integrates the state (initial conditions would be advanced before being recorded)',
                  loc=f'{mod}:{integ[0].lineno if integ else 0}')
            continue
        sp = [s for ev in integ for s in ev.stores if s[1] == 'angular_speed']
        po = [s for ev in integ for s in ev.stores if s[1] == 'angular_position']
        ok, why = True, ''
        dts = set()
        if len(sp) != 1 or len(po) != 1:
            ok, why = False, f'{len(sp)} speed and {len(po)} position integration assignments per step (specified one each)'
        else:
            for s in (sp[0], po[0]):
                if not (s[0].c == 0 and s[0].a == 1 and s[0].b == -1):
                    ok, why = False, f'integrates E[{s[0]}] instead of the output element E[n-1]'
            w, a, th = (Rat.atom('E[n + -1].angular_speed'), Rat.atom('E[n + -1].angular_acceleration'),
                        Rat.atom('E[n + -1].angular_position'))
            cand = [p for p in params if p in atoms_deep(ctx, sp[0][2].term)]
            if len(cand) != 1:
                ok, why = False, f'speed update depends on run parameters {cand}, specified the time step only'
            else:
                dt = Rat.atom(cand[0])
                dts.add(cand[0])
                if not ctx.eq(sp[0][2].term, w + a * dt):
                    ok, why = False, (f'speed update `{ctx.show(sp[0][2].term)[:140]}`, specified speed + acceleration*dt '
                                      f'(previous instant\'s acceleration)')
                elif not ctx.eq(po[0][2].term, th + (w + a * dt) * dt):
                    ok, why = False, (f'position update `{ctx.show(po[0][2].term)[:160]}`, specified position + (advanced speed)*dt '
                                      f'(semi-implicit Euler: speed first)')
                for s, kind in ((sp[0], 'AngularSpeed'), (po[0], 'AngularPosition')):
                    if isinstance(s[2], Q) and s[2].kind != kind:
                        ok, why = False, f'{s[1]} integrated as a {s[2].kind}'
        _once(rep, seen, ('euler', ok, why), ok, 'C03.euler', 'time-step update', why,
              loc=f'{mod}:{integ[0].lineno if integ else rp.loop.lineno}', detail=f'context {name}')
        # dt is the first TimeInterval parameter (the time discretization), cross-checked with the grid step in C11
        if dts:
            okp = dts == {params[0]} if params else False
            _once(rep, seen, ('euler-dt', okp), okp, 'C03.euler', 'time-step parameter',
                  f'integration uses {sorted(dts)}; the time step is the first TimeInterval parameter {params[:1]}', loc=f'{mod}:{integ[0].lineno}')
    # ---- stored kinds
    bad = None
    nst = 0
    for name, rp, events in ins:
        for ev in events:
            for idx, attr, val, g in ev.stores:
                if attr in KIND_OF and isinstance(val, Q):
                    nst += 1
                    if val.kind != KIND_OF[attr]:
                        bad = (ev, attr, val.kind)
    rep.decide(bad is None, 'C03.kinds', 'stored quantity kinds',
               f'{bad[0].text} stores a {bad[2]} into {bad[1]}' if bad else '', detail=f'{nst} stores typed')
    # "whenever the powertrain is not held by self-locking": the hold must engage only as specified (C13's decision
    # table and its only-under-self_locking rule), otherwise the equation of motion is skipped for powertrains that
    # cannot self-lock
    from sa.core import Report
    from checks import c13
    if not getattr(check, '_skip_c13', False):        # (C13 re-reads this module's Euler rules in turn: no recursion)
        dep = Report('C13')
        c13.check._skip_c03 = True
        try:
            c13.check(model, dep)
        finally:
            c13.check._skip_c03 = False
        rep.absorb(dep, {'C13.lock-table': 'C03.hold.lock-table', 'C13.only-if': 'C03.hold.only-if'})
    # "between two consecutive instants dt apart": the recorded instants must be the integrator's dt apart (C11's grid rule),
    # and the hold state must not leak from an earlier schedule (C12's fresh-start initialisation of solver state)
    from checks import c11, c12
    dep = Report('C11')
    c11.check(model, dep)
    rep.absorb(dep, {'C11.grid': 'C03.euler.grid'})
    dep = Report('C12')
    c12.check_run(model, dep)
    rep.absorb(dep, {'C12.state': 'C03.hold.state', 'C12.unit': 'C03.euler.grid.unit', 'C12.cont': 'C03.euler.start'})
    rep.analysed.update({'run_paths': len(rm.paths), 'instant_contexts': len(ins), 'time_params': params})
    rep.require('C03.inertia', 4)
    rep.require('C03.eom', 2)
    rep.require('C03.euler', 2)
    rep.assume('InertiaMoment has no in-place operators, so `*=`/`+=` rebind the running total (C19.via-ctor)')
    rep.assume('ordering of integration w.r.t. propagation/recording is decided by the shared no-stale-read rule (C01/C02)')
