"""C11 - the time axis is the uniform grid 0, dt, ..., T and never overruns T.

Decided clause (necessary condition): the number of instants a run appends is an *integer computed from
T/dt by rounding*, and instant k is `start + k*dt` - the only shapes that make the statement true for all
decimal inputs.  A float-step numpy.arange / an accumulated float / truncation of T/dt are violations.
* C11.grid   iteration space of the stepping loop and the term appended to the time axis
* C11.once   exactly one append per iteration, first thing in the iteration; one append of time 0 on a fresh
             start, none before the loop on a continuation; nothing recorded after a break"""
from __future__ import annotations

from checks.solver_common import run_model, classify, run_params
from sa.algebra import Rat
from sa.instant import affine_of
from sa.solver_ir import atoms_deep
from sa.sx import Q, N, CannotDecide


def _once(rep, seen, key, ok, rule, cons, why, **kw):
    if key in seen:
        return
    seen.add(key)
    rep.decide(ok, rule, cons, why, **kw)


def check(model, rep):
    # hidden state Python keeps outside the objects (not modelled by the evaluator): reported before anything else is evaluated
    from checks.solver_common import package_lints as _package_lints
    _package_lints(model, rep, 'C11.hidden-state', ('/solver.py', '/powertrain.py'))
    from checks.solver_common import absorb_arith, TIME_ARITH, EULER_ARITH, KIN_ARITH, TORQUE_ARITH
    absorb_arith(model, rep, 'C11.dep.arith', TIME_ARITH, solver_log=True)
    # exactly round(T/dt) instants: the stepping loop may only end early through the stop condition (C16's placement rules)
    from sa.core import Report
    from checks.c16 import check_place
    dep = Report('C16')
    try:
        check_place(model, dep)
    except CannotDecide as e:
        rep.cannot('C11.count', 'Solver.run', str(e))
    rep.absorb(dep, {'C16.place': 'C11.count'})
    rep.explain('C11: the stepping loop of Solver.run is located in the solver IR as the loop whose body appends to '
                'Powertrain.time; its iteration space must be an integer range whose length is round(T/dt) (T, dt the two '
                'TimeInterval parameters, divided as quantities), the appended instant must be canonically start + k*dt with '
                'k = 1..count and start = 0 (fresh) or the last recorded instant (continuation), built with unit-aware quantity '
                'arithmetic (no unit factor may survive). Float-step numpy.arange/linspace grids, accumulation and truncation '
                'are reported. Rounding of start + k*dt itself is not decided.')
    try:
        rm = run_model(model)
    except CannotDecide as e:
        rep.cannot('C11.grid', 'Solver.run', str(e))
        return
    ctx = rm.ir.ctx
    sx = rm.ir.sx
    mod = rm.member.module
    # a decision of run() taken on the IDENTITY of two numbers is not a function of the schedule: whether the run appends its
    # instants then depends on CPython's small-integer cache (e.g. on the history being longer than 256 instants)
    for ln, text in sorted(set(sx.identity_compares)):
        rep.violation('C11.count', 'Solver.run:identity-test', f'`{text}` compares two numbers by object identity: equal values are "not the same" '
                      f'beyond the cached small integers, so the run raises / branches on the length of the history instead of appending '
                      f'round(T/dt) instants', f'{mod}:{ln}')
    params = run_params(rm)
    if len(params) != 2:
        rep.cannot('C11.grid', 'Solver.run', f'expected two TimeInterval parameters (dt, T), found {params}')
        return
    dt, T = Rat.atom(params[0]), Rat.atom(params[1])
    seen = set()
    rep.inspect(len(rm.paths))
    for k, rp in enumerate(rm.paths):
        L = rp.loop
        loc = f'{mod}:{L.lineno}'
        which = 'fresh' if rp.fresh else 'continuation'
        # ---- iteration space
        if L.kind == 'grid':
            fn = L.grid['fn']
            args = [sx.show(a)[:60] for a in L.grid['args']]
            floaty = any(not (isinstance(a, N) and a.py == 'int') for a in L.grid['args'])
            if fn == 'arange' and floaty:
                _once(rep, seen, ('grid', 'arange'), False, 'C11.grid', 'Solver.run:time-grid',
                      f'the instants come from numpy.arange with a float step ({", ".join(args)}): its length is '
                      f'ceil((stop-start)/step) in floating point, one too many for a few percent of decimal (dt, T) pairs '
                      f'(dt=0.35, T=10.5 gives 32 instants ending at 10.85)', loc=loc)
            else:
                _once(rep, seen, ('grid', fn), False, 'C11.grid', 'Solver.run:time-grid',
                      f'the instants come from numpy.{fn}({", ".join(args)}); the step count must be an integer computed by '
                      f'rounding T/dt', loc=loc)
            continue
        if L.kind != 'index':
            rep.cannot('C11.grid', 'Solver.run:time-grid', f'stepping loop over `{L.iter_text}` is outside the recognised idioms', loc)
            continue
        count = ctx.reduce((L.stop - L.start) / L.step)
        want = Rat.atom(ctx.fatom('call:round', (T / dt,)))
        okc = ctx.eq(count, want)
        why = ''
        if not okc:
            atoms = atoms_deep(ctx, count)
            if any(a.startswith('call:int') or a.startswith('call:floor') or a.startswith('call:trunc') for a in atoms):
                why = (f'the step count `{ctx.show(count)[:100]}` truncates T/dt: when the float quotient lands just below the '
                       f'integer (1.4/0.1) the axis ends one step short of T')
            elif any(a.startswith('call:ceil') for a in atoms):
                why = f'the step count `{ctx.show(count)[:100]}` rounds T/dt up: overruns T whenever the quotient lands just above an integer'
            else:
                why = f'the step count is `{ctx.show(count)[:120]}`, specified round(T/dt)'
        _once(rep, seen, ('count', okc, why), okc, 'C11.grid', 'Solver.run:step-count', why, loc=loc,
              detail=f'index set {L.index_set(ctx)}')
        # ---- appended instant: start + (i - a + 1) * dt
        for j, b in enumerate(rp.bodies):
            times = [ev for ev in b.events if ev.kind == 'time']
            if len(times) != 1:
                _once(rep, seen, ('once', len(times)), False, 'C11.once', 'Solver.run:append-per-step',
                      f'{len(times)} appends to the time axis in one iteration (exactly one specified)', loc=loc)
                continue
            if b.events.index(times[0]) != 0:
                first = b.events[0]
                _once(rep, seen, ('first', first.text), False, 'C11.once', 'Solver.run:append-first',
                      f'`{first.text}` runs before the instant is appended to the time axis', loc=f'{mod}:{first.lineno}')
            val = times[0].raw[2]
            t = getattr(val, 'term', None)
            if not isinstance(val, Q) or val.kind not in ('Time',) or t is None:
                _once(rep, seen, ('kind',), False, 'C11.grid', 'Solver.run:instant', f'appended value is {sx.show(val)[:80]}, not a Time', loc=loc)
                continue
            kterm = L.index - L.start + Rat.const(1)
            start = Rat.const(0) if rp.fresh else None
            if start is None:
                # continuation: the last recorded instant
                cands = [a for a in atoms_deep(ctx, t) if a.endswith('.time[-1]')]
                start = Rat.atom(cands[0]) if len(cands) == 1 else None
            oki, whyi = True, ''
            if start is None:
                oki, whyi = False, f'instant `{ctx.show(t)[:140]}` does not start from the last recorded instant time[-1]'
            elif not ctx.eq(t, start + kterm * dt):
                left = [a for a in atoms_deep(ctx, ctx.reduce(t)) if a.startswith('F[')]
                if left:
                    whyi = (f'instant `{ctx.show(ctx.reduce(t))[:160]}` mixes raw values of quantities expressed in possibly '
                            f'different units (unit factors {left[:2]} do not cancel)')
                else:
                    whyi = f'instant `{ctx.show(ctx.reduce(t))[:160]}`, specified {"0" if rp.fresh else "time[-1]"} + k*dt with k = 1..count'
                oki = False
            _once(rep, seen, ('instant', which, oki, whyi), oki, 'C11.grid', f'Solver.run:instant[{which}]', whyi, loc=f'{mod}:{times[0].lineno}')
        # ---- before the loop
        pre_times = [ev for ev in rp.pre if ev.kind == 'time']
        if rp.fresh:
            ok0 = len(pre_times) == 1 and getattr(pre_times[0].raw[2], 'term', None) is not None and pre_times[0].raw[2].term.is_zero()
            u_ok = ok0 and isinstance(pre_times[0].raw[2], Q) and pre_times[0].raw[2].unit is not None and \
                pre_times[0].raw[2].unit.sym == params[0]
            _once(rep, seen, ('t0', ok0), ok0, 'C11.once', 'Solver.run:time-zero',
                  'a fresh run does not record exactly one initial instant of value 0 before stepping', loc=loc)
        elif rp.fresh is False:
            _once(rep, seen, ('cont-pre', not pre_times), not pre_times, 'C11.once', 'Solver.run:continuation-start',
                  'a continued run appends an instant before stepping (the previous final time would be duplicated)', loc=loc)
        # ---- nothing after the loop
        post_bad = [ev for ev in rp.post if ev.kind in ('time', 'time-write') or ev.writes]
        for ev in [e for b in rp.bodies for e in b.events] + list(rp.pre):
            if ev.kind == 'time-write':
                _once(rep, seen, ('tw', ev.text), False, 'C11.once', 'Solver.run:axis-rewritten',
                      f'`{ev.text}` modifies a recorded instant: the axis may only grow by appending start + k*dt',
                      loc=f'{mod}:{ev.lineno}')
        _once(rep, seen, ('post', not post_bad), not post_bad, 'C11.once', 'Solver.run:after-loop',
              f'events after the stepping loop modify the history: {[e.text for e in post_bad][:3]}', loc=loc)
    for o, evs in rm.early_exits:
        _once(rep, seen, ('early',), False, 'C11.once', 'Solver.run:early-exit',
              'a path through run() completes without entering the stepping loop (no instants up to T are recorded)',
              loc=f'{mod}:{o.loc or rm.member.node.lineno}')
    rep.require('C11.grid', 2)
    rep.require('C11.once', 2)
    rep.analysed.update({'run_paths': len(rm.paths), 'time_params': params})
    rep.assume('TimeInterval/TimeInterval is the unit-blind ratio and Time + k*TimeInterval is unit-aware (C06)')
    rep.assume('prefix property under a stop condition: break only after the instant is recorded (C16.place)')
