"""Shared machinery of the solver properties (C01-C03, C11-C14, C16, C17): the run model is built
once per process; events are classified by *what they do* (which attributes of which elements they
write, with what kind of term), never by function names."""
from __future__ import annotations

import ast
from fractions import Fraction

from sa.algebra import Rat
from sa.instant import (Aff, Interval, Ev, KIN, ANY, loop_interval, stale_reads, intra_loop_order_problems,
                        positive_for_all_n)
from sa.runmodel import RunModel
from sa.solver_ir import atoms_deep
from sa.sx import Q, N, Dyn, CannotDecide

_CACHE = {}


def run_model(model) -> RunModel:
    key = id(model)
    if key not in _CACHE:
        _CACHE.clear()
        _CACHE[key] = RunModel(model)
    return _CACHE[key]


def run_params(rm: RunModel):
    """names of the TimeInterval-typed parameters of Solver.run (dt and T) in declaration order"""
    out = []
    for a in rm.member.node.args.args:
        if a.annotation is not None and 'TimeInterval' in ast.unparse(a.annotation):
            out.append(a.arg)
    return out


def term_of(v):
    return getattr(v, 'term', None)


def is_zero_value(v):
    t = term_of(v)
    return t is not None and t.is_zero()


def classify(rm: RunModel, ev: Ev):
    """semantic tags of an instant event"""
    ctx = rm.ir.ctx
    tags = set()
    params = set(run_params(rm))
    if ev.kind in ('store', 'loop'):
        attrs = {w.attr for w in ev.writes}
        kin_stores = [s for s in ev.stores if s[1] in KIN]
        if kin_stores:
            dep_dt = any(term_of(s[2]) is not None and (atoms_deep(ctx, term_of(s[2])) & params) for s in kin_stores)
            if dep_dt:
                tags.add('integrate')
            zero = [s for s in kin_stores if is_zero_value(s[2])]
            if zero and len(zero) == len(kin_stores):
                tags.add('clamp')
            elif not dep_dt:
                for s in kin_stores:
                    tags.add('kin:' + s[1])
        for a in ('load_torque', 'driving_torque', 'torque'):
            if a in attrs and ev.kind in ('loop', 'store'):
                tags.add('write:' + a)
    for c in ev.calls:
        owner, meth = c[0], c[1]
        if meth == 'update_time_variables':
            tags.add('record')
        elif meth == 'apply_rules':
            tags.add('control')
        elif meth == 'compute_torque':
            tags.add('motor')
        elif meth == 'check_condition':
            tags.add('stop')
        elif meth == 'external_torque':
            tags.add('load-call')
        elif owner == 'self':
            tags.add('selfcall:' + meth)
        else:
            tags.add('call:' + meth)
    if ev.kind == 'time':
        tags.add('time')
    if ev.kind == 'selfstore':
        tags.add('selfstore')
    return tags


def lock_flag_fields(rm: RunModel):
    """private Solver fields that guard a clamp event (the lock flag), found semantically"""
    out = set()
    for name, rp, events in rm.instants():
        for ev in events:
            if 'clamp' in classify(rm, ev):
                for g in ev.guards:
                    if g.kind == 'truth' and isinstance(g.key[0], str) and g.key[0].startswith('self.'):
                        out.add(g.key[0].split('#')[0])
    return out


def allow_stale(rm: RunModel):
    def allow(a: Ev, b: Ev, attr):
        ta, tb = classify(rm, a), classify(rm, b)
        # the integration step reads the state left by the previous instant (by design)
        if 'integrate' in ta:
            return True
        # the lock decision reads the duty cycle in force and the previous net torque (by design); the motor
        # speed it reads must be the current one, only the uniform clamp may overwrite it afterwards
        if any(t.startswith('selfcall:') for t in ta) and not a.writes:
            if attr in ('pwm', 'torque'):
                return True
            return 'clamp' in tb
        # the uniform zero clamp may follow the propagation it overrides (it preserves x_i = r * x_{i+1})
        if 'clamp' in tb and (any(t.startswith('kin:') for t in ta)):
            return True
        # an event may overwrite what it read itself (x += ...) - same event is never compared
        return False
    return allow


def describe(ev: Ev):
    return f'{ev.text}@{ev.lineno}'


def stable(ev: Ev):
    """line-free description used in finding keys"""
    return ev.text


def instant_order_findings(rm: RunModel, events):
    """generic ordering defects of one instant: stale reads and loop orders that contradict the
    loop-carried dependence"""
    out = []
    for a, b, r, w in stale_reads(events, allow_stale(rm)):
        out.append(('stale-read', f'{describe(a)} reads {r.attr} of {r.who} which {describe(b)} overwrites later in the '
                    f'same instant ({w.who}): the reader used a value that is not the recorded one', a, b, r.attr))
    for ev in events:
        for r, w, direction in intra_loop_order_problems(ev):
            out.append(('loop-order', f'{describe(ev)} reads {r.attr} of E[{r.idx}] before the same loop writes it '
                        f'(iteration order {"ascending" if direction > 0 else "descending"} contradicts the dependence)',
                        ev, ev, r.attr))
    return out


_C06_CACHE = {}


def absorb_arith(model, rep, rule, triples, solver_log=False):
    """the solver IR interprets quantity arithmetic natively (SI magnitudes); which dunder Python actually dispatches to
    (reflected methods of subclasses included) and what it returns is decided by C06's dispatch model - the triples the
    property's formulas use are re-reported here under the dependent id"""
    from sa.core import Report
    key = id(model)
    if key not in _C06_CACHE:
        import checks.c06 as c06
        dep = Report('C06')
        c06.check(model, dep)
        _C06_CACHE.clear()
        _C06_CACHE[key] = dep
    dep = _C06_CACHE[key]
    triples = list(triples)
    if solver_log:
        # operator triples the solver IR met that none of the per-property lists names (a refactoring brought a new operation
        # into the step): re-read them as well, under whichever property asks
        try:
            rm = run_model(model)
            rm.instants()
            known = set(TIME_ARITH + EULER_ARITH + KIN_ARITH + TORQUE_ARITH)
            triples += sorted(t for t in rm.ir.sx.arith_log if t not in known)
        except Exception:
            pass            # the IR's own failures are reported by the rules that need it
    want = {' '.join(t) for t in triples}
    n = 0
    for i in dep.instances:
        if i.extra.get('triple') in want and i.rule in ('C06.kind', 'C06.si-semantics', 'C06.unit-rule', 'C06.required'):
            n += 1
            sub = i.rule.split('.', 1)[1]
            if i.status == 'HOLDS':
                rep.holds(f'{rule}.{sub}', i.extra['triple'], i.detail, i.loc)
            elif i.status == 'VIOLATION':
                rep.violation(f'{rule}.{sub}', i.extra['triple'], f'{i.construct}: {i.detail}', i.loc)
            else:
                rep.cannot(f'{rule}.{sub}', i.extra['triple'], i.detail, i.loc)
    # ... and the conversions those operators perform on their operands (to(), private copies of sub-kinds, unit tables)
    kinds = {k for t in triples for k in (t[0], t[2]) if k != 'number'}
    for i in dep.instances:
        if i.rule.startswith('C06.conv.') and any(i.construct.startswith(k + '.') or i.construct.startswith(k + '[') for k in kinds):
            sub = 'conv.' + i.rule.split('.', 2)[2]
            if i.status == 'HOLDS':
                rep.holds(f'{rule}.{sub}', i.construct, i.detail, i.loc)
            elif i.status == 'VIOLATION':
                rep.violation(f'{rule}.{sub}', i.construct, i.detail, i.loc)
            else:
                rep.cannot(f'{rule}.{sub}', i.construct, i.detail, i.loc)
    # ... and leave their operands untouched (an in-place operator reached through `x += y` writes into a shared object)
    for i in dep.instances:
        if i.rule == 'C06.operands' and any(i.construct == k or i.construct.startswith(k + '.') for k in kinds | {'UnitBase'}):
            (rep.holds if i.status == 'HOLDS' else (rep.violation if i.status == 'VIOLATION' else rep.cannot))(
                f'{rule}.operands', i.construct, i.detail, i.loc)
    rep.require(rule, len(want), 'one instance per operator triple the formulas use')
    return n


TIME_ARITH = [('Time', '+', 'TimeInterval'), ('number', '*', 'TimeInterval'), ('TimeInterval', '/', 'TimeInterval')]
EULER_ARITH = [('AngularAcceleration', '*', 'TimeInterval'), ('AngularSpeed', '*', 'TimeInterval'), ('AngularSpeed', '+', 'AngularSpeed'),
               ('AngularPosition', '+', 'AngularPosition'), ('Torque', '/', 'InertiaMoment'), ('InertiaMoment', '*', 'number'),
               ('InertiaMoment', '+', 'InertiaMoment')]
KIN_ARITH = [('number', '*', 'AngularPosition'), ('number', '*', 'AngularSpeed'), ('number', '*', 'AngularAcceleration')]
TORQUE_ARITH = [('Torque', '*', 'number'), ('Torque', '/', 'number'), ('Torque', '-', 'Torque')]


_C05_CACHE = {}


def absorb_cmp(model, rep, rule, kinds):
    """comparisons between quantities are evaluated natively by the engines; the predicates the dunders really implement
    (tolerance side, operand order, foreign kinds) are C05's comparison rule, re-read here for the kinds the property compares"""
    from sa.core import Report
    from sa.units import UnitTables
    from sa.sx import SX
    from sa import sx as sxm
    import checks.c05 as c05
    key = id(model)
    if key not in _C05_CACHE:
        saved = set(sxm.POSITIVE_ATOMS)
        sxm.POSITIVE_ATOMS.clear()
        dep = Report('C05')
        tables = UnitTables(model)
        c05.check_cmp(model, dep, SX(model, tables), tables)
        c05.check_tables(model, dep, tables)
        c05.check_to(model, dep, SX(model, tables), tables)
        sxm.POSITIVE_ATOMS.clear()
        sxm.POSITIVE_ATOMS.update(saved)
        _C05_CACHE.clear()
        _C05_CACHE[key] = dep
    dep = _C05_CACHE[key]
    # a value of a base kind may be an instance of its sub-kind (an Angle threshold for an AngularPosition reading): Python then
    # asks the sub-kind's (reflected) comparison first, so the sub-kinds of the compared kinds belong to the dependency
    from sa.spec.si import SUBKINDS as _SUB
    kinds = tuple(kinds) + tuple(sub for sub, base in _SUB.items() if base in kinds and sub not in kinds)
    pairs = set()
    for a in kinds:
        for b in kinds:
            pairs.add(f'[{a},{b}]')
    n = 0
    for i in dep.instances:
        if i.rule == 'C05.cmp' and any(i.construct.endswith(p) for p in pairs):
            n += 1
            (rep.holds if i.status == 'HOLDS' else (rep.violation if i.status == 'VIOLATION' else rep.cannot))(rule, i.construct, i.detail, i.loc)
    # ... which convert the right operand to the left one's unit: the unit tables and to() of the compared kinds
    for i in dep.instances:
        if i.rule in ('C05.table', 'C05.to') and any(i.construct.startswith(k + '.') for k in kinds):
            sub = i.rule.split('.', 1)[1]
            (rep.holds if i.status == 'HOLDS' else (rep.violation if i.status == 'VIOLATION' else rep.cannot))(f'{rule}.{sub}', i.construct, i.detail, i.loc)
    rep.require(rule, 6, 'six comparison dunders per kind')
    return n


def carry_as_previous(L, ev, ctx):
    """A running local that hands a value from one iteration to the next (`t = t*eff*ratio; e.x = t`) IS the attribute stored in
    the previous iteration: when, on the single body path, the carried-out value of a local is exactly the value stored into
    E[i+k].attr, and its initial value is the atom E[first+k-dir].attr, the carry atom is replaced by E[i+k-dir].attr
    (induction over the iterations).  Returns {carry atom: Rat} for the carries this holds for."""
    from sa.algebra import Rat
    out = {}
    if L is None or len(L.paths) != 1 or L.kind != 'index':
        return out
    p_ = L.paths[0]
    try:
        direction = 1 if L.step.const_value() > 0 else -1
    except Exception:
        return out
    for name, init in L.carries.items():
        if name.startswith('_') and '__' in name:      # a field of the solver, not a local
            continue
        cout = p_.carried.get(name)
        t_out = getattr(cout, 'term', None)
        t_in = getattr(init, 'term', None)
        if t_out is None or t_in is None:
            continue
        for idx, attr, val, g in ev.stores:
            tv = getattr(val, 'term', None)
            if tv is None or idx.c != 1 or not ctx.eq(tv, t_out):
                continue
            prev_now = Rat.atom(f'E[{ctx.show(L.index + Rat.const(idx.b - direction))}].{attr}')
            prev_first = Rat.atom(f'E[{ctx.show(L.start + Rat.const(idx.b - direction))}].{attr}')
            if ctx.eq(t_in, prev_first):
                out[f'carry{L.id}:{name}'] = prev_now
    return out


def package_lints(model, rep, rule, paths):
    """generic who-may rules over the modules a property's code lives in (`paths`: substrings of module paths): state that the
    evaluator does not model because Python keeps it outside the objects - mutable default arguments that are changed, closures
    created in a comprehension / loop over its variable (late binding), memoised functions over object state, descriptors
    storing on themselves.  One HOLDS instance when nothing is found."""
    from sa.aliases import mutable_default_findings, late_binding_findings, descriptor_findings
    n = 0
    for qual, par, mod, ln, detail in mutable_default_findings(model):
        if any(p_ in mod for p_ in paths):
            n += 1
            rep.violation(rule, f'{qual}:mutable-default[{par}]', detail, f'{mod}:{ln}')
    for mod, ln, detail in late_binding_findings(model):
        if any(p_ in mod for p_ in paths):
            n += 1
            rep.violation(rule, f'{mod.rsplit("/", 1)[-1]}:late-binding@{ln}', detail, f'{mod}:{ln}')
    for cname, attr, dcls, mod, ln, detail in descriptor_findings(model):
        if any(p_ in mod for p_ in paths):
            n += 1
            rep.violation(rule, f'{cname}.{attr}:descriptor', detail, f'{mod}:{ln}')
    import ast as _ast
    # `obj.__x = v` written OUTSIDE a class body is not name-mangled: it creates a new attribute `__x` and leaves the private field
    # `_Class__x` (what the class's own code reads) as it was
    for fname, (mod, fn) in model.functions.items():
        if not any(p_ in mod for p_ in paths):
            continue
        for x in _ast.walk(fn):
            if isinstance(x, _ast.Attribute) and isinstance(x.ctx, _ast.Store) and x.attr.startswith('__') and not x.attr.endswith('__'):
                n += 1
                rep.violation(rule, f'{fname}:unmangled-store[{x.attr}]',
                              f'`{_ast.unparse(x)} = ...` in a module-level function is not name-mangled: it sets a new attribute `{x.attr}` instead of the '
                              f'private field `_<Class>{x.attr}` the class reads, which keeps its old value', f'{mod}:{x.lineno}')
    # a table of time-variable names (tuple / list / dict keys, >= 3 known names) holding a string that is no variable name: what a
    # missing comma between two adjacent literals produces ('load torque' 'pwm' is the single string 'load torquepwm')
    from sa.spec.variables import VARIABLE_KINDS as _VK0
    _VK = set(_VK0) | {'pwm'}
    for mod_, tree_ in model.trees.items():
        if not any(p_ in mod_ for p_ in paths):
            continue
        for x in _ast.walk(tree_):
            elts = x.elts if isinstance(x, (_ast.Tuple, _ast.List, _ast.Set)) else (x.keys if isinstance(x, _ast.Dict) else None)
            if not elts:
                continue
            strs = [e.value for e in elts if isinstance(e, _ast.Constant) and isinstance(e.value, str)]
            if len(strs) != len(elts):
                continue
            known = [t for t in strs if t in _VK]
            odd = [t for t in strs if t not in _VK and t != 'time']
            if len(known) >= 3 and odd and any(t.startswith(k) and t[len(k):] in _VK for t in odd for k in _VK):
                n += 1
                rep.violation(rule, f'{mod_.split("/")[-1]}:merged-names@{x.lineno}',
                              f'the table of time variables at line {x.lineno} holds {odd[0]!r}, which is two variable names run together (a comma '
                              f'is missing between two adjacent string literals): both variables drop out of whatever the table drives',
                              f'{mod_}:{x.lineno}')
    # a class-level mutable container (dict / list / set) that instance methods fill: one object shared by every instance of the class,
    # surviving reset() and the life of any one object (a memo table keyed by element name, a registry of seen values)
    MUT = ('append', 'extend', 'insert', 'update', 'setdefault', 'pop', 'popitem', 'clear', 'add', 'remove', 'discard')
    for cname, ci in model.classes.items():
        if not any(p_ in ci.module for p_ in paths):
            continue
        tree_ = model.trees.get(ci.module)
        cdef = next((c_ for c_ in _ast.walk(tree_) if isinstance(c_, _ast.ClassDef) and c_.name == cname), None) if tree_ is not None else None
        if cdef is None:
            continue
        shared = {}
        for b in cdef.body:
            tgt = b.targets[0] if isinstance(b, _ast.Assign) and len(b.targets) == 1 else (b.target if isinstance(b, _ast.AnnAssign) else None)
            val = getattr(b, 'value', None)
            if isinstance(tgt, _ast.Name) and (isinstance(val, (_ast.Dict, _ast.List, _ast.Set)) and not (getattr(val, 'keys', None) or getattr(val, 'elts', None))
                                              or (isinstance(val, _ast.Call) and isinstance(val.func, _ast.Name) and val.func.id in ('dict', 'list', 'set', 'defaultdict', 'OrderedDict', 'Counter', 'deque'))):
                shared[tgt.id] = b.lineno
        for mem in ci.all_members():
            for x in _ast.walk(mem.node):
                hit = None
                if isinstance(x, _ast.Subscript) and isinstance(x.ctx, _ast.Store) and isinstance(x.value, _ast.Attribute) and x.value.attr in shared:
                    hit = x.value.attr
                if isinstance(x, _ast.Call) and isinstance(x.func, _ast.Attribute) and x.func.attr in MUT and isinstance(x.func.value, _ast.Attribute) \
                        and x.func.value.attr in shared:
                    hit = x.func.value.attr
                if hit:
                    n += 1
                    rep.violation(rule, f'{cname}.{hit}:class-level-container',
                                  f'`{hit}` is created once in the class body (line {shared[hit]}) and filled by {mem.qualname}: every {cname} object of the '
                                  f'process shares it, so what one object stored is read by another (and survives reset)', f'{ci.module}:{x.lineno}')
                    shared.pop(hit)
    # Solver only: a container the constructor builds and a method on the run() path updates IN PLACE with an augmented assignment on
    # its items (`self.__ratios[j] *= r`) accumulates over successive runs - nothing gives it back its initial content
    ci = model.classes.get('Solver')
    if ci is not None and any(p_ in ci.module for p_ in paths):
        for mem in ci.all_members():
            if mem.name == '__init__':
                continue
            rebuilt = {t.attr for a_ in _ast.walk(mem.node) if isinstance(a_, _ast.Assign) for t in a_.targets
                       if isinstance(t, _ast.Attribute) and isinstance(t.value, _ast.Name) and t.value.id == 'self'}
            for x in _ast.walk(mem.node):
                if isinstance(x, _ast.AugAssign) and isinstance(x.target, _ast.Subscript) and isinstance(x.target.value, _ast.Attribute) \
                        and isinstance(x.target.value.value, _ast.Name) and x.target.value.value.id == 'self' and x.target.value.attr not in rebuilt:
                    n += 1
                    rep.violation(rule, f'Solver.{x.target.value.attr}:accumulated-in-place',
                                  f'`{_ast.unparse(x)[:60]}` in {mem.qualname} updates an item of a container that only the constructor creates: the '
                                  f'update is applied again at every run() of the same Solver', f'{ci.module}:{x.lineno}')
    # `super(type(self), ...)` / `super(self.__class__, ...)`: for an instance of a subclass the lookup starts above the SUBCLASS and
    # finds this very method again - unbounded recursion; the first argument must be the class the code is written in
    for cname, ci in model.classes.items():
        if not any(p_ in ci.module for p_ in paths):
            continue
        for mem in ci.all_members():
            for x in _ast.walk(mem.node):
                if isinstance(x, _ast.Call) and isinstance(x.func, _ast.Name) and x.func.id == 'super' and x.args:
                    a0 = x.args[0]
                    dyn = (isinstance(a0, _ast.Call) and isinstance(a0.func, _ast.Name) and a0.func.id == 'type') or \
                        (isinstance(a0, _ast.Attribute) and a0.attr == '__class__')
                    if dyn:
                        n += 1
                        rep.violation(rule, f'{mem.qualname}:super-of-dynamic-class@{x.lineno}',
                                      f'`{_ast.unparse(x)[:60]}` starts the lookup above the class of the OBJECT, not above {cname}: for an instance '
                                      f'of a subclass it resolves to this same method and recurses without end', f'{ci.module}:{x.lineno}')
    # exact-class tests (`type(x) is C`, `type(x) == C`, `type(x) in (...)`, Counter / dict keyed by type(x)): an instance of a subclass
    # of C is a C everywhere else in the package (isinstance), and is not recognised here
    for mod_, tree_ in model.trees.items():
        if not any(p_ in mod_ for p_ in paths):
            continue

        def _is_type_of(e):
            return (isinstance(e, _ast.Call) and isinstance(e.func, _ast.Name) and e.func.id == 'type' and len(e.args) == 1) or \
                (isinstance(e, _ast.Attribute) and e.attr == '__class__')
        for x in _ast.walk(tree_):
            hit = None
            if isinstance(x, _ast.Compare) and any(isinstance(o, (_ast.Eq, _ast.NotEq, _ast.Is, _ast.IsNot, _ast.In, _ast.NotIn)) for o in x.ops):
                sides = [x.left] + list(x.comparators)
                if any(_is_type_of(e) for e in sides) and not all(_is_type_of(e) for e in sides):
                    hit = x
            if isinstance(x, _ast.Call) and isinstance(x.func, _ast.Name) and x.func.id in ('Counter', 'set', 'frozenset') and x.args \
                    and isinstance(x.args[0], (_ast.GeneratorExp, _ast.ListComp, _ast.SetComp)) and _is_type_of(x.args[0].elt):
                hit = x
            if isinstance(x, _ast.DictComp) and _is_type_of(x.key):
                hit = x
            if hit is not None:
                n += 1
                rep.violation(rule, f'{mod_.split("/")[-1]}:exact-class-test@{hit.lineno}',
                              f'`{_ast.unparse(hit)[:70]}` decides by the exact class of an object: an instance of a subclass (a user\'s own gear or '
                              f'motor class) is not recognised, while every other test of the package uses isinstance', f'{mod_}:{hit.lineno}')
    # a closure over `self` kept ON the object (`self.__samplers[k] = lambda: self.x`): copy.deepcopy treats functions as atoms, so
    # the closures of a copied object still read the ORIGINAL object - the copy records / computes from somebody else's state
    for cname, ci in model.classes.items():
        if not any(p_ in ci.module for p_ in paths):
            continue
        for mem in ci.all_members():
            for x in _ast.walk(mem.node):
                if isinstance(x, _ast.Assign) and isinstance(x.value, _ast.Lambda) and any(
                        isinstance(nm, _ast.Name) and nm.id == 'self' for nm in _ast.walk(x.value.body)):
                    for t in x.targets:
                        root_ = t
                        while isinstance(root_, (_ast.Attribute, _ast.Subscript)):
                            root_ = root_.value
                        if isinstance(t, (_ast.Attribute, _ast.Subscript)) and isinstance(root_, _ast.Name) and root_.id == 'self':
                            n += 1
                            rep.violation(rule, f'{mem.qualname}:stored-closure@{x.lineno}',
                                          f'`{_ast.unparse(x)[:70]}` keeps a function that closes over `self` on the object itself: a deep copy of the '
                                          f'object shares the function, which goes on reading the original', f'{ci.module}:{x.lineno}')
    for cname, ci in model.classes.items():
        for mem in ci.all_members():
            if any(p_ in ci.module for p_ in paths) and any('cache' in _ast.unparse(d) for d in mem.node.decorator_list) and any(
                    isinstance(a, _ast.Attribute) and isinstance(a.ctx, _ast.Load) and not isinstance(a.value, _ast.Call) for a in _ast.walk(mem.node)):
                n += 1
                rep.violation(rule, f'{mem.qualname}:memoised', 'memoised over object state: a later call gets the remembered value', mem.loc)
    for fname, (mod, fn) in model.functions.items():
        if any(p_ in mod for p_ in paths) and any('cache' in _ast.unparse(d) for d in fn.decorator_list) and any(
                isinstance(a, _ast.Attribute) and isinstance(a.ctx, _ast.Load) and not isinstance(a.value, _ast.Call) for a in _ast.walk(fn)):
            n += 1
            rep.violation(rule, f'{fname}:memoised', 'memoised over object state: a later call gets the remembered value', f'{mod}:{fn.lineno}')
    if n == 0:
        rep.holds(rule, 'hidden-state lints', f'modules {list(paths)}: no changed mutable default, no late-binding closure, no memoisation over '
                                                f'object state, no self-storing descriptor, no unmangled private store')
    return n
