"""C07 - results do not depend on the units inputs are expressed in (necessary condition).

In the evaluator a quantity is its SI magnitude plus a unit tag; reading `.value` divides by the tag's
*symbolic* factor F[unit-of(x)], a constructor multiplies by its unit's factor.  A computation is independent of
the units its inputs are expressed in exactly when no such factor survives in what it stores, returns, compares
or passes on.  Rules:
* C07.raw        sweep over every function of the package the evaluator can run (all element classes, rules, sensors,
                 relations, stop conditions, ...) and over every event of the solver IR: no surviving unit factor of an
                 object's own unit (factors of caller-chosen output units are allowed)
* C07.exact-key  a number obtained by converting a quantity is never used as an exact-match key (table lookup,
                 membership, equality): 14.5 deg expressed in rad converts back to 14.500000000000002
* C07.coverage   every `.value` read in the package (outside the units package) lies in a function covered by the sweep,
                 by the solver IR, by C18's snapshot/export analysis, or by the listed presentation-only exclusions
* C07.dep        unit tables and to() conversions are exact (shared with C05): a wrong factor makes every result depend
                 on the unit chosen
Rounding at decision thresholds is excluded by the property itself."""
from __future__ import annotations

import ast

from checks.solver_common import run_model
from sa import sx as sxm
from sa.algebra import Rat
from sa.loops import reduction_loop
from sa.solver_ir import atoms_deep, flatten, value_atoms
from sa.spec.variables import VARIABLE_KINDS
from sa.sx import SX, Q, N, Dyn, Ov, Bsym, U, G, Outcome, CannotDecide, make_cmp

OPAQUE = {'worm_gear_and_wheel_maximum_helix_angle_function', 'worm_wheel_lewis_factor_function'}
# presentation-only code (figures / animation): not anchored by any property, output conversions only
EXCLUDED = {'gearpy/utils/animate.py': 'matplotlib animation, presentation only',
            'Powertrain.plot': 'matplotlib figure, presentation only (values converted to caller-chosen units)'}
COVERED_ELSEWHERE = {'Powertrain.snapshot': 'C18.pairing (output conversion to caller-chosen units)',
                     'Powertrain.export_time_variables': 'C18.export', 'export_time_variables': 'C18.export',
                     'Powertrain.reset': 'C12.reset', 'Powertrain.__init__': 'C20', 'PWMControl.apply_rules': 'C14.shape'}


def unit_atoms(ctx, term: Rat):
    return {a for a in atoms_deep(ctx, term) if a.startswith('F[')}


def depends_on_units(ctx, term: Rat, allowed_syms):
    """does the canonical term change when the (non-allowed) symbolic unit factors change?"""
    fa = sorted(a for a in unit_atoms(ctx, term) if a.split(':', 1)[1].rstrip(']') not in allowed_syms)
    if not fa:
        return []
    t1 = ctx.subst(term, {a: Rat.const(1) for a in fa})
    primes = [7, 11, 13, 17, 19, 23, 29, 31]
    t2 = ctx.subst(term, {a: Rat.const(primes[i % len(primes)]) for i, a in enumerate(fa)})
    return [] if ctx.eq(t1, t2) else fa


def guard_depends(ctx, g: G, allowed_syms):
    if g.kind != 'cmp':
        return []
    fa = sorted(a for a in unit_atoms(ctx, g.rat) if a.split(':', 1)[1].rstrip(']') not in allowed_syms)
    if not fa:
        return []
    primes = [7, 11, 13, 17, 19, 23, 29, 31]
    g1 = make_cmp(g.key[0], ctx.subst(g.rat, {a: Rat.const(1) for a in fa}))
    g2 = make_cmp(g.key[0], ctx.subst(g.rat, {a: Rat.const(primes[i % len(primes)]) for i, a in enumerate(fa)}))
    return [] if g1.same(g2) else fa


def examine(sx, outs, allowed_syms):
    """[(lineno, what)] unit-dependent values in the outcomes of one function"""
    ctx = sx.ctx
    out = []
    seen = set()

    def val(v, ln, role):
        t = getattr(v, 'term', None)
        if isinstance(v, Bsym):
            d = guard_depends(ctx, v.guard, allowed_syms)
            if d:
                out.append((ln, f'{role}: the comparison `{v.guard.show(ctx)[:120]}` depends on the unit factors {d[:2]}'))
            return
        if t is None:
            return
        d = depends_on_units(ctx, t, allowed_syms)
        if d:
            key = (ln, role)
            if key not in seen:
                seen.add(key)
                out.append((ln, f'{role}: `{ctx.show(ctx.reduce(t))[:140]}` depends on the unit factors {d[:2]} (a raw .value is '
                                f'combined with a number expressed in another unit)'))
    for o in outs:
        for g in o.state.guards:
            d = guard_depends(ctx, g, allowed_syms)
            if d:
                key = ('g', g.show(ctx))
                if key not in seen:
                    seen.add(key)
                    out.append((o.loc, f'decision `{g.show(ctx)[:120]}` depends on the unit factors {d[:2]}'))
        if o.kind == 'return' and o.value is not None:
            val(o.value, o.loc, 'returned value')
        for e in o.state.effects:
            if e[0] == 'store':
                val(e[3], e[4], f'value stored in {e[1]}.{e[2]}')
            elif e[0] == 'call':
                for a in list(e[3]) + list(e[4].values()):
                    val(a, e[5], f'argument of {e[1]}.{e[2]}()')
            elif e[0] == 'opaque-call':
                for a in list(e[2]) + list(e[3].values()):
                    val(a, e[4], f'argument of {e[1]}()')
            elif e[0] in ('setitem', 'append'):
                val(e[3] if e[0] == 'setitem' else e[2], e[4] if e[0] == 'setitem' else e[3], 'stored item')
    return out


def helpers_of_covered(model):
    """module-level functions, and private methods, whose every caller is a function analysed by another property's rules (or
    such a helper itself): they are evaluated there, inlined into their callers (e.g. private helpers the export function is
    split into).  Calls are resolved narrowly: a plain name to a module function, `self.x(...)` / `cls.x(...)` / `Class.x(...)`
    to a private member of the caller's own class."""
    units = []          # (qualname, class or None, node)
    for fname, (mod, fn) in model.functions.items():
        units.append((fname, None, fn))
    for cname, ci in model.classes.items():
        for mem in ci.all_members():
            units.append((mem.qualname, cname, mem.node))
    callers = {}
    for qual, cname, fn in units:
        for x in ast.walk(fn):
            if not isinstance(x, ast.Call):
                continue
            tgt = None
            if isinstance(x.func, ast.Name) and x.func.id in model.functions:
                tgt = x.func.id
            elif isinstance(x.func, ast.Attribute) and isinstance(x.func.value, ast.Name) and cname is not None \
                    and x.func.value.id in ('self', 'cls', cname) and x.func.attr.startswith('_') and not x.func.attr.endswith('__'):
                mem = model.find_member(cname, x.func.attr)
                tgt = mem.qualname if mem is not None else None
            if tgt is not None and tgt != qual:
                callers.setdefault(tgt, set()).add(qual)
    out = {}
    changed = True
    while changed:
        changed = False
        for qual, cs in callers.items():
            if qual in out or qual in COVERED_ELSEWHERE:
                continue
            if cs and all(c in COVERED_ELSEWHERE or c in out for c in cs):
                why = sorted(COVERED_ELSEWHERE.get(c) or out.get(c) for c in cs)[0]
                out[qual] = f'helper of {sorted(cs)[0]}: {why}'
                changed = True
    return out


def covered_elsewhere(model):
    return {**helpers_of_covered(model), **COVERED_ELSEWHERE}


def sweep(model, rep):
    covered = set()
    notrun = {}
    n_fn = 0
    COVERED_ELSEWHERE = covered_elsewhere(model)
    for cname, ci in sorted(model.classes.items()):
        if model.is_quantity(cname) or cname == 'UnitBase':
            continue          # the units package itself is decided by C05/C06 with symbolic operand units
        for mem in ci.all_members():
            q = mem.qualname
            if q in COVERED_ELSEWHERE or q in EXCLUDED or mem.module in EXCLUDED or cname == 'Solver':
                continue
            sx = SX(model)
            sx.loop_handler = reduction_loop
            sx.variable_kinds = VARIABLE_KINDS
            sx.opaque_calls |= OPAQUE
            allowed = {a.arg for a in mem.node.args.args if a.annotation is not None and 'str' in ast.unparse(a.annotation)}
            try:
                outs = sx.run(mem.node, mem.module, cname)
            except CannotDecide as e:
                notrun[q] = str(e)[:100]
                continue
            n_fn += 1
            covered.add((mem.module, mem.node.lineno))
            bad = examine(sx, outs, allowed)
            if bad:
                ln, what = bad[0]
                rep.violation('C07.raw', q, what, f'{mem.module}:{ln}')
            else:
                rep.holds('C07.raw', q, '', mem.loc)
    # private module-level helpers (`_name`) are evaluated inlined into every caller, with the units the callers really pass: a
    # standalone evaluation with arbitrary argument units would test a contract the helper does not have (its parameters arrive in
    # the unit of the object they were derived from).  Skipped here when every caller is itself swept and the helper is not opaque.
    called_by = {}
    for qual, cname_, fn_ in [(f_, None, n_) for f_, (_, n_) in model.functions.items()] + \
            [(m_.qualname, c_, m_.node) for c_, ci_ in model.classes.items() for m_ in ci_.all_members()]:
        for x in ast.walk(fn_):
            if isinstance(x, ast.Call) and isinstance(x.func, ast.Name) and x.func.id in model.functions and x.func.id != qual:
                called_by.setdefault(x.func.id, set()).add(qual)
    for fname, (mod, fn) in sorted(model.functions.items()):
        if fname in COVERED_ELSEWHERE or mod in EXCLUDED:
            continue
        if fname.startswith('_') and fname not in OPAQUE and called_by.get(fname) and not any(
                c in EXCLUDED or c.split('.')[0] == 'Solver' for c in called_by[fname]) and fname not in notrun:
            covered.add((mod, fn.lineno))
            rep.holds('C07.raw', fname, f'private helper, evaluated inlined into {sorted(called_by[fname])[:3]}', f'{mod}:{fn.lineno}')
            continue
        sx = SX(model)
        sx.loop_handler = reduction_loop
        sx.variable_kinds = VARIABLE_KINDS
        sx.opaque_calls |= OPAQUE
        args = None
        if fname in ('add_gear_mating', 'add_worm_gear_mating', 'add_fixed_joint'):
            from checks.c10 import _args
            args = _args(fname)
        if fname in OPAQUE:
            # table lookups by pressure angle: decided by the exact-key rule
            covered.add((mod, fn.lineno))
            continue
        allowed = {a.arg for a in fn.args.args if a.annotation is not None and 'str' in ast.unparse(a.annotation)}
        try:
            outs = sx.run(fn, mod, None, None, args)
        except CannotDecide as e:
            notrun[fname] = str(e)[:100]
            continue
        n_fn += 1
        covered.add((mod, fn.lineno))
        bad = examine(sx, outs, allowed)
        if bad:
            ln, what = bad[0]
            rep.violation('C07.raw', fname, what, f'{mod}:{ln}')
        else:
            rep.holds('C07.raw', fname, '', f'{mod}:{fn.lineno}')
    rep.analysed['functions_swept'] = n_fn
    rep.analysed['not_evaluable'] = notrun
    return covered, notrun


def solver_events(model, rep):
    rm = run_model(model)
    ctx = rm.ir.ctx
    mod = rm.member.module
    seen = set()
    allowed = set()
    n = 0
    for rp in rm.paths:
        items = list(flatten(rp.raw.state.effects))
        for g in rp.guards:
            d = guard_depends(ctx, g, allowed)
            if d and ('g', g.show(ctx)) not in seen:
                seen.add(('g', g.show(ctx)))
                rep.violation('C07.raw', 'Solver.run:decision', f'decision `{g.show(ctx)[:120]}` depends on the unit factors {d[:2]}',
                              f'{mod}:{rm.member.node.lineno}')
        for c, e in items:
            vals = []
            ln = 0
            if e[0] == 'store':
                vals, ln, role = [e[3]], e[4], f'value stored in {e[1]}.{e[2]}'
            elif e[0] == 'call':
                vals, ln, role = list(e[3]) + list(e[4].values()), e[5], f'argument of {e[1]}.{e[2]}()'
            elif e[0] == 'append':
                vals, ln, role = [e[2]], e[3], f'instant appended to {e[1]}'
            elif e[0] == 'loop' and e[1].kind == 'grid':
                vals, ln, role = [a for a in e[1].grid['args'] if hasattr(a, 'term')], e[1].lineno, 'bound of the time grid'
            elif e[0] == 'loop' and e[1].kind == 'index':
                vals, ln, role = [N(x) for x in (e[1].start, e[1].stop, e[1].step)], e[1].lineno, 'bound of a loop'
                for p in e[1].paths:
                    vals += [v for v in p.carried.values() if hasattr(v, 'term')]
            for v in vals:
                n += 1
                t = getattr(v, 'term', None)
                if t is None:
                    continue
                d = depends_on_units(ctx, t, allowed)
                if d:
                    key = (role.split(' of ')[0], ln)
                    if key not in seen:
                        seen.add(key)
                        fn = c[-1][0].func if c else 'run'
                        rep.violation('C07.raw', f'Solver.{fn}:{role.split("(")[0][:60]}',
                                      f'{role}: `{ctx.show(ctx.reduce(t))[:140]}` depends on the unit factors {d[:2]} (raw values of '
                                      f'quantities expressed in possibly different units are combined)', f'{mod}:{ln}')
            if e[0] == 'loop':
                for p in e[1].paths:
                    for g in p.guards:
                        d = guard_depends(ctx, g, allowed)
                        if d and ('g', g.show(ctx)) not in seen:
                            seen.add(('g', g.show(ctx)))
                            rep.violation('C07.raw', f'Solver.{e[1].func}:decision', f'decision `{g.show(ctx)[:120]}` depends on the unit '
                                          f'factors {d[:2]}', f'{mod}:{e[1].lineno}')
    if not any(i.rule == 'C07.raw' and i.construct.startswith('Solver.') and i.status == 'VIOLATION' for i in rep.instances):
        rep.holds('C07.raw', 'Solver.run', f'{n} stored values / call arguments / instants of the solver IR are free of unit factors', mod)
    rep.analysed['solver_values_examined'] = n


def tolerance_side(model, rep):
    """The comparison tolerance is absolute in the LEFT operand's unit (known finding K2 of C05).  Until that is
    repaired, an equality test between a caller-supplied quantity and a library constant is unit-independent only with
    the constant on the left (`x in CONSTANTS` compares `constant == x`; `x == constant` measures the tolerance in the
    caller's unit: 14.5 deg written as 52200 arcsec is off by 7e-12 arcsec and is rejected)."""
    n = 0
    bad = []
    for mod, tree in sorted(model.trees.items()):
        if mod in EXCLUDED or '/units/' in mod:
            continue
        consts = {k for k in model.module_consts.get(mod, {}) if k.isupper()}
        imported = {a.asname or a.name for nd in ast.walk(tree) if isinstance(nd, ast.ImportFrom) for a in nd.names if (a.asname or a.name).isupper()}
        consts |= imported
        for fn in ast.walk(tree):
            if not isinstance(fn, ast.FunctionDef):
                continue
            elems = set()       # names iterating over a constant list
            for nd in ast.walk(fn):
                gens = nd.generators if isinstance(nd, (ast.ListComp, ast.GeneratorExp, ast.SetComp)) else []
                for g in gens:
                    if isinstance(g.iter, ast.Name) and g.iter.id in consts and isinstance(g.target, ast.Name):
                        elems.add(g.target.id)
                if isinstance(nd, ast.For) and isinstance(nd.iter, ast.Name) and nd.iter.id in consts and isinstance(nd.target, ast.Name):
                    elems.add(nd.target.id)

            def is_const(e):
                if isinstance(e, ast.Name) and (e.id in consts or e.id in elems):
                    return True
                return isinstance(e, ast.Call) and isinstance(e.func, ast.Name) and model.is_quantity(e.func.id) \
                    and all(isinstance(a, ast.Constant) for a in list(e.args) + [k.value for k in e.keywords])
            for nd in ast.walk(fn):
                if isinstance(nd, ast.Compare) and len(nd.ops) == 1 and isinstance(nd.ops[0], (ast.Eq, ast.NotEq)):
                    l, r = nd.left, nd.comparators[0]
                    if is_const(r) and not is_const(l) and not isinstance(l, ast.Constant):
                        n += 1
                        bad.append((f'{mod}:{nd.lineno}', fn.name, ast.unparse(nd)[:70]))
    for loc, fname, text in bad:
        rep.violation('C07.tolerance-side', fname, f'`{text}` compares a caller-supplied quantity with a library constant with the constant on the '
                      f'right: the tolerance is then measured in the caller\'s unit and a valid value written in a fine unit is rejected', loc)
    if not bad:
        rep.holds('C07.tolerance-side', 'package', 'every equality with a library constant has the constant on the left (or uses `in`)')


LOOKUP_METHODS = {'searchsorted', 'index', 'get', 'isin', 'get_loc', 'bisect', 'bisect_left', 'bisect_right', 'count', 'pop'}


def exact_keys(model, rep):
    n = 0
    for mod, tree in sorted(model.trees.items()):
        if mod in EXCLUDED or '/units/' in mod:
            continue
        for fn in ast.walk(tree):
            if not isinstance(fn, (ast.FunctionDef,)):
                continue
            # converted raw numbers bound to locals (one function, transitive) are keys too
            tainted = set()
            changed = True

            def raw(e):
                for a in ast.walk(e):
                    if isinstance(a, ast.Attribute) and a.attr == 'value' and isinstance(a.value, ast.Call) \
                            and isinstance(a.value.func, ast.Attribute) and a.value.func.attr == 'to':
                        return True
                    if isinstance(a, ast.Name) and a.id in tainted:
                        return True
                return False
            while changed:
                changed = False
                for node in ast.walk(fn):
                    if isinstance(node, ast.Assign) and len(node.targets) == 1 and isinstance(node.targets[0], ast.Name) \
                            and node.targets[0].id not in tainted and raw(node.value) \
                            and not (isinstance(node.value, ast.Call) and ast.unparse(node.value.func).endswith(('interp1d', 'Angle', 'sqrt'))):
                        # only plain numeric expressions propagate (rounding included); results of lookups do not
                        if not any(isinstance(x, ast.Subscript) for x in ast.walk(node.value)):
                            tainted.add(node.targets[0].id)
                            changed = True
            for node in ast.walk(fn):
                keys = []
                if isinstance(node, ast.Call) and isinstance(node.func, ast.Attribute) and node.func.attr in LOOKUP_METHODS:
                    for k in list(node.args) + [kw.value for kw in node.keywords]:
                        if raw(k):
                            n += 1
                            rep.violation('C07.exact-key', f'{fn.name}', f'`{ast.unparse(node)[:80]}` looks a converted raw number up in a table '
                                          f'({node.func.attr}): a valid quantity expressed in another unit converts to a neighbouring float '
                                          f'(Angle(14.5, "deg").to("rad") gives 14.500000000000002 deg) and lands on another row', f'{mod}:{node.lineno}')
                if isinstance(node, ast.Subscript):
                    # x[key], df.loc[key, col]; list indexing by an integer is not a value key
                    sl = node.slice
                    keys = list(sl.elts) if isinstance(sl, ast.Tuple) else [sl]
                elif isinstance(node, ast.Compare) and any(isinstance(o, (ast.In, ast.NotIn, ast.Eq, ast.NotEq)) for o in node.ops):
                    keys = [node.left] + list(node.comparators)
                for k in keys:
                    for a in ast.walk(k):
                        if (isinstance(a, ast.Attribute) and a.attr == 'value' and isinstance(a.value, ast.Call)
                                and isinstance(a.value.func, ast.Attribute) and a.value.func.attr == 'to') or \
                                (isinstance(a, ast.Name) and a.id in tainted and not isinstance(node, ast.Compare)):
                            n += 1
                            rep.violation('C07.exact-key', f'{fn.name}', f'`{ast.unparse(k)[:80]}` - a converted raw number - is used as an '
                                          f'exact-match key: a valid quantity expressed in another unit converts to a neighbouring float '
                                          f'(Angle(14.5, "deg").to("rad") gives 14.500000000000002 deg) and the lookup fails',
                                          f'{mod}:{node.lineno}')
    if n == 0:
        rep.holds('C07.exact-key', 'package', 'no converted raw number is used as an exact-match key')
    # positive control: the rule must fire on a tiny synthetic example on every run
    probe = ast.parse("def f(t, a):\n    return t.loc[a.to('deg').value, 'x']\n")
    hit = any(isinstance(a, ast.Attribute) and a.attr == 'value' and isinstance(a.value, ast.Call) for n2 in ast.walk(probe)
              if isinstance(n2, ast.Subscript) for a in ast.walk(n2.slice))
    rep.decide(hit, 'C07.exact-key', 'self-test', 'the exact-key rule does not fire on its built-in positive example')


def hash_keys(model, rep):
    """quantities compare equal across units and within a tolerance, so no hash of their value in some unit (nor of the
    unit's name) is consistent with that equality: a set / dict keyed by quantities would file 20 deg and its value in
    rad under different keys.  The classes define __eq__ and no __hash__, which makes them unhashable - the structural
    guarantee that no table is keyed that way; a __hash__ that reads value or unit removes it."""
    kinds = sorted(set(model.quantity_kinds()) | {'UnitBase'})
    n = 0
    for k in kinds:
        ci = model.classes.get(k)
        if ci is None:
            continue
        h = ci.members.get('__hash__')
        assigned = ci.class_attrs.get('__hash__')
        eq = model.find_member(k, '__eq__')
        n += 1
        if h is not None:
            reads = sorted({a.attr for a in ast.walk(h.node) if isinstance(a, ast.Attribute) and a.attr.lstrip('_').split('__')[-1] in ('value', 'unit')})
            if reads:
                rep.violation('C07.hash-key', f'{k}.__hash__', f'hashes {reads}: two quantities that compare equal (same magnitude in another unit, or '
                              f'within the comparison tolerance) hash differently, so a dict / set keyed by quantities misses valid keys',
                              f'{h.module}:{h.node.lineno}')
                continue
        if assigned is not None and not (isinstance(assigned, ast.Constant) and assigned.value is None):
            rep.violation('C07.hash-key', f'{k}.__hash__', f'`__hash__ = {ast.unparse(assigned)[:40]}` makes quantities hashable by something other '
                          f'than their unit-blind magnitude', f'{ci.module}:{assigned.lineno}')
            continue
        rep.holds('C07.hash-key', f'{k}.__hash__', 'no value- or unit-based hash' + ('' if h is not None or eq is None else ' (unhashable: __eq__ without __hash__)'))
    rep.require('C07.hash-key', 14, 'UnitBase and the 13 kinds')


def coverage(model, rep, covered, notrun):
    COVERED_ELSEWHERE = covered_elsewhere(model)
    total = 0
    uncovered = []
    for mod, tree in sorted(model.trees.items()):
        if '/units/' in mod:
            continue
        for fn in ast.walk(tree):
            if not isinstance(fn, ast.FunctionDef):
                continue
            reads = [a for a in ast.walk(fn) if isinstance(a, ast.Attribute) and a.attr == 'value' and isinstance(a.ctx, ast.Load)]
            nested = [g for g in ast.walk(fn) if isinstance(g, ast.FunctionDef) and g is not fn]
            if nested and mod not in EXCLUDED:
                pass
            if not reads:
                continue
            total += len(reads)
            q = fn.name
            cls = None
            for c, ci in model.classes.items():
                if ci.module == mod and any(m.node is fn for m in ci.all_members()):
                    cls = c
            qual = f'{cls}.{fn.name}' if cls else fn.name
            ok = (mod, fn.lineno) in covered or qual in COVERED_ELSEWHERE or qual in EXCLUDED or mod in EXCLUDED or cls == 'Solver' \
                or any(qual + '[setter]' == k for k in ())
            if not ok:
                uncovered.append(f'{qual} ({len(reads)} reads): {notrun.get(qual, notrun.get(qual + "[setter]", "not visited"))}')
    if uncovered:
        # not a verdict about the code: the census is fail-closed, a read that no analysis reached leaves the property undecided
        rep.cannot('C07.coverage', '.value reads', f'raw-value reads outside every analysis: {uncovered[:4]}')
    else:
        rep.holds('C07.coverage', '.value reads', f'{total} .value reads outside the units package, all in analysed or explicitly listed functions')
    rep.analysed['value_reads'] = total
    rep.analysed['excluded'] = EXCLUDED
    rep.analysed['covered_elsewhere'] = COVERED_ELSEWHERE


def check(model, rep):
    # hidden state Python keeps outside the objects (not modelled by the evaluator): reported before anything else is evaluated
    from checks.solver_common import package_lints as _package_lints
    _package_lints(model, rep, 'C07.hidden-state', ('/units/', '/sensors/', '/motor_control/', '/stop_condition/'))
    rep.explain('C07 (necessary condition): units-of-measure analysis by symbolic unit factors. Every function of the package the '
                'evaluator can run, and every event of the solver IR, is examined: a stored value, returned value, call argument '
                'or decision whose canonical term still depends on the symbolic factor of an object\'s own unit is reported; '
                'converted raw numbers must not be exact-match keys; every `.value` read outside the units package must lie in an '
                'analysed function (fail-closed coverage); unit tables and to() are exact (shared with C05). Together with '
                'C05/C06 (all quantity-level operators are unit-blind) these are the ways an input\'s unit can reach a result.')
    sxm.POSITIVE_ATOMS.clear()
    covered, notrun = sweep(model, rep)
    try:
        solver_events(model, rep)
    except CannotDecide as e:
        rep.cannot('C07.raw', 'Solver.run', str(e))
    exact_keys(model, rep)
    hash_keys(model, rep)
    coverage(model, rep, covered, notrun)
    from checks.c05 import check_tables, check_to
    from sa.units import UnitTables
    tables = UnitTables(model)
    check_tables(model, rep, tables, R='C07.dep.table')
    check_to(model, rep, SX(model, tables), tables, R='C07.dep.to')
    # decisions are taken by the comparison dunders and values are combined by the arithmetic dunders: their predicates
    # (C05.cmp) and the cancellation of unit factors in their results (C06, only instances where a unit factor survives)
    from sa.core import Report
    from checks import c05 as _c05, c06 as _c06
    dep = Report('C05')
    _c05.check_cmp(model, dep, SX(model, tables), tables)
    rep.absorb(dep, {'C05.cmp': 'C07.dep.cmp'})
    dep = Report('C06')
    _c06.check(model, dep)
    for i in dep.instances:
        if i.rule == 'C06.si-semantics' and i.status == 'VIOLATION' and i.extra.get('unit_dependent'):
            rep.violation('C07.dep.arith', i.construct, i.detail, i.loc)
    rep.holds('C07.dep.arith', 'operators', 'no operator result keeps a unit factor (C06 instances re-read)')
    tolerance_side(model, rep)
    # snapshot/export convert recorded samples to caller-chosen units: the pairing and conversion rules of C18
    from checks import c18
    dep = Report('C18')
    c18.check(model, dep)
    rep.absorb(dep, {'C18.pairing': 'C07.dep.snapshot-pairing', 'C18.export': 'C07.dep.export', 'C18.interp': 'C07.dep.snapshot-interp'})
    rep.require('C07.raw', 300, 'one instance per evaluated function')
    rep.assume('quantity-level operators and comparisons are unit-blind up to the comparison tolerance (C05, C06; known finding K2)')
