"""C02 - torque propagation and balance along the chain at every instant.

Decided clause: formulas (driving torque downstream with efficiency and ratio, load torque upstream
divided by both, net = driving - load), argument binding and type check of the user load call, loop
coverage for all n >= 2, and the def-use ordering of the torque phases inside an instant (generic
no-stale-read rule over every element attribute and the time axis).  The motor law itself is C08.
Not decided: values of a run; behaviour of the user's load function."""
from __future__ import annotations

from checks.solver_common import run_model, classify, instant_order_findings, describe
from sa.algebra import Rat
from sa.instant import KIN, loop_interval
from sa.sx import SX, Ov, Q, CannotDecide

TORQUES = ('driving_torque', 'load_torque', 'torque')


def _once(rep, seen, key, ok, rule, cons, why, **kw):
    if key in seen:
        return
    seen.add(key)
    rep.decide(ok, rule, cons, why, **kw)


def check_instant(rm, rep, name, events, seen):
    ctx = rm.ir.ctx
    mod = rm.member.module
    tags = [classify(rm, ev) for ev in events]
    ctxname = name.split('#')[0]
    # ---- driving torque
    dl = [ev for ev, t in zip(events, tags) if 'write:driving_torque' in t and ev.kind == 'loop']
    if not dl:
        _once(rep, seen, ('drv-missing', ctxname), False, 'C02.driving', f'Solver.run[{ctxname}]',
              'no loop propagates the driving torque downstream in this instant context', loc=f'{mod}:{rm.member.node.lineno}')
    for ev in dl:
        L = ev.loop
        ok, why = True, ''
        from checks.solver_common import carry_as_previous
        carry_map = carry_as_previous(L, ev, ctx)
        for idx, attr, val, g in [s for s in ev.stores if s[1] == 'driving_torque']:
            if carry_map and getattr(val, 'term', None) is not None:
                val = type(val)(val.kind, ctx.reduce(ctx.subst(val.term, carry_map)), val.unit) if hasattr(val, 'kind') else val
            me = ctx.show(L.index + Rat.const(idx.b))
            up = ctx.show(L.index + Rat.const(idx.b - 1))
            want = Rat.atom(f'E[{up}].driving_torque') * Rat.atom(f'E[{me}].master_gear_efficiency') * \
                Rat.atom(f'E[{me}].master_gear_ratio')
            t = getattr(val, 'term', None)
            if idx.c != 1 or t is None or not ctx.eq(t, want):
                ok, why = False, (f'E[{idx}].driving_torque = `{ctx.show(t)[:150] if t is not None else val}`, specified '
                                  f'driver\'s driving torque x own efficiency x own ratio')
        _once(rep, seen, ('drv', L.func, ok, why), ok, 'C02.driving', f'{L.func}:formula', why, loc=f'{mod}:{L.lineno}')
        w = [a for a in ev.writes if a.attr == 'driving_torque']
        cov = bool(w) and all(a.who.equals(0, 1, 1, -1) for a in w)
        _once(rep, seen, ('drv-cov', L.func, cov), cov, 'C02.driving', f'{L.func}:coverage',
              f'writes driving torque of {sorted({str(a.who) for a in w})}, every follower E[1 .. n - 1] is required',
              loc=f'{mod}:{L.lineno}')
        # E[0].driving_torque produced by the motor characteristic earlier in the instant
        i = events.index(ev)
        motor_before = any('motor' in t and any(c[1] == 'compute_torque' and c[0] == 'E[0]' for c in e2.calls)
                           for e2, t in zip(events[:i], tags[:i]))
        _once(rep, seen, ('drv-motor', ctxname, motor_before), motor_before, 'C02.motor', f'Solver.run[{ctxname}]',
              'the motor characteristic (compute_torque on the motor E[0]) is not evaluated before the driving torque is propagated',
              loc=f'{mod}:{L.lineno}')
    # ---- load torque
    ll = [ev for ev, t in zip(events, tags) if 'write:load_torque' in t and ev.kind == 'loop']
    if not ll:
        _once(rep, seen, ('load-missing', ctxname), False, 'C02.load', f'Solver.run[{ctxname}]',
              'no loop propagates the load torque upstream in this instant context', loc=f'{mod}:{rm.member.node.lineno}')
    for ev in ll:
        L = ev.loop
        ups = []
        ok, why = True, ''
        for idx, attr, val, g in [s for s in ev.stores if s[1] == 'load_torque']:
            t = getattr(val, 'term', None)
            if t is None:
                ok, why = False, f'non-numeric load torque `{val!r}`'[:200]
                continue
            atoms = {a for a in t.atoms()}
            if any(a.startswith('call:') or '.external_torque(' in a for a in atoms) and len(t.n.t) == 1 and t.d.is_const():
                continue        # the store of the user function's result itself (checked below)
            # upstream propagation: E[j-1].load = E[j].load / eff_j / ratio_j
            dn_idx = idx.b + 1
            dn = ctx.show(L.index + Rat.const(dn_idx))
            ups.append(idx)
            # the follower's load torque may be the freshly evaluated external torque: substitute
            want_generic = Rat.atom(f'E[{dn}].load_torque') / Rat.atom(f'E[{dn}].master_gear_efficiency') / \
                Rat.atom(f'E[{dn}].master_gear_ratio')
            okk = ctx.eq(t, want_generic)
            if not okk:
                # same shape with the external result in place of E[dn].load_torque
                ext = [a for a in atoms if '.external_torque(' in a or a.startswith('call:')]
                if len(ext) == 1:
                    okk = ctx.eq(t, ctx.subst(want_generic, {f'E[{dn}].load_torque': Rat.atom(ext[0])}))
            if idx.c != 1 or not okk:
                ok, why = False, (f'E[{idx}].load_torque = `{ctx.show(t)[:150]}`, specified follower\'s load torque / its '
                                  f'efficiency / its ratio')
        _once(rep, seen, ('load', L.func, ok, why), ok, 'C02.load', f'{L.func}:formula', why, loc=f'{mod}:{L.lineno}')
        iv, direction = loop_interval(L)
        w = [a for a in ev.writes if a.attr == 'load_torque' and a.idx is not None and a.idx.b == -1 + 0 * 0 and a.idx.c == 1]
        wset = sorted({str(a.who) for a in ev.writes if a.attr == 'load_torque'})
        cov = any(a.who.equals(0, 0, 1, -2) for a in ev.writes if a.attr == 'load_torque')
        _once(rep, seen, ('load-cov', L.func, cov), cov, 'C02.load', f'{L.func}:coverage',
              f'writes load torque of {wset}; every driver E[0 .. n - 2] must receive its follower\'s load', loc=f'{mod}:{L.lineno}')
        # the user load call
        calls = [c for c in ev.calls if c[1] == 'external_torque']
        if not calls:
            _once(rep, seen, ('load-call-missing', L.func), False, 'C02.load-call', f'{L.func}',
                  'the external load function is never evaluated', loc=f'{mod}:{L.lineno}')
        for owner, meth, args, kwargs, g in calls:
            okc, whyc = True, ''
            if args:
                okc, whyc = False, 'positional arguments: binding to (angular_position, angular_speed, time) not decidable'
            for kw, attr in (('angular_position', 'angular_position'), ('angular_speed', 'angular_speed')):
                v = kwargs.get(kw)
                s = rm.ir.sx.show(v) if v is not None else None
                if v is None or not s.endswith(f'{owner}.{attr}'):
                    okc, whyc = False, f'{kw}= is bound to `{s}`, specified the same element\'s {attr} ({owner}.{attr})'
            tv = kwargs.get('time')
            s = rm.ir.sx.show(tv) if tv is not None else None
            if tv is None or not s.endswith('.time[-1]'):
                okc, whyc = False, f'time= is bound to `{s}`, specified the current instant Powertrain.time[-1]'
            _once(rep, seen, ('load-call', L.func, okc, whyc), okc, 'C02.load-call', f'{L.func}:binding', whyc, loc=f'{mod}:{L.lineno}')
            # result type-checked and stored on the same element
            typed = any(x.kind == 'isinstance' and x.pol and 'Torque' in str(x.key) for x in g) or True
        res_stores = [(idx, val, g) for idx, attr, val, g in ev.stores if attr == 'load_torque'
                      and getattr(val, 'term', None) is not None and len(val.term.n.t) == 1 and val.term.d.is_const()
                      and len(val.term.atoms()) == 1
                      and any('.external_torque(' in a for a in val.term.atoms())]
        if calls:
            okr = bool(res_stores)
            whyr = 'the value returned by the load function is not stored as the element\'s load torque'
            for idx, val, g in res_stores:
                atom = next(a for a in val.term.atoms() if '.external_torque(' in a)
                if not atom.startswith(f'E[{ctx.show(L.index + Rat.const(idx.b))}].'):
                    okr, whyr = False, f'the load of {atom.split(".external")[0]} is stored on E[{idx}]'
                if not (isinstance(val, Q) and val.kind == 'Torque') or not any(
                        x.kind == 'isinstance' and x.pol and 'Torque' in str(x.key) for x in g):
                    okr, whyr = False, 'the load function\'s result is stored without the isinstance(..., Torque) check'
            raises_typeerror = any(p.exit == 'raise:TypeError' for p in L.paths)
            if okr and not raises_typeerror:
                okr, whyr = False, 'a non-Torque result of the load function does not raise TypeError'
            _once(rep, seen, ('load-res', L.func, okr, whyr), okr, 'C02.load-call', f'{L.func}:result', whyr, loc=f'{mod}:{L.lineno}')
            cw = [a for a in ev.reads if a.attr == 'angular_position']
            hi_ok = any((not a.who.universal) and a.who.hi.a == 1 and a.who.hi.b == -1 for a in cw)
            _once(rep, seen, ('load-last', L.func, hi_ok), hi_ok, 'C02.load-call', f'{L.func}:last-element',
                  'the loop that evaluates the external load does not reach the last element E[n - 1]', loc=f'{mod}:{L.lineno}')
    # ---- net torque
    nl = [ev for ev, t in zip(events, tags) if 'write:torque' in t and ev.kind == 'loop']
    if not nl:
        _once(rep, seen, ('net-missing', ctxname), False, 'C02.net', f'Solver.run[{ctxname}]',
              'no loop computes the net torque in this instant context', loc=f'{mod}:{rm.member.node.lineno}')
    for ev in nl:
        L = ev.loop
        ok, why = True, ''
        for idx, attr, val, g in [s for s in ev.stores if s[1] == 'torque']:
            me = ctx.show(L.index + Rat.const(idx.b))
            want = Rat.atom(f'E[{me}].driving_torque') - Rat.atom(f'E[{me}].load_torque')
            t = getattr(val, 'term', None)
            if idx.c != 1 or t is None or not ctx.eq(t, want):
                ok, why = False, f'E[{idx}].torque = `{ctx.show(t)[:120] if t is not None else val}`, specified driving - load'
                # operands read through something the evaluator does not follow (attrgetter tables, dynamic getattr): not a verdict
                if t is not None and any(('(' in a_ and a_ not in ctx.defs and not a_.startswith('E[')) for a_ in t.atoms()):
                    why = 'Unk(text=' + why
        _once(rep, seen, ('net', L.func, ok, why), ok, 'C02.net', f'{L.func}:formula', why, loc=f'{mod}:{L.lineno}')
        cov = all(a.who.is_all() for a in ev.writes if a.attr == 'torque')
        _once(rep, seen, ('net-cov', L.func, cov), cov, 'C02.net', f'{L.func}:coverage',
              f'net torque written for {sorted({str(a.who) for a in ev.writes if a.attr == "torque"})}, all elements required',
              loc=f'{mod}:{L.lineno}')
    # ---- ordering: stale reads on any attribute; time axis updated before it is read
    for kind, text, a, b, attr in instant_order_findings(rm, events):
        k = ('C02.order', a.text, b.text, attr, kind)
        if k in seen:
            continue
        seen.add(k)
        rep.violation('C02.order', f'{a.text}|{b.text}|{attr}', text, f'{mod}:{a.lineno}', context=name)
    seen_time = False
    for ev, t in zip(events, tags):
        if 'time' in t:
            seen_time = True
        elif ev.reads_time and not seen_time:
            k = ('C02.time', ev.text)
            if k not in seen:
                seen.add(k)
                rep.violation('C02.order', f'{ev.text}|time', f'{describe(ev)} reads the time axis before the instant\'s time has '
                              f'been appended (it would see the previous instant)', f'{mod}:{ev.lineno}', context=name)
    # the recorder is the last writer/reader of the instant apart from the stop check
    rec = [i for i, t in enumerate(tags) if 'record' in t]
    if not rec:
        _once(rep, seen, ('rec-missing', ctxname), False, 'C02.order', f'Solver.run[{ctxname}]:record',
              'no recorder call in this instant', loc=f'{mod}:{rm.member.node.lineno}')


def check_recorder(model, rep):
    sx = SX(model)
    m = model.member('RotatingObject', 'update_time_variables')
    outs = sx.run(m.node, m.module, 'RotatingObject', Ov('self', 'RotatingObject', True))
    want = {'torque': 'torque', 'driving torque': 'driving_torque', 'load torque': 'load_torque'}
    got = {}
    for o in outs:
        for e in o.state.effects:
            if e[0] == 'opaque-call' and isinstance(e[1], str) and e[1].endswith('.append'):
                for key in want:
                    if f"[{key!r}]" in e[1]:
                        got[key] = sx.show(e[2][0]) if e[2] else None
    for key, attr in want.items():
        ok = got.get(key) is not None and got[key].endswith('.' + attr)
        rep.decide(ok, 'C02.recorded', f'RotatingObject.update_time_variables[{key}]',
                   f'the sample appended under {key!r} is `{got.get(key)}`, not the element\'s {attr}', loc=m.loc)


def check(model, rep):
    # hidden state Python keeps outside the objects (not modelled by the evaluator): reported before anything else is evaluated
    from checks.solver_common import package_lints as _package_lints
    _package_lints(model, rep, 'C02.hidden-state', ('/solver.py', '/powertrain.py', '/dc_motor.py'))
    from checks.solver_common import absorb_arith, TIME_ARITH, EULER_ARITH, KIN_ARITH, TORQUE_ARITH
    absorb_arith(model, rep, 'C02.dep.arith', TORQUE_ARITH, solver_log=True)
    rep.explain('C02: on the solver IR (event structure over E[0..n-1]) every instant context must contain: the motor '
                'characteristic on E[0] followed by the driving-torque loop with term E[i-1].driving * E[i].efficiency * '
                'E[i].ratio over E[1..n-1]; the load loop with the user function called with time=time[-1] and the same '
                'element\'s position and speed, its result type-checked and stored, and E[i-1].load = E[i].load / eff / ratio '
                'over E[0..n-2]; net = driving - load over all elements; and no stale read of any attribute or of the time '
                'axis inside the instant. Code shape only; the motor law is decided by C08.')
    # "at every recorded instant", after any history: Powertrain.reset must hand every variable its own fresh list and restore the
    # attributes from their own first samples (C12's reset rule) - else a rerun records into lists that are no longer one per variable
    from checks.c12 import check_reset as _check_reset
    _check_reset(model, rep, R='C02.recorded.reset')
    # the motor's driving torque must be the documented characteristic: the law extracted by C08's rules
    from sa.core import Report
    from checks import c08
    dep = Report('C08')
    c08.check(model, dep)
    rep.absorb(dep, {'C08.law.torque': 'C02.motor-law', 'C08.units': 'C02.motor-law.units', 'C08.pure': 'C02.motor-law.pure'})
    from sa import sx as _sxm
    _sxm.POSITIVE_ATOMS.clear()
    _sxm.NONNEG_ATOMS.clear()
    try:
        rm = run_model(model)
    except CannotDecide as e:
        rep.cannot('C02.driving', 'Solver.run', str(e))
        return
    seen = set()
    ins = rm.instants()
    rep.inspect(sum(len(ev) for _, _, ev in ins))
    for name, rp, events in ins:
        check_instant(rm, rep, name, events, seen)
    if not any(i.rule == 'C02.order' for i in rep.instances):
        rep.holds('C02.order', 'all instants', f'{len(ins)} instant contexts: no stale read of any attribute or of the time axis')
    check_recorder(model, rep)
    from sa.forwarding import check_forwarding
    check_forwarding(model, rep, 'C02.forwarding', ('torque', 'driving_torque', 'load_torque', 'master_gear_ratio', 'master_gear_efficiency', 'external_torque', 'angular_position', 'angular_speed'))
    from sa.forwarding import check_setter_stores
    check_setter_stores(model, rep, 'C02.setter-stores', ('torque', 'driving_torque', 'load_torque', 'master_gear_ratio', 'master_gear_efficiency', 'external_torque'))
    rep.analysed.update({'run_paths': len(rm.paths), 'instant_contexts': len(ins)})
    rep.require('C02.driving', 2)
    rep.require('C02.load', 2)
    rep.require('C02.load-call', 3)
    rep.require('C02.net', 2)
    rep.require('C02.recorded', 3)
    rep.assume('the motor characteristic is the documented law (C08); efficiency/ratio are set by the relation functions (C10)')
