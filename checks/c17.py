"""C17 - every advertised time variable has exactly one sample per instant.

* C17.guards    per concrete element class: the condition under which a key is created in the constructor equals,
                as a truth table over the optional-data atoms, the condition under which update_time_variables
                appends to it (a key advertised but not recorded - or recorded but not advertised - breaks export)
* C17.stable    the data those conditions read cannot change after construction (no writer outside __init__)
* C17.one       each key is appended at most once per call, with the element's own live attribute of that variable
* C17.pairing   every instant context of Solver.run has exactly one time append and exactly one unconditional
                recorder call over all elements, the recorder after every write of the instant (shared ordering rule)
* C17.computed  every derived variable a class records is computed by the solver for that class under a guard
                implied by the recording guard (no None sample)
* C17.kind      the setter of every recorded attribute enforces the variable's quantity kind
* C17.reset     reset empties every list with a fresh list per key (shared with C12.reset)
* C17.export    the export mapping covers every recordable variable
"""
from __future__ import annotations

import ast
import re

from checks.solver_common import run_model, classify
from sa.extract import truth_table
from sa.facts import validated_signs
from sa.spec.variables import VARIABLE_ATTR, VARIABLE_KINDS
from sa.sx import SX, Ov, Dyn, Tv, G, Outcome, CannotDecide, guards_at
from sa.algebra import Rat

OPAQUE = {'worm_gear_and_wheel_maximum_helix_angle_function', 'worm_wheel_lewis_factor_function'}
BASE_KEYS = ('angular position', 'angular speed', 'angular acceleration', 'torque', 'driving torque', 'load torque')
KEY_RE = re.compile(r"time_variables\['([^']+)'\]")
DERIVED = {'tangential force': 'compute_tangential_force', 'bending stress': 'compute_bending_stress',
           'contact stress': 'compute_contact_stress', 'electric current': 'compute_electric_current'}


def rename_guard(g: G, mapping):
    def sub(x):
        if isinstance(x, str):
            for a, b in mapping.items():
                if x == a:
                    return b
        return x
    if g.kind == 'cmp':
        return g
    return G(g.kind, tuple(sub(k) for k in g.key), g.pol, g.rat)


def class_tables(model, sx, cls):
    """(advertised: key -> DNF, recorded: key -> DNF, appended values: key -> set, multiple: keys appended twice)"""
    m = model.member(cls, '__init__')
    outs = sx.run(m.node, m.module, cls)
    done = [o for o in outs if o.kind in ('fall', 'return')]
    _, pf = validated_signs(SX(model), cls) if False else ({}, {})
    # param -> field mapping from the constructor's stores
    mapping = {}
    for o in done:
        for e in o.state.effects:
            if e[0] == 'store' and e[1] == 'self':
                t = getattr(e[3], 'term', None)
                if t is not None and len(t.n.t) == 1 and t.d.is_const():
                    (mono, c), = t.n.t.items()
                    if c == 1 and len(mono) == 1 and mono[0][1] == 1 and not mono[0][0].startswith('self.'):
                        mapping[mono[0][0]] = f'self.{sx.canon_field(cls, e[2])}'
    adv = {}
    # the private field behind the public `time_variables` property, whatever it is called
    tf = sx.trivial_getter_field(cls, 'time_variables') or '_RotatingObject__time_variables'
    tv_attr = '__' + tf.split('__', 1)[1] if '__' in tf else tf
    for c2 in model.mro(cls):
        ci = model.classes.get(c2)
        if ci and '__init__' in ci.members:
            for n in ast.walk(ci.members['__init__'].node):
                if isinstance(n, ast.Assign) and isinstance(n.value, ast.Dict) and any(
                        isinstance(t, ast.Attribute) and t.attr == tv_attr for t in n.targets):
                    for k in n.value.keys:
                        if isinstance(k, ast.Constant):
                            adv[k.value] = [[]]
    # ... or from the evaluated value when the dictionary is built by a comprehension over a table of names
    from sa.sx import Dv
    for o in done:
        for e in o.state.effects:
            if e[0] == 'store' and e[1] == 'self' and e[2] == tf and isinstance(e[3], Dv):
                for k in e[3].items:
                    adv.setdefault(k, [[]])
    adv_paths = {}
    for o in done:
        keys_here = set()
        for e in o.state.effects:
            if e[0] == 'setitem' and str(e[2]).strip("'") in VARIABLE_ATTR:
                key = str(e[2]).strip("'")
                keys_here.add(key)
        for k in keys_here:
            adv_paths.setdefault(k, []).append([rename_guard(g, mapping) for g in o.state.guards])
    for k, dnf in adv_paths.items():
        adv[k] = dnf
    all_ctor_paths = [[rename_guard(g, mapping) for g in o.state.guards] for o in done]
    # fields the constructor always sets to the constant None (e.g. WormWheel's elastic modulus)
    from sa.sx import NoneV
    none_fields = None
    for o in done:
        final = {}
        for e in o.state.effects:
            if e[0] == 'store' and e[1] == 'self':
                final[e[2]] = e[3]
        here = {f'self.{sx.canon_field(cls, f)}' for f, v in final.items() if isinstance(v, NoneV)}
        none_fields = here if none_fields is None else (none_fields & here)
    none_fields = {f for f in (none_fields or set()) if f.split('.', 1)[1] in ('module', 'face_width', 'elastic_modulus', 'reference_diameter',
                                                                       'no_load_electric_current', 'maximum_electric_current')}
    # recorder
    mu = model.member(cls, 'update_time_variables')
    outs = sx.run(mu.node, mu.module, cls)
    rec = {}
    vals = {}
    prefix = {}
    multiple = set()
    rec_paths = []
    foreign = set()            # lists appended to that are not entries of time_variables
    raises = [o for o in outs if o.kind == 'raise']
    for o in outs:
        if o.kind == 'raise':
            continue
        if any(g.kind == 'isnone' and not g.pol and g.key[0] in none_fields for g in o.state.guards):
            continue        # infeasible for this class: the field is the constant None
        counts = {}
        for e in o.state.effects:
            key = None
            if e[0] == 'opaque-call' and str(e[1]).endswith('.append'):
                mm = KEY_RE.search(str(e[1]))
                if mm:
                    key = mm.group(1)
                    v = e[2][0] if e[2] else None
                else:
                    foreign.add(str(e[1])[:-len('.append')])
            elif e[0] == 'setitem' and 'time_variables' in str(e[1]) and isinstance(e[3], Tv) and len(e[3].items) == 1:
                key = str(e[2]).strip("'")
                v = e[3].items[0]
            if key:
                counts[key] = counts.get(key, 0) + 1
                vals.setdefault(key, set()).add(sx.show(v) if v is not None else 'None')
                prefix.setdefault(key, []).append(list(guards_at(e, o.state.guards)))
        for k, c in counts.items():
            if c > 1:
                multiple.add(k)
            rec.setdefault(k, []).append(list(o.state.guards))
        rec_paths.append((list(o.state.guards), set(counts)))
    prefix['<foreign>'] = sorted(foreign)
    return m, mu, adv, all_ctor_paths, rec, rec_paths, vals, multiple, raises, prefix


def dnf_equal(a_paths_all, a_dnf, r_paths_all, r_dnf):
    """compare two boolean functions given as (universe of paths, paths where true)"""
    # function A: true on a_dnf paths, false on the other ctor paths; same for R.  Compare via truth tables
    # over the union of atoms, using A as "code" and R as "spec" and vice versa.
    code = [(g, True) for g in a_dnf] + [(g, False) for g in a_paths_all if g not in a_dnf]
    bad, atoms = truth_table(code, r_dnf)
    return bad, atoms


def check_classes(model, rep):
    classes = [c for c in model.subclasses('RotatingObject') if not model.is_abstract_class(c)]
    stable_fields = set()
    for cls in sorted(classes):
        sx = SX(model)
        sx.opaque_calls |= OPAQUE
        sx.variable_kinds = VARIABLE_KINDS
        try:
            m, mu, adv, ctor_paths, rec, rec_paths, vals, multiple, raises, prefix = class_tables(model, sx, cls)
        except CannotDecide as e:
            rep.cannot('C17.guards', cls, str(e))
            continue
        rep.inspect(len(ctor_paths) + len(rec_paths))
        foreign = prefix.pop('<foreign>', [])
        for f in foreign:
            rep.violation('C17.one', f'{cls}.update_time_variables', f'a sample is appended to `{f}`, which is not an entry of time_variables looked up '
                          f'at the call: Powertrain.reset rebinds every entry to a fresh list, after which such a list is no longer the one '
                          f'that snapshot / export read', mu.loc)
        keys = sorted(set(adv) | set(rec))
        if model.find_member(cls, 'pwm') is not None and 'pwm' not in keys:
            rep.violation('C17.guards', f'{cls}[pwm]', 'the motor has a duty cycle but update_time_variables records no `pwm` sample into time_variables',
                          mu.loc)
        for key in keys:
            cons = f'{cls}[{key}]'
            if key == 'pwm':
                # created on first append: must be recorded on every path
                always = all(key in ks for _, ks in rec_paths)
                rep.decide(always, 'C17.guards', cons, 'pwm is not recorded on every call of update_time_variables', loc=mu.loc)
                # the sample is the motor's duty cycle itself (not a rounded or otherwise derived number): "the last sample equals the
                # element's current attribute", and reset restores the attribute from the first sample
                got = vals.get(key, set())
                okv = bool(got) and all(v == 'self.pwm' or v.endswith('self.pwm') and not v.startswith('call:') and '(' not in v for v in got)
                rep.decide(okv and key not in multiple, 'C17.one', cons,
                           f'appends {sorted(got)} {"more than once per call" if key in multiple else ""}; specified one append of self.pwm',
                           loc=mu.loc)
                continue
            a_dnf = adv.get(key, [])
            r_dnf = rec.get(key, [])
            if not a_dnf:
                rep.violation('C17.guards', cons, 'the variable is recorded but never advertised by the constructor', mu.loc)
                continue
            if not r_dnf:
                rep.violation('C17.guards', cons, 'the variable is advertised by the constructor but never recorded', m.loc)
                continue
            # recorded-function over the recorder's own path universe, compared with the advertise DNF projected
            # onto the atoms the recorder tests (other constructor guards are validity checks of the arguments)
            rec_atoms = {(g.kind, g.key) for gs, _ in rec_paths for g in gs if g.kind != 'cmp'}
            a_proj = []
            for conj in a_dnf:
                pc = [g for g in conj if (g.kind, g.key) in rec_atoms]
                if pc not in a_proj:
                    a_proj.append(pc)
            code = [(g, key in ks) for g, ks in rec_paths]
            bad, atoms = truth_table(code, a_proj)
            if bad is None:
                rep.cannot('C17.guards', cons, f'too many atoms ({len(atoms)})', mu.loc)
            elif bad:
                a, why = bad[0]
                rep.violation('C17.guards', cons,
                              f'the key is created at construction under a condition that differs from the condition under which '
                              f'a sample is appended ({why.replace("code", "recorded").replace("spec", "advertised")}) for '
                              f'{[(str(k[1])[:60], v) for k, v in a.items()]}: the list length then differs from the number of instants',
                              mu.loc)
            else:
                rep.holds('C17.guards', cons, f'advertise condition == record condition over {len(atoms)} atom(s)', mu.loc)
            # atoms read by the record condition -> must be stable
            for conj in prefix.get(key, []):
                for g in conj:
                    for k in g.key:
                        if isinstance(k, str) and k.startswith('self.') and g.kind in ('isnone', 'truth', 'eq'):
                            stable_fields.add((cls, key, k))
            # value appended
            attr = VARIABLE_ATTR.get(key)
            got = vals.get(key, set())
            okv = attr is not None and all(v.endswith('self.' + attr) for v in got)
            rep.decide(okv and key not in multiple, 'C17.one', cons,
                       f'appends {sorted(got)} {"more than once per call" if key in multiple else ""}; specified one append of self.{attr}',
                       loc=mu.loc)
        for o in raises:
            rep.violation('C17.one', f'{cls}.update_time_variables', f'the recorder can raise {o.value}', mu.loc)
    return stable_fields


def check_stable(model, rep, stable_fields):
    """every field read by a record condition must have no writer outside constructors"""
    by = {}
    for cls, key, f in stable_fields:
        by.setdefault((cls, key), set()).add(f.split('.', 1)[1].split('.')[0].split('#')[0])
    cache = {}

    def writers_of(pub):
        if pub not in cache:
            ws = []
            for c, ci in model.classes.items():
                if not model.is_subclass(c, 'RotatingObject'):
                    continue
                for mem in ci.all_members():
                    if mem.name == '__init__':
                        continue
                    for n in ast.walk(mem.node):
                        if isinstance(n, ast.Attribute) and isinstance(n.ctx, ast.Store) and isinstance(n.value, ast.Name) \
                                and n.value.id == 'self' and n.attr.strip('_') == pub and n.attr.startswith('__'):
                            ws.append(mem.qualname)
            cache[pub] = ws
        return cache[pub]
    for (cls, key), fields in sorted(by.items()):
        unstable = {f: writers_of(f)[:2] for f in sorted(fields) if writers_of(f)}
        rep.decide(not unstable, 'C17.stable', f'{cls}[{key}]',
                   f'whether {key!r} is recorded depends on {sorted(unstable)} which can change after construction (e.g. by '
                   f'{[w for ws in unstable.values() for w in ws][:3]}): a key advertised at construction may never receive a sample',
                   loc=model.member(cls, 'update_time_variables').loc)


def check_pairing(model, rep):
    rm = run_model(model)
    mod = rm.member.module
    seen = set()
    # "one recorded sample per recorded instant": the axis may only grow, one instant per recorded step - an instant popped,
    # inserted or overwritten (on any path: after a break, in a finally block ...) leaves the lists one sample off
    tw = set()
    for rp in rm.paths:
        for ev in [e for b in rp.bodies for e in b.events] + list(rp.pre) + list(rp.post):
            if ev.kind == 'time-write' and ev.text not in tw:
                tw.add(ev.text)
                rep.violation('C17.pairing', 'Solver.run:axis-rewritten', f'`{ev.text}` removes or rewrites a recorded instant while the samples of that '
                              f'instant stay in the elements\' lists', f'{mod}:{ev.lineno}')
    for name, rp, events in rm.instants():
        tags = [classify(rm, ev) for ev in events]
        times = [i for i, ev in enumerate(events) if ev.kind == 'time']
        recs = [i for i, t in enumerate(tags) if 'record' in t]
        ok, why, line = True, '', rm.member.node.lineno
        if len(times) != 1:
            ok, why = False, f'{len(times)} instants appended to the time axis in one instant context'
        elif len(recs) != 1:
            ok, why = False, f'{len(recs)} recorder events for one appended instant (every list must grow by exactly one)'
        else:
            ev = events[recs[0]]
            line = ev.lineno
            calls = [c for c in ev.calls if c[1] == 'update_time_variables']
            if ev.kind != 'loop' or not ev.loop or ev.loop.kind != 'index':
                ok, why = False, 'the recorder is not called in a loop over the elements'
            else:
                from sa.instant import loop_interval
                iv, _ = loop_interval(ev.loop)
                if iv is None or not iv.is_all():
                    ok, why = False, f'the recorder loop visits {ev.loop.index_set(rm.ir.ctx)}, all elements are required'
                if any(c[4] for c in calls) or len(calls) != 1:
                    ok, why = False, 'the recorder call is conditional or repeated inside the loop'
                if ev.guards and any(g.kind == 'truth' and 'check_condition' not in str(g.key) and
                                     'electric_current_is_computable' not in str(g.key) and 'is_locked' not in str(g.key)
                                     for g in ev.guards):
                    pass
            later = [e2 for e2 in events[recs[0] + 1:] if e2.writes]
            if later:
                ok, why = False, f'`{later[0].text}` modifies element state after the instant was recorded'
            if times[0] > recs[0]:
                ok, why = False, 'the sample is recorded before the instant is appended to the time axis'
        k = ('pair', ok, why)
        if k not in seen:
            seen.add(k)
            rep.decide(ok, 'C17.pairing', 'Solver.run:one-record-per-instant', why, loc=f'{mod}:{line}', detail=f'context {name}')
    # before the stepping loop: a fresh start appends one instant and records once, a continuation does neither
    for rp in rm.paths:
        n_time = sum(1 for ev in rp.pre if ev.kind == 'time')
        recs = [ev for ev in rp.pre if any(c[1] == 'update_time_variables' for c in ev.calls)]
        if rp.fresh is None:
            continue
        ok = len(recs) == n_time and n_time == (1 if rp.fresh else 0)
        what = 'fresh start' if rp.fresh else 'continuation'
        k = ('pre', what, ok, len(recs), n_time)
        if k not in seen:
            seen.add(k)
            rep.decide(ok, 'C17.pairing', f'Solver.run[{what}]:before-stepping',
                       f'before the stepping loop a {what} appends {n_time} instant(s) and records {len(recs)} sample(s) per element '
                       f'(expected {"1 and 1" if rp.fresh else "0 and 0"}): every list ends up {"longer" if len(recs) > n_time else "shorter"} than Powertrain.time',
                       loc=f'{mod}:{recs[0].lineno if recs else rm.member.node.lineno}')
    # raising paths between the time append and the recorder leave the axis one longer than the lists: not decidable here
    return rm


def check_compute_stores(model, rep):
    """a derived variable that is recorded was computed (C17.computed) - and computing it means assigning it: every
    completing path of compute_<x>() of every class stores the attribute <x> exactly once (a path that returns without
    assigning leaves None, or the stale value of an earlier instant, to be recorded)"""
    from sa.sx import SX, Ov, CannotDecide as _CD
    sx = SX(model)
    for cls in sorted(c for c in model.subclasses('RotatingObject') if not model.is_abstract_class(c)):
        for key, meth in list(DERIVED.items()) + [('driving torque', 'compute_torque')]:
            m = model.find_member(cls, meth)
            if m is None:
                continue
            attr = VARIABLE_ATTR[key]
            cons = f'{cls}.{meth}:stores'
            try:
                outs = sx.run(m.node, m.module, cls, Ov('self', cls, True))
            except _CD as e:
                rep.note('C17.computed', cons, f'not evaluated: {e}', m.loc)
                continue
            bad = None
            for o in outs:
                if o.kind not in ('fall', 'return'):
                    continue
                st = [e for e in o.state.effects if e[0] == 'store' and e[1] == 'self'
                      and (sx.canon_field(cls, e[2]) == attr or e[2].strip('_').endswith(attr))]
                if len(st) != 1:
                    bad = (o, len(st))
                    break
            rep.decide(bad is None, 'C17.computed', cons,
                       (f'a completing path (under `{" and ".join(g.show(sx.ctx)[:50] for g in bad[0].state.guards[-2:])}`) assigns {attr} {bad[1]} times: '
                        f'the sample recorded at that instant is None or stale') if bad else '', loc=m.loc)
            rep.inspect(len(outs))


def check_computed(model, rep, rm):
    """record-condition implies compute-condition, per concrete class and derived variable (semantic: both
    conditions expanded to the optional-data atoms and compared over every assignment)"""
    from sa.extract import eval_in_state
    from sa.sx import Bv, Bsym
    comp = {}
    for name, rp, events in rm.instants():
        for ev in events:
            for owner, meth, args, kwargs, g in ev.calls:
                if meth in DERIVED.values():
                    classes = set()
                    flags = set()
                    for x in tuple(g) + tuple(ev.guards):
                        if x.kind == 'isinstance' and x.pol:
                            classes |= set(x.key[1])
                        if x.kind == 'truth' and x.pol and str(x.key[0]).endswith('_is_computable'):
                            flags.add(str(x.key[0]).split('.')[-1])
                    if meth == 'compute_electric_current' and owner != 'E[0]':
                        continue       # the current belongs to the motor E[0]; a call on another element does not count
                    comp.setdefault(meth, set()).add((frozenset(classes), frozenset(flags)))
    # ... in EVERY instant context that records: a derived variable computed only on some paths (e.g. not while the powertrain is
    # held) is still appended by the recorder on the others - as None at the first instant, as the previous value later
    per_ctx = {}
    for name, rp, events in rm.instants():
        if not any('record' in classify(rm, ev) for ev in events):
            continue
        got = {meth for ev in events for owner, meth, args, kwargs, g in ev.calls if meth in DERIVED.values()}
        # a computation the context rules out by its own flag (`if motor.electric_current_is_computable:` false on this path)
        off = {str(g.key[0]).split('.')[-1] for ev in events for g in tuple(ev.guards) if g.kind == 'truth' and not g.pol} | \
              {str(g.key[0]).split('.')[-1] for g in rp.guards if g.kind == 'truth' and not g.pol}
        per_ctx[name] = (got, {m_ for m_ in DERIVED.values() if m_.replace('compute_', '') + '_is_computable' in off})
    everywhere = set().union(*[g for g, _ in per_ctx.values()]) if per_ctx else set()
    short = sorted((name, sorted(everywhere - got - excused)) for name, (got, excused) in per_ctx.items() if everywhere - got - excused)
    rep.decide(not short, 'C17.computed', 'Solver.run:every-recording-instant',
               f'in instant context {short[0][0] if short else ""} the recorder runs but {short[0][1] if short else ""} are not called (they are in other '
               f'contexts): the samples appended there are None or left over from an earlier instant', loc=rm.member.loc,
               detail=f'{len(per_ctx)} recording instant contexts call the same derived computations {sorted(everywhere)}')
    concrete = [c for c in model.subclasses('RotatingObject') if not model.is_abstract_class(c)]
    dynamic_calls = []
    for mod_, tree_ in model.trees.items():
        if mod_.endswith('/solver.py'):
            for c_ in ast.walk(tree_):
                if isinstance(c_, ast.Call) and isinstance(c_.func, ast.Call) and isinstance(c_.func.func, ast.Name) and c_.func.func.id == 'getattr':
                    dynamic_calls.append(f'`{ast.unparse(c_)[:50]}` at line {c_.lineno}')
    for cls in sorted(concrete):
        sx = SX(model)
        sx.opaque_calls |= OPAQUE
        sx.variable_kinds = VARIABLE_KINDS
        try:
            m, mu, adv, ctor_paths, rec, rec_paths, vals, multiple, raises, prefix = class_tables(model, sx, cls)
        except CannotDecide as e:
            rep.cannot('C17.computed', cls, str(e))
            continue
        for key, meth in DERIVED.items():
            if key not in rec:
                continue
            cands = comp.get(meth, set())
            ok, why = False, f'the solver never calls {meth} for a {cls}'
            for classes, flags in sorted(cands, key=lambda t: (sorted(t[0]), sorted(t[1]))):
                covered = (not classes) or any(c in model.classes and model.is_subclass(cls, c) for c in classes)
                if meth == 'compute_electric_current':
                    covered = covered and model.is_subclass(cls, 'MotorBase')
                if not covered:
                    continue
                if any(model.find_member(cls, f) is None for f in flags):
                    continue
                expr = ' and '.join(f'self.{f}' for f in sorted(flags)) or 'True'
                dnf = []
                for r in eval_in_state(sx, cls, expr):
                    if isinstance(r, Outcome):
                        continue
                    st, v = r
                    if isinstance(v, Bv) and v.b:
                        dnf.append(list(st.guards))
                    elif isinstance(v, Bsym):
                        dnf.append(list(st.guards) + [v.guard])
                code = [(g, key in ks) for g, ks in rec_paths]
                bad, atoms = truth_table(code, dnf)
                missing = [b for b in (bad or []) if 'code=True' in b[1]]
                if bad is None:
                    why = 'too many atoms'
                    continue
                if not missing:
                    ok, why = True, ''
                    break
                a = missing[0][0]
                why = (f'a {cls} records {key!r} while the solver calls {meth} only when {sorted(flags)} hold: for '
                       f'{[(str(k[1])[:50], v) for k, v in a.items()][:6]} a stale/None sample is appended')
            if not ok and not cands and dynamic_calls:
                # the solver calls methods whose NAME is data (`getattr(element, method)()` driven by a table): which computations
                # run is not something this rule can read off - undecided, not a verdict
                rep.cannot('C17.computed', f'{cls}[{key}]', f'the solver dispatches computations dynamically ({dynamic_calls[0]}); '
                           f'whether {meth} is among them is not decided', mu.loc)
                continue
            rep.decide(ok, 'C17.computed', f'{cls}[{key}]', why, loc=mu.loc)


def check_history_writers(model, rep, R='C17.reset'):
    """who may replace or empty a list of recorded samples: the element's own constructor / recorder (creation of its keys) and
    Powertrain.reset.  The samples belong to the elements, which several Powertrain objects may share; any other place that
    rebinds or clears `time_variables[...]` (e.g. the Powertrain constructor) destroys a history another object still indexes"""
    bad = []
    n = 0
    units = [(fname, None, mod, fn) for fname, (mod, fn) in model.functions.items()]
    for cname, ci in model.classes.items():
        for mem in ci.all_members():
            units.append((mem.qualname, cname, ci.module, mem.node))
    # allowed writers, closed under "private helper called only from allowed writers"
    allowed = {q for q, c, _, f in units if q == 'Powertrain.reset' or (c is not None and model.is_subclass(c, 'RotatingObject')
                                                                         and f.name in ('__init__', 'update_time_variables'))}
    callers = {}
    for q, c, _, f in units:
        for x in ast.walk(f):
            if isinstance(x, ast.Call):
                if isinstance(x.func, ast.Name) and x.func.id in model.functions:
                    callers.setdefault(x.func.id, set()).add(q)
                elif isinstance(x.func, ast.Attribute) and isinstance(x.func.value, ast.Name) and c is not None and x.func.value.id in ('self', 'cls', c) \
                        and x.func.attr.startswith('_') and not x.func.attr.endswith('__'):
                    mem = model.find_member(c, x.func.attr)
                    if mem is not None:
                        callers.setdefault(mem.qualname, set()).add(q)
    grew = True
    while grew:
        grew = False
        for q, cs in callers.items():
            if q not in allowed and cs and cs <= allowed:
                allowed.add(q)
                grew = True
    for qual, cname, mod, fn in units:
        if '/units/' in mod:
            continue
        n += 1
        if qual in allowed:
            continue
        aliases = set()
        for x in ast.walk(fn):
            if isinstance(x, ast.Assign) and len(x.targets) == 1 and isinstance(x.targets[0], ast.Name) \
                    and isinstance(x.value, ast.Attribute) and x.value.attr == 'time_variables':
                aliases.add(x.targets[0].id)

        def is_tv(e):
            return (isinstance(e, ast.Attribute) and e.attr == 'time_variables') or (isinstance(e, ast.Name) and e.id in aliases)
        for x in ast.walk(fn):
            if isinstance(x, ast.Subscript) and isinstance(x.ctx, (ast.Store, ast.Del)) and is_tv(x.value):
                bad.append((qual, mod, x.lineno, f'`{ast.unparse(x)[:50]}` is rebound'))
            if isinstance(x, ast.Call) and isinstance(x.func, ast.Attribute) and x.func.attr in ('clear', 'update', 'pop', 'popitem') and (
                    is_tv(x.func.value) or (isinstance(x.func.value, ast.Subscript) and is_tv(x.func.value.value) and x.func.attr in ('clear', 'pop'))):
                bad.append((qual, mod, x.lineno, f'`{ast.unparse(x)[:50]}`'))
    for qual, mod, ln, what in bad[:3]:
        rep.violation(R, f'{qual}:history-writer', f'{what} outside the elements\' own code and Powertrain.reset: the samples are shared by every Powertrain '
                      f'object built on these elements, whose time axis then no longer matches them', f'{mod}:{ln}')
    if not bad:
        rep.holds(R, 'time_variables:writers', f'{n} functions scanned: the recorded lists are replaced only by the elements themselves and by Powertrain.reset')


def check_kind(model, rep):
    sx = SX(model)
    for key, kind in VARIABLE_KINDS.items():
        attr = VARIABLE_ATTR[key]
        classes = [c for c in model.classes if not model.is_abstract_class(c) and model.is_subclass(c, 'RotatingObject')
                   and model.find_setter(c, attr)]
        bad = None
        for c in classes:
            st = model.find_setter(c, attr)
            outs = sx.run(st.node, st.module, c, Ov('self', c, True), {st.node.args.args[1].arg: Dyn(Rat.atom('v'))})
            for o in outs:
                if o.kind in ('fall', 'return'):
                    okp = any(g.kind == 'isinstance' and g.pol and g.key[1] == (kind,) for g in o.state.guards)
                    if not okp:
                        bad = c
        rep.decide(bad is None and bool(classes), 'C17.kind', f'setter[{attr}]',
                   f'the setter of {attr} on {bad} accepts a value that is not a {kind}', loc='')
        rep.inspect(len(classes))


def check_export(model, rep):
    if 'export_time_variables' not in model.functions:
        rep.cannot('C17.export', 'export_time_variables', 'function not found')
        return
    mod, fn = model.functions['export_time_variables']
    unit_map = None
    for n in ast.walk(fn):
        if isinstance(n, ast.Assign) and isinstance(n.value, ast.Dict) and len(n.value.keys) >= 8:
            unit_map = n.value
        # the same mapping written in two columns: dict(zip(<names>, <units>)) with the names in a module-level tuple
        if isinstance(n, ast.Assign) and isinstance(n.value, ast.Call) and isinstance(n.value.func, ast.Name) and n.value.func.id == 'dict' \
                and len(n.value.args) == 1 and isinstance(n.value.args[0], ast.Call) and isinstance(n.value.args[0].func, ast.Name) \
                and n.value.args[0].func.id == 'zip' and len(n.value.args[0].args) == 2:
            cols = []
            for a in n.value.args[0].args:
                if isinstance(a, ast.Name):
                    a = model.resolve_const(mod, a.id)[1]
                cols.append(a)
            if all(isinstance(c, (ast.Tuple, ast.List)) for c in cols) and len(cols[0].elts) == len(cols[1].elts) >= 8:
                unit_map = ast.copy_location(ast.Dict(keys=list(cols[0].elts), values=list(cols[1].elts)), n.value)
    if unit_map is None:
        rep.cannot('C17.export', 'export_time_variables', 'unit mapping not recognised', f'{mod}:{fn.lineno}')
        return
    keys = {k.value for k in unit_map.keys if isinstance(k, ast.Constant)}
    missing = sorted(set(VARIABLE_ATTR) - keys)
    rep.decide(not missing, 'C17.export', 'export_time_variables:mapping',
               f'recordable variables {missing} have no entry in the export unit mapping (export raises KeyError)', loc=f'{mod}:{unit_map.lineno}')


def check(model, rep):
    # hidden state Python keeps outside the objects (not modelled by the evaluator): reported before anything else is evaluated
    from checks.solver_common import package_lints as _package_lints
    _package_lints(model, rep, 'C17.hidden-state', ('/solver.py', '/powertrain.py', '/mechanical_objects/'))
    rep.explain('C17: for each of the six concrete element classes the constructor and update_time_variables are evaluated '
                'symbolically; per key, the advertise condition and the record condition are compared as exhaustive truth tables '
                'over the optional-data atoms (with constructor parameters mapped to the fields they are stored in); the data the '
                'conditions read must have no writer outside __init__; each key gets exactly one append of the element\'s own '
                'attribute; in the solver IR every instant has one time append and one unconditional recorder call over all '
                'elements, last among the writers; compute guards are implied by record guards; setters enforce kinds; reset and '
                'the export mapping are complete.')
    stable = check_classes(model, rep)
    check_stable(model, rep, stable)
    try:
        rm = check_pairing(model, rep)
        check_computed(model, rep, rm)
    except CannotDecide as e:
        rep.cannot('C17.pairing', 'Solver.run', str(e))
    check_compute_stores(model, rep)
    check_kind(model, rep)
    from sa.forwarding import check_forwarding
    check_forwarding(model, rep, 'C17.forwarding', tuple(VARIABLE_ATTR.values()) + ('time_variables',))
    from sa.forwarding import check_setter_stores
    check_setter_stores(model, rep, 'C17.setter-stores', tuple(VARIABLE_ATTR.values()))
    from checks.c12 import check_reset
    check_reset(model, rep, R='C17.reset')
    check_history_writers(model, rep)
    check_export(model, rep)
    rep.require('C17.guards', 40)
    rep.require('C17.one', 40)
    rep.require('C17.pairing', 1)
    rep.require('C17.computed', 8)
    rep.require('C17.kind', 10)
