"""C08 - DC motor torque and current follow the documented characteristic.

Decided clause: the piecewise laws coded in DCMotor.compute_torque / compute_electric_current
(guards with their operators and thresholds, coefficients, unit handling) are, as gated canonical
terms, the documented law; mirror symmetry and continuity at the dead-zone boundary are polynomial
identities of the *extracted* terms.  At the floating-point neighbours of the boundary only branch selection is decided
(C08.boundary-tests: all duty-cycle order tests compare the same operand terms; C08.boundary-division: a denominator
vanishing on the boundary is tested on its path); other rounding is not."""
from __future__ import annotations

from sa import sx as sxm
from sa.algebra import Rat
from sa.facts import positive_atoms, nonneg_atoms
from sa.match import SpecCtx, match_cases
from sa.sx import SX, Q, N, CannotDecide

SYMS = {
    'Tmax': 'self.maximum_torque', 'w': 'self.angular_speed', 'w0': 'self.no_load_speed', 'D': 'self.pwm',
    'imax': 'self.maximum_electric_current', 'i0': 'self.no_load_electric_current',
    'T': 'self.driving_torque',
}
COMPUTABLE = 'i0 is not None and imax is not None'
TORQUE_SPEC = [
    ('no-current-data:i0-missing', 'i0 is None', 'Tmax*(1 - w/w0)'),
    ('no-current-data:imax-missing', 'imax is None', 'Tmax*(1 - w/w0)'),
    ('dead-zone', COMPUTABLE + ' and abs(D) <= i0/imax', '0*Tmax'),
    ('positive', COMPUTABLE + ' and abs(D) > i0/imax and D > i0/imax',
     'Tmax*((D*imax - i0)/(imax - i0))*(1 - w/(D*w0))'),
    ('negative', COMPUTABLE + ' and abs(D) > i0/imax and D <= i0/imax',
     'Tmax*((D*imax + i0)/(imax - i0))*(1 - w/(D*w0))'),
]
CURRENT_SPEC = [
    ('dead-zone:i0=0', 'abs(D) <= i0/imax and i0/imax == 0', '0*imax'),
    ('dead-zone', 'abs(D) <= i0/imax and i0/imax != 0', 'D*imax'),
    ('positive', 'abs(D) > i0/imax and D > i0/imax',
     '(D*imax - i0)*(T/(Tmax*((D*imax - i0)/(imax - i0)))) + i0'),
    ('negative', 'abs(D) > i0/imax and D <= i0/imax',
     '(D*imax + i0)*(T/(Tmax*((D*imax + i0)/(imax - i0)))) - i0'),
]


def extract(sx: SX, model, meth, field_suffix):
    m = model.member('DCMotor', meth)
    outs = sx.run(m.node, m.module, 'DCMotor')
    paths, others = [], []
    for o in outs:
        stores = [e for e in o.state.effects if e[0] == 'store' and e[1] == 'self' and e[2].endswith(field_suffix)]
        if o.kind in ('fall', 'return'):
            if len(stores) != 1:
                others.append((o, f'{len(stores)} stores to {field_suffix}'))
                continue
            paths.append((list(o.state.guards), stores[0][3], stores[0][4]))
        else:
            others.append((o, f'raises {o.value}'))
    return m, paths, others


def check_boundary_divisions(model, rep, R='C08.boundary-division'):
    """floating-point neighbours of the dead-zone boundary: a denominator that vanishes exactly AT the boundary of the
    strict guard it sits under is non-zero over the reals, but the guard (`D > i0/imax`) and the denominator
    (`D*imax - i0`) are different floating-point expressions, so the first float outside the dead zone can make the
    denominator round to exactly 0 -> ZeroDivisionError.  Safe only if a test on the path reads the denominator's own
    variable, or compares the two operands of its cancelling subtraction directly."""
    import ast
    from sa.algebra import Rat
    for meth in ('compute_torque', 'compute_electric_current'):
        m = model.member('DCMotor', meth)
        sx = SX(model)
        sx.track_div_zero = True
        pos = positive_atoms(sx, 'DCMotor')
        sxm.POSITIVE_ATOMS.clear()
        sxm.POSITIVE_ATOMS.update(pos)
        try:
            sx.run(m.node, m.module, 'DCMotor')
        except CannotDecide as e:
            rep.cannot(R, f'DCMotor.{meth}', str(e), m.loc)
            continue
        ctx = sx.ctx
        # single-assignment locals of the method (to expand a denominator name one level)
        binds = {}
        for n in ast.walk(m.node):
            if isinstance(n, ast.Assign) and len(n.targets) == 1 and isinstance(n.targets[0], ast.Name):
                binds.setdefault(n.targets[0].id, []).append(n.value)
        seen = set()
        for node, den, guards, tested in sx.div_sites:
            if getattr(node, 'lineno', 0) < m.node.lineno or getattr(node, 'lineno', 0) > m.node.end_lineno:
                continue
            den = ctx.reduce(den)
            tight = None
            for g in guards:
                if g.kind != 'cmp' or g.key[0] not in ('<', '!=') or not sx.guard_sources.get((g.kind, g.key)):
                    continue          # only guards written as tests in the method (not derived case facts)
                # does the denominator vanish wherever the guard's difference does?
                if _vanishes_on(ctx, den, g.rat):
                    tight = g
                    break
            key = (node.lineno, ctx.show(den)[:60])
            if tight is None or key in seen:
                continue
            seen.add(key)
            # syntactic part: names the denominator is made of (one level of local expansion) and its cancelling subtractions
            dnode = node.right
            names = {ast.unparse(x) for x in ast.walk(dnode) if isinstance(x, (ast.Name, ast.Attribute))}
            subs = []
            todo = [dnode] + [v for x in ast.walk(dnode) if isinstance(x, ast.Name) for v in binds.get(x.id, [])]
            for t in todo:
                for x in ast.walk(t):
                    if isinstance(x, ast.BinOp) and isinstance(x.op, (ast.Sub, ast.Add)):
                        subs.append((ast.unparse(x.left), ast.unparse(x.right)))
            safe = False
            for g in [None]:
                for test in tested:
                    tnames = {ast.unparse(x) for x in ast.walk(test) if isinstance(x, (ast.Name, ast.Attribute))}
                    if isinstance(dnode, ast.Name) and dnode.id in tnames:
                        # ... against zero: `d == 0`, `d.value != 0`, or a bare truth test of it
                        zero_test = not isinstance(test, ast.Compare) or any(
                            isinstance(c, ast.Constant) and c.value == 0 and not isinstance(c.value, bool) for c in [test.left] + list(test.comparators))
                        if zero_test:
                            safe = True
                    if isinstance(test, ast.Compare) and len(test.ops) == 1:
                        sides = {ast.unparse(test.left), ast.unparse(test.comparators[0])}
                        if any({a, b} == sides for a, b in subs):
                            safe = True
            rep.decide(safe, R, f'DCMotor.{meth}[line-of `{ast.unparse(node)[:40]}`]',
                       f'the denominator `{ast.unparse(dnode)[:50]}` = {ctx.show(den)[:70]} vanishes exactly at the boundary of the guard '
                       f'`{tight.show(ctx)[:60]}` it sits under, and no test on the path reads it: at the first float outside the dead zone it can '
                       f'round to 0 and the division raises ZeroDivisionError', loc=f'{m.module}:{node.lineno}')
            rep.inspect()


def check_boundary_tests(model, rep, R='C08.boundary-tests'):
    """the dead zone's boundary and its floating-point neighbours: every test of the duty cycle in the two laws must
    compare the SAME two floating-point values (up to abs / sign, which are exact; order tests only - an equality
    test of a computed denominator is the division guard of C08.boundary-division, not a branch of the partition), otherwise two tests that agree
    over the reals (`|D| <= i0/imax` and `|D*imax| <= i0`) disagree at the float next to the boundary and the laws
    stop being a partition (a duty cycle is dead for the torque and live for the current, or falls into the branch
    of the opposite sign).  Decided on the two operand terms of each evaluated comparison, separately."""
    import ast
    from collections import Counter
    found = []
    for meth in ('compute_torque', 'compute_electric_current'):
        m = model.member('DCMotor', meth)
        sx = SX(model)
        sx.cmp_sides = []
        pos = positive_atoms(sx, 'DCMotor')
        sxm.POSITIVE_ATOMS.clear()
        sxm.POSITIVE_ATOMS.update(pos)
        try:
            sx.run(m.node, m.module, 'DCMotor')
        except CannotDecide as e:
            rep.cannot(R, f'DCMotor.{meth}', str(e), m.loc)
            continue
        ctx = sx.ctx
        spec = SpecCtx(sx, 'DCMotor', symbols=SYMS)
        atomD = next(iter(spec.term('D').atoms()))

        def canon(t):
            t = ctx.reduce(t)
            for sign in (1, -1):
                u = t if sign == 1 else -t
                if u.d.is_const() and len(u.n.t) == 1:
                    ats = list(u.atoms())
                    if len(ats) == 1 and ats[0] in ctx.defs and ctx.defs[ats[0]][0] == 'abs' and ctx.eq(u, Rat.atom(ats[0])):
                        t = ctx.reduce(ctx.defs[ats[0]][1][0])
                        break
            a, b = ctx.show(t), ctx.show(ctx.reduce(-t))
            return min(a, b)

        def mentions(t):
            todo, seen = list(t.atoms()), set()
            while todo:
                a = todo.pop()
                if a in seen:
                    continue
                seen.add(a)
                if a == atomD:
                    return True
                if a in ctx.defs:
                    for x in ctx.defs[a][1]:
                        if hasattr(x, 'atoms'):
                            todo.extend(x.atoms())
            return False
        seen_nodes = set()
        for node, op, l, r in sx.cmp_sides:
            if id(node) in seen_nodes or op in ('Eq', 'NotEq') or not (mentions(l) or mentions(r)):
                continue
            seen_nodes.add(id(node))
            found.append((meth, m, node, frozenset((canon(l), canon(r)))))
    rep.inspect(len(found))
    if not found:
        rep.violation(R, 'DCMotor', 'no test of the duty cycle found in the two laws')
        return
    ref = Counter(k for _, _, _, k in found).most_common(1)[0][0]
    for meth, m, node, k in found:
        src = ast.unparse(node)[:60]
        rep.decide(k == ref, R, f'DCMotor.{meth}[test `{src}`]',
                   f'this test compares {sorted(k)} while the other duty-cycle tests of the laws compare {sorted(ref)}: equal over the '
                   f'reals, different floating-point expressions - at the float next to the dead-zone boundary the tests disagree',
                   loc=f'{m.module}:{node.lineno}')
    rep.require(R, 6, 'two duty-cycle tests in each law, one truth-arithmetic instance per law')


def _vanishes_on(ctx, den, d) -> bool:
    """den == 0 wherever d == 0: solve d's numerator for an atom it is linear in and substitute into den"""
    from sa.algebra import Rat
    num = Rat(d.n)
    for a in sorted(d.n.atoms()):
        if a.startswith('F[') or '#' in a:
            continue
        v0, v1, v2 = (ctx.reduce(ctx.subst(num, {a: Rat.const(k)})) for k in (0, 1, 2))
        c1 = ctx.reduce(v1 - v0)
        if c1.is_zero() or not ctx.reduce(v2 - v1 - c1).is_zero():
            continue
        try:
            at = ctx.reduce(ctx.subst(den, {a: ctx.reduce(-v0 / c1)}))
        except ZeroDivisionError:
            return True
        return at.is_zero()
    return False


def check(model, rep):
    # hidden state Python keeps outside the objects (not modelled by the evaluator): reported before anything else is evaluated
    from checks.solver_common import package_lints as _package_lints
    _package_lints(model, rep, 'C08.hidden-state', ('/dc_motor.py',))
    rep.explain('C08: DCMotor.compute_torque / compute_electric_current evaluated by gated value numbering '
                '(sa.sx) into canonical rational terms over the motor constants, speed and duty cycle, '
                'in SI-magnitude space with symbolic unit factors; each specified case (guards incl. <= at '
                'the dead-zone boundary, term) is matched by guard compatibility; mirror symmetry and '
                'continuity are decided as polynomial identities of the extracted terms. '
                'Decides the code shape of the law; at the floating-point neighbours of the boundary only branch selection '
                '(same operand terms in every duty-cycle test, tested denominators).')
    # the laws must be functions of the present motor constants, speed and duty cycle only
    from sa.extract import purity_scan
    impure = False
    for meth, allowed in (('compute_torque', ('driving_torque',)), ('compute_electric_current', ('electric_current',))):
        mm = model.member('DCMotor', meth)
        bad = purity_scan(model, 'DCMotor', mm.node, allowed)
        rep.decide(not bad, 'C08.pure', f'DCMotor.{meth}',
                   f'the law is not a pure function of the motor state: it {bad[0][1] if bad else ""} - a value remembered from another '
                   f'evaluation (or another motor) can be returned', loc=f'{mm.module}:{bad[0][0] if bad else mm.node.lineno}')
        impure = impure or bool(bad)
    # branch selection by ARITHMETIC on truth values (`(D >= -t) + (D > t)`): right for Python numbers, wrong for numpy scalars, whose
    # comparisons give numpy.bool_ and numpy.bool_ + numpy.bool_ is a logical or (True + True is True, not 2).  The library hands the
    # motor such duty cycles itself (StartLimitCurrent computes its proposal with numpy.sqrt), so "for any duty cycle" includes them
    import ast as _ast
    for meth in ('compute_torque', 'compute_electric_current'):
        mm = model.member('DCMotor', meth)
        hit = None
        for x in _ast.walk(mm.node):
            if isinstance(x, _ast.BinOp) and isinstance(x.op, (_ast.Add, _ast.Sub, _ast.Mult)):
                for side in (x.left, x.right):
                    if isinstance(side, (_ast.Compare, _ast.BoolOp)) or (isinstance(side, _ast.UnaryOp) and isinstance(side.op, _ast.Not)):
                        hit = x
            if isinstance(x, _ast.Call) and isinstance(x.func, _ast.Name) and x.func.id == 'sum' and x.args and any(
                    isinstance(y, _ast.Compare) for y in _ast.walk(x.args[0])):
                hit = x
        rep.decide(hit is None, 'C08.boundary-tests', f'DCMotor.{meth}:truth-arithmetic',
                   f'`{_ast.unparse(hit)[:70] if hit is not None else ""}` selects the branch by arithmetic on comparison results: with a numpy scalar duty '
                   f'cycle (what StartLimitCurrent proposes) True + True is True, so a forward duty cycle is taken for a dead-zone one',
                   loc=f'{mm.module}:{hit.lineno if hit is not None else mm.node.lineno}')
    sx = SX(model)
    pos = positive_atoms(sx, 'DCMotor')
    sxm.POSITIVE_ATOMS.clear()
    sxm.POSITIVE_ATOMS.update(pos)
    sxm.NONNEG_ATOMS.clear()
    sxm.NONNEG_ATOMS.update(nonneg_atoms(sx, 'DCMotor') - pos)
    # the laws are stated for the motors the constructor admits (w0 > 0, Tmax > 0, imax > 0, i0 >= 0): the normal forms below use
    # these signs.  When they cannot be derived from the constructor (its validation was rewritten beyond the evaluator, or dropped -
    # which is C19's finding), a mismatch of terms would not be a verdict about the laws: undecided
    need_pos = {'self.no_load_speed', 'self.maximum_torque', 'self.maximum_electric_current'}
    missing = sorted(need_pos - pos) + sorted({'self.no_load_electric_current'} - pos - sxm.NONNEG_ATOMS)
    if missing:
        rep.cannot('C08.law', 'DCMotor.__init__:parameter-signs', f'the signs of {missing} are not established by the constructor as far as '
                   f'the evaluator can tell; the laws are compared under those signs')
        return
    ctx = sx.ctx
    spec = SpecCtx(sx, 'DCMotor', symbols=SYMS)
    show = sx.show

    laws = {}
    for meth, suffix, table, rule in (('compute_torque', '__driving_torque', TORQUE_SPEC, 'C08.law.torque'),
                                      ('compute_electric_current', '__electric_current', CURRENT_SPEC,
                                       'C08.law.current')):
        try:
            m, paths, others = extract(sx, model, meth, suffix)
        except CannotDecide as e:
            if impure:
                continue        # already reported as C08.pure; the memoising rewrite is outside the evaluator's idioms
            raise
        rep.inspect(len(paths) + len(others))
        for o, why in others:
            rep.violation(rule, f'DCMotor.{meth}[exit@{o.loc}]', f'a path through the method {why} '
                          f'without storing exactly one result', f'{m.module}:{o.loc}',
                          path_guards=[g.show(ctx)[:100] for g in o.state.guards])
        cases = []
        for name, g, t in table:
            try:
                cases.append((name, spec.guards(g), spec.value(t)))
            except Exception as e:
                if '(0 ways)' not in str(e):
                    raise
                # the case's condition contradicts what the constructor guarantees (e.g. i0 = 0 after a constructor
                # that demands i0 > 0): nothing to match; whether the constructor may demand that is C19's boundary rule
                rep.note(rule, f'DCMotor.{meth}[{name}]', 'specified case is excluded by the constructor\'s own validation', m.loc)
        match_cases(rep, rule, f'DCMotor.{meth}', m.loc, paths, cases, ctx, show)
        # unit soundness: no symbolic unit factor survives in a stored SI magnitude
        for pg, pv, ln in paths:
            t = ctx.reduce(pv.term)
            # a surviving factor shows as inequality with the F-free spec; direct test as well:
            leftover = [a for a in (t.n.atoms() | t.d.atoms()) if a.startswith('F[')]
            clean = True
            if leftover:
                # factors may appear in both numerator and denominator without cancelling textually;
                # decide by substituting two different values for each factor
                from fractions import Fraction
                a1 = ctx.subst(t, {a: Rat.const(1) for a in leftover})
                a2 = ctx.subst(t, {a: Rat.const(Fraction(7, 3)) for a in leftover})
                clean = ctx.eq(a1, a2)
            rep.decide(clean, 'C08.units', f'DCMotor.{meth}[line-{"store"}@{len(pg)}g:{paths.index((pg, pv, ln))}]',
                       'the stored value depends on the unit a motor constant is expressed in '
                       '(a symbolic unit factor does not cancel)', loc=f'{m.module}:{ln}',
                       extracted=show(pv)[:300])
        laws[meth] = (m, paths)
    if not impure:
        rep.require('C08.law.torque', 5, 'five specified torque cases')
        rep.require('C08.law.current', 4, 'four specified current cases')
    if impure and len(laws) < 2:
        return

    # ---- mirror symmetry and continuity on the extracted terms
    def pick(meth, guard_expr):
        m, paths = laws[meth]
        from sa.match import compatible
        sg = spec.guards(guard_expr)
        hits = [p for p in paths if compatible(p[0], sg, ctx)]
        return m, hits

    D = spec.term('D')
    w = spec.term('w')
    atomD = next(iter(D.atoms()))
    atomW = next(iter(w.atoms()))
    Tatom = next(iter(spec.term('T').atoms()))
    lim = spec.term('i0/imax')
    for meth, rule_m, rule_c in (('compute_torque', 'C08.mirror.torque', 'C08.continuity.torque'),
                                 ('compute_electric_current', 'C08.mirror.current', 'C08.continuity.current')):
        comp = COMPUTABLE + ' and ' if meth == 'compute_torque' else ''
        m, posp = pick(meth, comp + 'abs(D) > i0/imax and D > i0/imax')
        _, negp = pick(meth, comp + 'abs(D) > i0/imax and D <= i0/imax')
        if len(posp) != 1 or len(negp) != 1:
            rep.cannot(rule_m, f'DCMotor.{meth}', f'expected one positive and one negative branch, found '
                       f'{len(posp)}/{len(negp)}', m.loc)
            continue
        tpos, tneg = posp[0][1].term, negp[0][1].term
        mapping = {atomD: -D, atomW: -w}
        if meth == 'compute_electric_current':
            mapping[Tatom] = -Rat.atom(Tatom)
        mirrored = ctx.subst(tneg, mapping)
        rep.decide(ctx.eq(mirrored, -tpos), rule_m, f'DCMotor.{meth}',
                   'reversing both duty cycle and speed in the negative branch does not give minus the '
                   'positive branch', loc=m.loc, extracted=show(N(mirrored))[:300], oracle=show(N(-tpos))[:300])
        # continuity at D = i0/imax (positive side) and D = -i0/imax (negative side)
        if meth == 'compute_torque':
            at_pos = ctx.subst(tpos, {atomD: lim})
            at_neg = ctx.subst(tneg, {atomD: -lim})
            ok = at_pos.is_zero() and at_neg.is_zero()
            rep.decide(ok, rule_c, 'DCMotor.compute_torque',
                       'the outer-branch torque does not vanish at the dead-zone boundary |D| = i0/imax',
                       loc=m.loc, extracted=f'T(+lim)={show(N(at_pos))[:120]}; T(-lim)={show(N(at_neg))[:120]}')
        else:
            mt, tp = pick('compute_torque', COMPUTABLE + ' and abs(D) > i0/imax and D > i0/imax')
            _, tn = pick('compute_torque', COMPUTABLE + ' and abs(D) > i0/imax and D <= i0/imax')
            if len(tp) != 1 or len(tn) != 1:
                rep.cannot(rule_c, 'DCMotor.compute_electric_current', 'torque branches not unique', m.loc)
                continue
            i_pos = ctx.subst(ctx.subst(tpos, {Tatom: tp[0][1].term}), {atomD: lim})
            i_neg = ctx.subst(ctx.subst(tneg, {Tatom: tn[0][1].term}), {atomD: -lim})
            i0 = spec.term('i0')
            ok = ctx.eq(i_pos, i0) and ctx.eq(i_neg, -i0)
            rep.decide(ok, rule_c, 'DCMotor.compute_electric_current',
                       'with the torque law substituted, the outer-branch current at |D| = i0/imax is not '
                       'the dead-zone value D*imax = +-i0', loc=m.loc,
                       extracted=f'i(+lim)={show(N(i_pos))[:120]}; i(-lim)={show(N(i_neg))[:120]}')
    if not impure:
        rep.require('C08.mirror', 2)
        rep.require('C08.continuity', 2)
    check_boundary_divisions(model, rep)
    check_boundary_tests(model, rep)
    sxm.NONNEG_ATOMS.clear()
    rep.analysed['methods'] = ['DCMotor.compute_torque', 'DCMotor.compute_electric_current', 'DCMotor.__init__']
    rep.analysed['positive_facts_from_ctor'] = sorted(pos)
    # the formulas' quantity arithmetic is interpreted natively; the operator triples actually met are re-read from C06's dispatch model
    from checks.solver_common import absorb_arith
    used = sorted(t for t in sx.arith_log)
    absorb_arith(model, rep, 'C08.dep.arith', used)
    rep.analysed['operator_triples_used'] = [' '.join(t) for t in used]
    rep.assume('quantity operators and comparisons are unit-blind and dimensionally sound (decided by C05/C06)')
    rep.assume('equality of formulas is over the reals; floating-point re-association is rounding')
