"""C10 - declaring a mating or joint sets a consistent, validated relation.

* C10.effects  on every accepting path each relation function assigns exactly the specified links, roles,
               ratio, efficiency and (worm) self-locking criterion - as canonical terms, per isinstance branch
* C10.rejects  every incompatible pair named by the property is rejected: no accepting path is compatible
               with the forbidden condition
* C10.atomic   validate-before-mutate: no raising path (explicit raise, raising setter evaluated on the actual
               argument under the path's guards, division by a possibly-zero number) has a store to master or
               slave before it
* C10.range    every master_gear_ratio setter rejects non-float and <= 0, every master_gear_efficiency setter
               rejects values outside [0, 1]; nothing else writes those private fields
"""
from __future__ import annotations

import ast

from sa import sx as sxm
from sa.algebra import Rat
from sa.match import SpecCtx, compatible, value_equal
from sa.sx import SX, Q, N, Dyn, Ov, Cv, Bsym, Bv, Outcome, CannotDecide, implies, make_cmp

POSITIVE = {'master.n_teeth', 'slave.n_teeth', 'master.n_starts', 'slave.n_starts'}
WORM_FWD = 'isinstance(master, WormGear) and isinstance(slave, WormWheel)'

SPEC = {
    'add_gear_mating': {
        'params': {'efficiency': 'efficiency'},
        'branches': [('any', '', {
            ('master', 'drives'): 'slave', ('master', 'mating_role'): 'MatingMaster',
            ('slave', 'driven_by'): 'master', ('slave', 'mating_role'): 'MatingSlave',
            ('slave', 'master_gear_ratio'): 'slave.n_teeth/master.n_teeth',
            ('slave', 'master_gear_efficiency'): 'efficiency'})],
        'forbidden': [
            ('master not a gear', 'not isinstance(master, GearBase)'),
            ('slave not a gear', 'not isinstance(slave, GearBase)'),
            ('same element', 'master == slave'),
            ('efficiency > 1', 'efficiency > 1'),
            ('efficiency < 0', 'efficiency < 0'),
            ('different module', 'isinstance(master, GearBase) and isinstance(slave, GearBase) and master.module is not None and slave.module is not None and master.module != slave.module'),
            ('different helix angle', "isinstance(master, GearBase) and isinstance(slave, GearBase) and hasattr(master, 'helix_angle') and hasattr(slave, 'helix_angle') and master.helix_angle != slave.helix_angle"),
            ('helical master with spur slave', "isinstance(master, GearBase) and isinstance(slave, GearBase) and hasattr(master, 'helix_angle') and not hasattr(slave, 'helix_angle')"),
            ('spur master with helical slave', "isinstance(master, GearBase) and isinstance(slave, GearBase) and not hasattr(master, 'helix_angle') and hasattr(slave, 'helix_angle')"),
        ]},
    'add_worm_gear_mating': {
        'params': {'friction_coefficient': 'f'},
        'branches': [
            ('worm drives wheel', WORM_FWD, {
                ('master', 'drives'): 'slave', ('master', 'mating_role'): 'MatingMaster',
                ('slave', 'driven_by'): 'master', ('slave', 'mating_role'): 'MatingSlave',
                ('slave', 'master_gear_ratio'): 'slave.n_teeth/master.n_starts',
                ('slave', 'master_gear_efficiency'):
                    '(master.pressure_angle.cos() - f*master.helix_angle.tan())/(master.pressure_angle.cos() + f/master.helix_angle.tan())',
                ('master', 'self_locking'): 'f > master.pressure_angle.cos()*master.helix_angle.tan()'}),
            ('wheel drives worm', 'isinstance(master, WormWheel) and isinstance(slave, WormGear)', {
                ('master', 'drives'): 'slave', ('master', 'mating_role'): 'MatingMaster',
                ('slave', 'driven_by'): 'master', ('slave', 'mating_role'): 'MatingSlave',
                ('slave', 'master_gear_ratio'): 'slave.n_starts/master.n_teeth',
                ('slave', 'master_gear_efficiency'):
                    '(master.pressure_angle.cos() - f/master.helix_angle.tan())/(master.pressure_angle.cos() + f*master.helix_angle.tan())',
                ('slave', 'self_locking'): 'f > slave.pressure_angle.cos()*slave.helix_angle.tan()'})],
        'forbidden': [
            ('master not a worm element', 'not isinstance(master, WormGear | WormWheel)'),
            ('slave not a worm element', 'not isinstance(slave, WormGear | WormWheel)'),
            ('two worms', 'isinstance(master, WormGear) and isinstance(slave, WormGear)'),
            ('two wheels', 'isinstance(master, WormWheel) and isinstance(slave, WormWheel)'),
            ('friction > 1', 'f > 1'),
            ('friction < 0', 'f < 0'),
            ('different pressure angle', 'isinstance(master, WormGear | WormWheel) and isinstance(slave, WormGear | WormWheel) and master.pressure_angle != slave.pressure_angle'),
        ]},
    'add_fixed_joint': {
        'params': {},
        'branches': [('any', '', {
            ('master', 'drives'): 'slave', ('slave', 'driven_by'): 'master',
            ('slave', 'master_gear_ratio'): '1.0'})],
        'forbidden': [
            ('master not a rotating object', 'not isinstance(master, RotatingObject)'),
            ('slave not a rotating object', 'not isinstance(slave, RotatingObject)'),
            ('motor as slave', 'isinstance(slave, MotorBase)'),
            ('same element', 'master == slave'),
        ]},
}


def _args(fname):
    a = {'master': Ov('master', None), 'slave': Ov('slave', None)}
    for p, atom in SPEC[fname]['params'].items():
        a[p] = Dyn(Rat.atom(atom))
    return a


def _same(sx, a, b):
    if isinstance(a, Ov) and isinstance(b, Ov):
        return a.path == b.path
    if isinstance(a, Cv) and isinstance(b, Cv):
        return a.name == b.name
    if isinstance(a, (Bsym,)) and isinstance(b, (Bsym,)):
        return a.guard.same(b.guard)
    if hasattr(a, 'term') and hasattr(b, 'term'):
        return sx.ctx.eq(a.term, b.term)
    return False


def check_function(model, rep, fname):
    spec = SPEC[fname]
    mod, node = model.function(fname)
    loc = f'{mod}:{node.lineno}'
    sx = SX(model)
    sx.model_setters = True
    sx.track_div_zero = True
    ctx = sx.ctx
    try:
        outs = sx.run(node, mod, None, None, _args(fname))
    except CannotDecide as e:
        rep.cannot('C10.effects', fname, str(e), loc)
        return
    rep.inspect(len(outs))
    accepting = [o for o in outs if o.kind in ('fall', 'return')]
    raising = [o for o in outs if o.kind == 'raise']
    if not accepting:
        rep.violation('C10.effects', fname, 'no accepting path', loc)
        return

    def spec_ctx(narrow_expr=''):
        env = _args(fname)
        for p, atom in spec['params'].items():
            env[atom] = env.pop(p) if p != atom else env[p]
        sc = SpecCtx(sx, None, module=mod, env=env)
        # narrow master/slave the way the accepted path does
        if narrow_expr:
            n = ast.parse(narrow_expr, mode='eval').body
            tr, fa, rs = sx.branch(n, sc.state(), sc.frame)
            if len(tr) == 1:
                sc.env = tr[0].env
                return sc, list(tr[0].guards)
        return sc, []

    # ---- effects
    for bname, bexpr, want in spec['branches']:
        # evaluate the spec after the function's own type checks narrowed the operands
        base_narrow = {'add_gear_mating': 'isinstance(master, GearBase) and isinstance(slave, GearBase)',
                       'add_worm_gear_mating': bexpr,
                       'add_fixed_joint': 'isinstance(master, RotatingObject) and isinstance(slave, RotatingObject)'}[fname]
        sc, bguards = spec_ctx(base_narrow)
        if fname != 'add_worm_gear_mating':
            bguards = []
        paths = [o for o in accepting if compatible(list(o.state.guards), bguards, ctx)]
        cons = f'{fname}[{bname}]'
        if not paths:
            rep.violation('C10.effects', cons, 'no accepting path for this operand combination', loc)
            continue
        ok, why, line = True, '', node.lineno
        for o in paths:
            final = {}
            for e in o.state.effects:
                if e[0] == 'store':
                    final[(e[1], e[2])] = (e[3], e[4])
            for key, expr in want.items():
                if key not in final:
                    ok, why = False, f'{key[0]}.{key[1]} is not assigned'
                    break
                try:
                    wv = sc.value(expr)
                except CannotDecide as e:
                    ok, why = False, f'spec not evaluable: {e}'
                    break
                if not _same(sx, final[key][0], wv):
                    ok, why, line = False, (f'{key[0]}.{key[1]} = `{sx.show(final[key][0])[:160]}`, specified '
                                            f'`{sx.show(wv)[:160]}`'), final[key][1]
                    break
            extra = sorted(k for k in final if k not in want)
            if ok and extra:
                ok, why = False, f'unexpected assignments {extra}'
            if not ok:
                break
        rep.decide(ok, 'C10.effects', cons, why, detail=f'{len(paths)} accepting path(s), {len(want)} assignments each',
                   loc=f'{mod}:{line}')

    # ---- rejections
    for name, expr in spec['forbidden']:
        sc, _ = spec_ctx('')
        try:
            dnf = sc.guard_dnf(expr)
        except CannotDecide as e:
            rep.cannot('C10.rejects', f'{fname}[{name}]', str(e), loc)
            continue
        leak = None
        for conj in dnf:
            for o in accepting:
                if compatible(list(o.state.guards), conj, ctx):
                    leak = o
                    break
            if leak:
                break
        rejected = any(any(compatible(list(o.state.guards), conj, ctx) for conj in dnf) for o in raising)
        ok = leak is None and rejected
        rep.decide(ok, 'C10.rejects', f'{fname}[{name}]',
                   'an accepting path is compatible with the forbidden condition (rejection missing or weakened)'
                   if leak is not None else 'no raising path for the forbidden condition', loc=loc,
                   **({'path_guards': [g.show(ctx)[:90] for g in leak.state.guards][-8:]} if leak is not None else {}))

    # ---- atomicity
    bad = []
    for o in outs:
        if o.kind == 'raise':
            idx_stores = [i for i, e in enumerate(o.state.effects) if e[0] == 'store' and e[1] in ('master', 'slave')]
            if idx_stores:
                cause = [e for e in o.state.effects if e[0] == 'setter-raise']
                what = (f'the setter of {cause[-1][1]}.{cause[-1][2]} can raise {cause[-1][3]}' if cause
                        else f'`raise {o.value}`')
                n_before = len(idx_stores)
                bad.append((o.loc, f'{what} at line {o.loc} after {n_before} assignment(s) to master/slave were made'))
        dz = [(i, e) for i, e in enumerate(o.state.effects) if e[0] == 'may-div-zero']
        for i, e in dz:
            if any(x[0] == 'store' and x[1] in ('master', 'slave') for x in o.state.effects[:i]):
                bad.append((e[2], f'division by the possibly-zero `{e[1]}` at line {e[2]} after assignments to master/slave '
                                  f'(ZeroDivisionError would leave a half-declared relation)'))
    # a truth value computed from caller-supplied numbers is a numpy.bool_ when those are numpy scalars (numpy.float64 IS a float
    # for isinstance, so the type checks accept it); a setter that insists on `bool` then raises TypeError - after the assignments made
    # before it.  `bool(...)` around the comparison, or assigning it first, discharges the obligation.
    top = [x for x in ast.walk(node) if isinstance(x, ast.Assign) and len(x.targets) == 1]
    attr_assigns = sorted([x for x in top if isinstance(x.targets[0], ast.Attribute)], key=lambda x: x.lineno)
    locals_ = {}
    for x in top:
        if isinstance(x.targets[0], ast.Name):
            locals_.setdefault(x.targets[0].id, []).append(x.value)
    for k, x in enumerate(attr_assigns):
        v = x.value
        if isinstance(v, ast.Name) and len(locals_.get(v.id, [])) == 1:
            v = locals_[v.id][0]
        raw_truth = isinstance(v, (ast.Compare, ast.BoolOp)) or (isinstance(v, ast.UnaryOp) and isinstance(v.op, ast.Not))
        if not raw_truth or k == 0:
            continue
        attr = x.targets[0].attr
        strict = False
        for cname, ci in model.classes.items():
            st_ = ci.setters.get(attr)
            if st_ is not None and any(isinstance(c, ast.Call) and isinstance(c.func, ast.Name) and c.func.id == 'isinstance' and len(c.args) == 2
                                       and isinstance(c.args[1], ast.Name) and c.args[1].id == 'bool' for c in ast.walk(st_.node)):
                strict = True
        if strict:
            bad.append((x.lineno, f'`{ast.unparse(x.targets[0])} = {ast.unparse(v)[:50]}`: the value is a raw comparison result - a numpy.bool_ for numpy '
                                  f'scalar arguments - and the setter of {attr} accepts only bool: TypeError at line {x.lineno} after {k} assignment(s) '
                                  f'to master/slave were made'))
    if bad:
        seen = set()
        for ln, what in bad:
            if what in seen:
                continue
            seen.add(what)
            rep.violation('C10.atomic', fname, what, f'{mod}:{ln}')
            if len(seen) >= 3:
                break
    else:
        rep.holds('C10.atomic', fname, f'{len(raising)} raising path(s), none after a mutation; setter obligations '
                  f'discharged or first', loc)


def check_setters(model, rep):
    sx = SX(model)
    for attr, good, badexprs in (
            ('master_gear_ratio', 'v > 0', ['v <= 0']),
            ('master_gear_efficiency', 'v <= 1 and v >= 0', ['v > 1', 'v < 0'])):
        classes = [c for c in model.classes if not model.is_abstract_class(c) and model.find_setter(c, attr)]
        for c in sorted(classes):
            st = model.find_setter(c, attr)
            rep.inspect()
            pname = st.node.args.args[1].arg
            outs = sx.run(st.node, st.module, c, Ov('self', c, True), {pname: Dyn(Rat.atom('v'))})
            done = [o for o in outs if o.kind in ('fall', 'return')]
            sc = SpecCtx(sx, c, env={'v': N(Rat.atom('v'))})
            gs = sc.guards(good)
            ok = bool(done) and all(all(implies(o.state.guards, g) for g in gs) for o in done)
            # type rejection
            types = ('float',) if attr == 'master_gear_ratio' else ('float', 'int')
            typed = all(any(g.kind == 'isinstance' and g.pol and set(g.key[1]) <= set(types) for g in o.state.guards)
                        for o in done)
            stored = all(any(e[0] == 'store' and e[2].endswith('__' + attr) for e in o.state.effects) for o in done)
            rep.decide(ok and typed and stored, 'C10.range', f'{c}.{attr}[setter]',
                       f'setter can store a value violating `{good}` or of another type', loc=st.loc)
        # writers of the private field
        for c, ci in model.classes.items():
            for m in ci.all_members():
                for n in ast.walk(m.node):
                    if isinstance(n, ast.Attribute) and isinstance(n.ctx, ast.Store) and n.attr == '__' + attr:
                        if not (m.kind == 'setter' and m.name == attr) and m.name != '__init__':
                            rep.violation('C10.range', f'{m.qualname}', f'writes the private field __{attr} bypassing the setter',
                                          f'{m.module}:{n.lineno}')
                        elif m.name == '__init__':
                            v = None
                            # the default must be None or 1
                            par = [a for a in ast.walk(m.node) if isinstance(a, ast.Assign) and n in a.targets]
                            if par and not (isinstance(par[0].value, ast.Constant) and par[0].value.value in (None, 1, 1.0)):
                                rep.violation('C10.range', f'{m.qualname}', f'initialises __{attr} with `{ast.unparse(par[0].value)}`',
                                              f'{m.module}:{n.lineno}')
    rep.require('C10.range', 8)


def check_exact_after_conversion(model, rep):
    """`a.to(u) != b.to(u)`: two quantities in the same unit are compared EXACTLY (the tolerance that absorbs conversion round-off is
    only applied between different units), and the conversion just rounded them - gears whose angle or module is the same magnitude
    written in different units (14.5 deg and its value in rad) then count as different and a valid pair is refused.  The
    compatibility tests must compare the elements' quantities themselves."""
    n = 0
    for fname in SPEC:
        mod, fn = model.functions[fname]
        binds = {}
        for a in ast.walk(fn):
            if isinstance(a, ast.Assign) and len(a.targets) == 1 and isinstance(a.targets[0], ast.Name):
                binds.setdefault(a.targets[0].id, []).append(a.value)

        def conv_unit(e):
            if isinstance(e, ast.Name) and len(binds.get(e.id, ())) == 1:
                e = binds[e.id][0]
            if isinstance(e, ast.Call) and isinstance(e.func, ast.Attribute) and e.func.attr == 'to' and (e.args or e.keywords):
                u = e.args[0] if e.args else next((k.value for k in e.keywords if k.arg == 'target_unit'), None)
                if isinstance(u, ast.Constant) and isinstance(u.value, str):
                    return u.value
            return None
        bad = None
        for c in ast.walk(fn):
            if isinstance(c, ast.Compare) and len(c.ops) == 1 and isinstance(c.ops[0], (ast.Eq, ast.NotEq)):
                n += 1
                ul, ur = conv_unit(c.left), conv_unit(c.comparators[0])
                if ul is not None and ul == ur:
                    bad = bad or c
        rep.decide(bad is None, 'C10.rejects', f'{fname}:exact-compare-after-conversion',
                   f'`{ast.unparse(bad)[:70] if bad is not None else ""}` compares two quantities after converting both to the same unit: same-unit '
                   f'comparison is exact, so equal magnitudes written in different units differ by the conversion round-off and a compatible pair is refused',
                   loc=f'{mod}:{bad.lineno if bad is not None else fn.lineno}')
    rep.inspect(n)


def check(model, rep):
    # hidden state Python keeps outside the objects (not modelled by the evaluator): reported before anything else is evaluated
    from checks.solver_common import package_lints as _package_lints
    _package_lints(model, rep, 'C10.hidden-state', ('/utils/relations.py', '/mechanical_objects/'))
    from checks.solver_common import absorb_cmp
    absorb_cmp(model, rep, 'C10.dep.cmp', ('Angle', 'Length'))
    rep.explain('C10: the three relation functions evaluated symbolically with master/slave of unknown class (class '
                'knowledge only through the functions\' own isinstance checks); accepting paths must perform exactly the '
                'specified assignments (links, roles, ratio, efficiency formula, self-locking criterion) per operand '
                'combination; every forbidden operand condition must be incompatible with all accepting paths; no raising '
                'path - including setters evaluated on the actual argument and divisions by possibly-zero numbers - may '
                'follow a store to either element (validate-before-mutate); ratio/efficiency setters enforce their ranges.')
    sxm.POSITIVE_ATOMS.clear()
    sxm.POSITIVE_ATOMS.update(POSITIVE)
    for f in SPEC:
        check_function(model, rep, f)
    sxm.POSITIVE_ATOMS.clear()
    check_exact_after_conversion(model, rep)
    check_setters(model, rep)
    from sa.forwarding import check_forwarding
    from sa.forwarding import check_trig
    check_trig(model, rep, 'C10.trig')
    check_forwarding(model, rep, 'C10.forwarding', ('drives', 'driven_by', 'mating_role', 'master_gear_ratio', 'master_gear_efficiency', 'self_locking'))
    from sa.forwarding import check_setter_stores
    check_setter_stores(model, rep, 'C10.setter-stores', ('drives', 'driven_by', 'mating_role', 'master_gear_ratio', 'master_gear_efficiency', 'self_locking'))
    rep.require('C10.effects', 4)
    rep.require('C10.rejects', 20)
    rep.require('C10.atomic', 3)
    rep.assume('teeth and start numbers are positive integers (enforced by the gear constructors, C19.params)')
    rep.assume('trigonometric values of validated angles are finite')
