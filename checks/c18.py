"""C18 - snapshot and export report the recorded history faithfully (structural clause).

* C18.own-guard  snapshot's column-writing part evaluated abstractly for one element of every concrete class and every
                 single-variable selection [v]: a column is written iff the element records v (its own computability
                 flag; flags implied by it may be tested too) - no other column, no dependence on other variables
* C18.pairing    the written label is `v (<v's own unit parameter>)` and the cells are one converted value per sample of
                 time_variables[v], each SI(sample)/F[that same unit]; predeclared columns use the same labels
* C18.interp     the cell is interp1d(x, y)(q) with x the recorded instants and q the target time as the same function of
                 an instant (same time unit), default/linear kind
* C18.range      every instant of the simulated interval, first and last included, is admitted
* C18.pure       snapshot keeps no state on the powertrain (no cached axis)
* C18.export     export: one column per recorded key, label unit == conversion unit from the mapping, time column in
                 time_unit, index=False; Powertrain.export_time_variables forwards every unit to the same-named
                 parameter
Not decided: numeric interpolation results."""
from __future__ import annotations

import ast
import re

from sa.srcmodel import strip_docstring, walk_no_nested
from sa import sx as sxm
from sa.spec.variables import VARIABLE_KINDS
from sa.sx import SX, Sv, Tv, Uv, U, Ov, Seq, Unk, CannotDecide

UNIT_PARAM = {
    'angular position': 'angular_position_unit', 'angular speed': 'angular_speed_unit',
    'angular acceleration': 'angular_acceleration_unit', 'torque': 'torque_unit', 'driving torque': 'driving_torque_unit',
    'load torque': 'load_torque_unit', 'tangential force': 'force_unit', 'bending stress': 'stress_unit',
    'contact stress': 'stress_unit', 'electric current': 'current_unit', 'pwm': None,
}
FLAG_OF = {'tangential force': {'tangential_force_is_computable'},
           'bending stress': {'tangential_force_is_computable', 'bending_stress_is_computable'},
           'contact stress': {'tangential_force_is_computable', 'bending_stress_is_computable', 'contact_stress_is_computable'},
           'electric current': {'electric_current_is_computable'}}










RECORDERS = {            # which element classes record a variable (subclass test), and under which computability flags
    'pwm': ('MotorBase',), 'electric current': ('MotorBase',),
    'tangential force': ('GearBase', 'WormGear'), 'bending stress': ('GearBase',), 'contact stress': ('GearBase',),
}


def check_snapshot(model, rep):
    """the column-writing part of Powertrain.snapshot evaluated abstractly for one element of every concrete class and
    every single-variable selection [v]: loops over the element tuple, the zip of literal lists and the guarded work lists
    are unrolled over concrete lists, the recorded lists and the time axis are abstract sequences (comprehensions over them
    are map values), interp1d(...) is a recorded constructor whose call yields an atom.  However the statements are
    spelled (locals, helpers, one return), the writes and their cells are what is compared."""
    from sa import sx as sxm
    from sa.algebra import Rat
    from sa.spec.variables import VARIABLE_KINDS
    from sa.sx import SX, Sv, Tv, Uv, U, Ov, Seq, Unk, Mv, N, Q, Bv, Fv, CannotDecide
    import ast as _ast
    m = model.member('Powertrain', 'snapshot')
    body = strip_docstring(m.node.body)
    frames = [i for i, n in enumerate(body) if isinstance(n, ast.Assign) and isinstance(n.value, ast.Call)
              and ast.unparse(n.value.func).endswith('DataFrame')]
    if len(frames) != 1 or not isinstance(body[frames[0]].targets[0], ast.Name):
        rep.cannot('C18.own-guard', 'Powertrain.snapshot', 'creation of the result frame not found', m.loc)
        return set()
    table = body[frames[0]].targets[0].id
    tail = body[frames[0] + 1:]
    classes = sorted(c for c in model.subclasses('RotatingObject') if not model.is_abstract_class(c))
    T = Rat.atom('T')
    seen_vars = set()
    problems = {v: {'own': None, 'flags': None, 'pair': None, 'interp': None} for v in UNIT_PARAM}
    n_eval = 0
    for cls in classes:
        for v, param in UNIT_PARAM.items():
            sx = SX(model)
            sx.eval_comprehensions = True
            sx.variable_kinds = VARIABLE_KINDS
            sx.opaque_calls |= {f for fl in FLAG_OF.values() for f in fl}
            sxm.POSITIVE_ATOMS.clear()
            interps = []

            def hook(sx_, n, f, recv, args, kwargs, st, frame, interps=interps):
                if isinstance(f, ast.Name) and f.id == 'interp1d' or (isinstance(f, ast.Attribute) and f.attr == 'interp1d'):
                    interps.append({'args': list(args), 'kw': dict(kwargs), 'queries': []})
                    return [(st, Fv(f'interp#{len(interps) - 1}'))]
                fun = st.env.get(f.id) if isinstance(f, ast.Name) else (recv if isinstance(f, ast.Call) else None)
                if isinstance(fun, Fv) and fun.name.startswith('interp#'):
                    k = int(fun.name.split('#')[1])
                    interps[k]['queries'].append(args[0] if args else None)
                    return [(st, N(Rat.atom(f'interp#{k}@{len(interps[k]["queries"]) - 1}'), 'float'))]
                return None
            sx.call_hook = hook
            el = Ov('el', cls, True)
            env = {'self': Ov('self', 'Powertrain', True), 'variables': Tv([Sv(v)]), 'target_time': Q('Time', T, U(sym='tq')),
                   table: Unk(table), 'print_data': Bv(False)}
            for a in m.node.args.args + m.node.args.kwonlyargs:
                if a.arg.endswith('_unit'):
                    env[a.arg] = Uv(U(sym=a.arg))
            st = sxm.State(env=env)
            st.heap[('self', 'elements')] = Tv([el], 'tuple')
            st.heap[('self', 'time')] = Seq('self.time', ('q', 'Time'))
            st.heap[('el', 'name')] = Sv('el')
            frame = {'module': m.module, 'cls': 'Powertrain', 'fn': m.node, 'depth': 0}
            try:
                # constant mappings bound before the frame is created (the variable -> unit-parameter dict) are part of the context
                pre_maps = [n for n in body[:frames[0]] if isinstance(n, ast.Assign) and isinstance(n.value, ast.Dict)
                            and len(n.targets) == 1 and isinstance(n.targets[0], ast.Name)]
                if pre_maps:
                    pre_outs = [o for o in sx.block(pre_maps, [st], frame) if o.kind == 'fall']
                    if len(pre_outs) == 1:
                        st = pre_outs[0].state
                outs = sx.block(tail, [st], frame)
            except CannotDecide as e:
                rep.cannot('C18.own-guard', f'Powertrain.snapshot[{v}]', f'{e} (element class {cls})', m.loc)
                return seen_vars
            n_eval += len(outs)
            records = v not in RECORDERS or any(model.is_subclass(cls, b) for b in RECORDERS[v])
            F = FLAG_OF.get(v, set())
            want_label = v if param is None else f'{v} (<{param}>)'
            P = problems[v]
            for o in outs:
                if o.kind == 'raise':
                    P['own'] = P['own'] or (f'with only {v!r} selected the snapshot of a {cls} raises {o.value}', o.loc)
                    continue
                writes = [e for e in o.state.effects if e[0] == 'setitem' and e[1].startswith(table)]
                flags = {}
                for g in o.state.guards:
                    if g.kind == 'truth' and isinstance(g.key[0], str) and g.key[0].startswith('el.') and g.key[0].endswith('_is_computable'):
                        flags[g.key[0][3:]] = g.pol
                labels = []
                for e in writes:
                    idx = e[5] if len(e) > 5 else None
                    lab = idx.items[1].s if isinstance(idx, Tv) and len(idx.items) == 2 and isinstance(idx.items[1], Sv) else None
                    labels.append(lab)
                foreign = [l for l in labels if l != want_label]
                if foreign and isinstance(foreign[0], str) and (foreign[0].startswith(v + ' (') or foreign[0] == v):
                    P['pair'] = P['pair'] or (f'the {v!r} column of a {cls} is labelled {foreign[0]!r}, its own unit parameter gives {want_label!r}', writes[0][4])
                    seen_vars.add(v)
                    continue
                if foreign:
                    P['own'] = P['own'] or (f'with only {v!r} selected a {cls} gets the column {foreign[0]!r} (the column appears although it was '
                                            f'not requested, or is labelled with another unit)', writes[0][4])
                    continue
                if len(writes) > 1:
                    P['own'] = P['own'] or (f'the {v!r} column of a {cls} is written {len(writes)} times', writes[0][4])
                    continue
                wrote = len(writes) == 1
                own_flag = {k for k in F if k.split('_is_')[0].replace('_', ' ') == v}      # the variable's own flag; the rest of F is implied by it
                own_true = all(flags.get(f) is True for f in own_flag)
                own_false = any(flags.get(f) is False for f in F)
                if wrote:
                    seen_vars.add(v)
                if wrote and not records:
                    P['own'] = P['own'] or (f'a {cls} gets a {v!r} column although it does not record that variable', writes[0][4])
                elif records and wrote and not own_true:
                    P['flags'] = P['flags'] or (f'the {v!r} column of a {cls} is written without its computability flag(s) {sorted(F)} being true', writes[0][4])
                elif records and not wrote and own_true and not own_false:
                    extra = sorted(k for k, val in flags.items() if k not in F and val is False)
                    unit_guard = [g.show(sx.ctx)[:60] for g in o.state.guards if not (g.kind == 'truth' and str(g.key[0]).endswith('_is_computable'))]
                    if extra:
                        P['flags'] = P['flags'] or (f'the {v!r} column of a {cls} additionally depends on {extra}: selecting {v!r} alone returns an '
                                                    f'empty (NaN) column when that other quantity is not computable', o.loc or m.node.lineno)
                    else:
                        P['own'] = P['own'] or (f'the {v!r} column of a {cls} is not written although {v!r} is selected and recorded '
                                                f'(remaining conditions: {unit_guard[:2]}): selecting {v!r} alone returns an empty (NaN) column', o.loc or m.node.lineno)
                if records and not wrote and own_flag and not own_false and not own_true and not any(f in flags for f in own_flag):
                    # the variable's own flag was never consulted on this path: the class's block was skipped as a whole
                    P['own'] = P['own'] or (f'the {v!r} column of a {cls} is not written, whatever its computability flag says: a {cls} that records '
                                            f'{v!r} gets an empty (NaN) column', o.loc or m.node.lineno)
                if not wrote:
                    continue
                # the cell: interp#k@j
                val = writes[0][3]
                atom = next(iter(val.term.atoms())) if isinstance(val, N) and len(val.term.atoms()) == 1 else ''
                mm = re.match(r'interp#(\d+)@(\d+)$', atom)
                if not mm or not sx.ctx.eq(val.term, Rat.atom(atom)):
                    P['interp'] = P['interp'] or (f'the {v!r} value is `{sx.show(val)[:70]}`, not the interpolant of the recorded samples evaluated at '
                                                  f'the target time', writes[0][4])
                    continue
                it = interps[int(mm.group(1))]
                kw = it['kw']
                x = kw.get('x', it['args'][0] if it['args'] else None)
                y = kw.get('y', it['args'][1] if len(it['args']) > 1 else None)
                q = it['queries'][int(mm.group(2))]
                kind = kw.get('kind')
                if kind is not None and not (isinstance(kind, Sv) and kind.s == 'linear') and not (isinstance(kind, N) and kind.term.eq(Rat.const(1))):
                    P['interp'] = P['interp'] or (f'interpolation kind {sx.show(kind)}, linear is specified', writes[0][4])
                if not (isinstance(x, Mv) and x.src == 'self.time' and not x.filtered and len(x.cases) == 1 and not x.cases[0][0]
                        and isinstance(x.cases[0][1], N) and isinstance(q, N)):
                    P['interp'] = P['interp'] or (f'abscissae `{sx.show(x)[:60]}` / query `{sx.show(q)[:40]}`: not the recorded instants and the '
                                                  f'target time as plain numbers', writes[0][4])
                else:
                    tx, tq = x.cases[0][1].term, q.term
                    if not sx.ctx.eq(tx * T, tq * Rat.atom('each(self.time)')):
                        P['interp'] = P['interp'] or (f'abscissae `{sx.ctx.show(sx.ctx.reduce(tx))[:60]}` but query `{sx.ctx.show(sx.ctx.reduce(tq))[:60]}`: '
                                                      f'both must be the same function of the instant (same time unit)', writes[0][4])
                src = f"el.time_variables[{v!r}]"
                if param is None:
                    if not (sx.show(y).endswith(f'time_variables[{v!r}]')):
                        P['pair'] = P['pair'] or (f'the {v!r} column is filled from `{sx.show(y)[:60]}`', writes[0][4])
                else:
                    okp = isinstance(y, Mv) and y.src.endswith(f'time_variables[{v!r}]') and not y.filtered and len(y.cases) == 1 \
                        and not y.cases[0][0] and isinstance(y.cases[0][1], N)
                    if not okp:
                        P['pair'] = P['pair'] or (f'the {v!r} column is filled from `{sx.show(y)[:70]}`, not from one converted value per sample of '
                                                  f'time_variables[{v!r}]', writes[0][4])
                    else:
                        want = Rat.atom(f'each({y.src})') / sx.ufactor(VARIABLE_KINDS[v], U(sym=param))
                        if not sx.ctx.eq(y.cases[0][1].term, want):
                            P['pair'] = P['pair'] or (f'the {v!r} samples are converted as `{sx.ctx.show(sx.ctx.reduce(y.cases[0][1].term))[:80]}` but the '
                                                      f'column is labelled with {param}', writes[0][4])
    rep.inspect(n_eval)
    for v in UNIT_PARAM:
        cons = f'Powertrain.snapshot[{v}]'
        P = problems[v]
        for rule, key, c2 in (('C18.own-guard', 'own', cons), ('C18.own-guard', 'flags', cons + ':flags'), ('C18.pairing', 'pair', cons),
                              ('C18.interp', 'interp', cons)):
            rep.decide(P[key] is None, rule, c2, P[key][0] if P[key] else '', loc=f'{m.module}:{P[key][1] if P[key] else m.node.lineno}',
                       detail=f'{len(classes)} element classes x selection [{v!r}]')
    missing = sorted(set(UNIT_PARAM) - seen_vars)
    rep.decide(not missing, 'C18.own-guard', 'Powertrain.snapshot:variables', f'no column write found for {missing}', loc=m.loc)
    # columns mapping (UNITS dict)
    for n in ast.walk(m.node):
        if isinstance(n, ast.Assign) and isinstance(n.value, ast.Dict) and len(n.value.keys) >= 8:
            bad = []
            for k, v in zip(n.value.keys, n.value.values):
                if isinstance(k, ast.Constant) and k.value in UNIT_PARAM:
                    want = UNIT_PARAM[k.value]
                    got = v.id if isinstance(v, ast.Name) else (v.value if isinstance(v, ast.Constant) else ast.unparse(v))
                    if (want is None and got not in ('', None)) or (want is not None and got != want):
                        bad.append((k.value, got))
            rep.decide(not bad, 'C18.pairing', 'Powertrain.snapshot:UNITS', f'label mapping pairs {bad} (variable, unit parameter) wrongly',
                       loc=f'{m.module}:{n.lineno}')
    # purity
    # snapshot and the private helper methods it calls on the powertrain
    ci = model.classes['Powertrain']
    scanned, todo = [], [m.node]
    while todo:
        fn_ = todo.pop()
        if fn_ in scanned:
            continue
        scanned.append(fn_)
        for n in ast.walk(fn_):
            if isinstance(n, ast.Call) and isinstance(n.func, ast.Attribute) and isinstance(n.func.value, ast.Name) \
                    and n.func.value.id == 'self' and n.func.attr in ci.members and ci.members[n.func.attr].kind in ('method', 'staticmethod'):
                todo.append(ci.members[n.func.attr].node)
    methods = {k for k, v in ci.members.items() if v.kind in ('method', 'staticmethod')}
    stores = [n for fn_ in scanned for n in ast.walk(fn_) if isinstance(n, ast.Attribute) and isinstance(n.ctx, ast.Store)
              and isinstance(n.value, ast.Name) and n.value.id == 'self']
    reads = [n.attr for fn_ in scanned for n in ast.walk(fn_) if isinstance(n, ast.Attribute) and isinstance(n.ctx, ast.Load)
             and isinstance(n.value, ast.Name) and n.value.id == 'self' and n.attr.startswith('_') and n.attr not in methods]
    rep.decide(not stores and not reads, 'C18.pure', 'Powertrain.snapshot',
               f'snapshot keeps/reads private state on the powertrain ({[s.attr for s in stores] + reads}): a cached axis can go stale '
               f'after reset/rerun', loc=m.loc)
    check_admission(model, rep, m)
    check_initial_columns(model, rep, m)
    rep.require('C18.own-guard', 12)
    rep.require('C18.pairing', 11)
    rep.require('C18.interp', 11)


def check_admission(model, rep, m):
    """every target time inside the simulated interval, boundaries included, is admitted: each raising path of the
    range test implies target < min(time) or target > max(time) (compared as SI magnitudes)"""
    from sa import sx as sxm
    from sa.algebra import Rat
    from sa.sx import SX, Q, U, Ov, Seq, CannotDecide, make_cmp, implies
    tests = [n for n in strip_docstring(m.node.body) if isinstance(n, ast.If) and n.body and isinstance(n.body[0], ast.Raise)
             and any(isinstance(x, ast.Name) and x.id == 'target_time' for x in ast.walk(n.test))
             and any(isinstance(x, ast.Compare) and not isinstance(x.ops[0], (ast.Is, ast.IsNot)) for x in ast.walk(n.test))]
    cons = 'Powertrain.snapshot:admission'
    if not tests:
        rep.holds('C18.range', cons, 'no range test on the target time (interp1d rejects times outside the axis)', m.loc)
        return
    sx = SX(model)
    sxm.POSITIVE_ATOMS.clear()
    T = Rat.atom('T')
    st = sxm.State(env={'self': Ov('self', 'Powertrain', True), 'target_time': Q('Time', T, U(sym='t'))})
    st.heap[('self', 'time')] = Seq('self.time', ('q', 'Time'))
    frame = {'module': m.module, 'cls': 'Powertrain', 'fn': m.node, 'depth': 0}
    lo, hi = Rat.atom('min(self.time)'), Rat.atom('max(self.time)')
    below, above = make_cmp('<', T - lo), make_cmp('<', hi - T)
    ok, why = True, ''
    try:
        for t in tests:
            tr, fa, rs = sx.branch(t.test, st, frame)
            for s_ in tr:
                g = list(s_.guards)
                if not (implies(g, below) or implies(g, above)):
                    ok, why = False, (f'a target time with `{" and ".join(x.show(sx.ctx) for x in g)}` is rejected: every instant of '
                                      f'the simulated interval, first and last included, must be admitted')
    except CannotDecide as e:
        rep.cannot('C18.range', cons, str(e), m.loc)
        return
    rep.decide(ok, 'C18.range', cons, why, loc=f'{m.module}:{tests[0].lineno}')


def check_initial_columns(model, rep, m):
    """the frame is created with exactly the labels the column writes use: `<variable> (<its unit>)`, `pwm` bare -
    any other label stays in the result as an extra, empty column"""
    from sa import sx as sxm
    from sa.sx import SX, Sv, Tv, Uv, U, Ov, CannotDecide
    body = strip_docstring(m.node.body)
    frames = [n for n in body if isinstance(n, ast.Assign) and isinstance(n.value, ast.Call)
              and ast.unparse(n.value.func).endswith('DataFrame')]
    cons = 'Powertrain.snapshot:initial-columns'
    if len(frames) != 1:
        rep.cannot('C18.pairing', cons, f'{len(frames)} data-frame creations', m.loc)
        return
    kw = {k.arg: k.value for k in frames[0].value.keywords}
    if 'columns' not in kw:
        rep.holds('C18.pairing', cons, 'the frame is created without predeclared columns', m.loc)
        return
    sx = SX(model)
    sx.eval_comprehensions = True
    env = {'self': Ov('self', 'Powertrain', True), 'variables': Tv([Sv(v) for v in UNIT_PARAM])}
    for a in m.node.args.args + m.node.args.kwonlyargs:
        if a.arg.endswith('_unit'):
            env[a.arg] = Uv(U(sym=a.arg))
    st = sxm.State(env=env)
    frame = {'module': m.module, 'cls': 'Powertrain', 'fn': m.node, 'depth': 0}
    # statements that bind the mapping and the column list (between the variable selection and the frame)
    needed = []
    names = {x.id for x in ast.walk(kw['columns']) if isinstance(x, ast.Name)}
    for n in reversed(body[:body.index(frames[0])]):
        # statements that give one of the needed names its value: assignments, and loops / calls that fill a list in place
        stored = {x.id for x in ast.walk(n) if isinstance(x, ast.Name) and isinstance(x.ctx, ast.Store)}
        filled = {c.func.value.id for c in ast.walk(n) if isinstance(c, ast.Call) and isinstance(c.func, ast.Attribute)
                  and c.func.attr in ('append', 'extend', 'insert') and isinstance(c.func.value, ast.Name)}
        hit = ((stored & names) and isinstance(n, (ast.Assign, ast.AugAssign))) or \
            ((filled & names) and isinstance(n, (ast.For, ast.Expr, ast.If)))
        if hit and 'variables' not in (stored if isinstance(n, (ast.Assign, ast.AugAssign)) else set()):
            needed.insert(0, n)
            names |= {x.id for x in ast.walk(n) if isinstance(x, ast.Name) and isinstance(x.ctx, ast.Load)}
    try:
        outs = [o for o in sx.block(needed, [st], frame) if o.kind == 'fall']
        if len(outs) != 1:
            raise CannotDecide(f'{len(outs)} paths through the column-list statements')
        cols = sx.eval1(kw['columns'], outs[0].state, frame)
    except CannotDecide as e:
        rep.cannot('C18.pairing', cons, str(e), m.loc)
        return
    if not isinstance(cols, Tv) or not all(isinstance(i, Sv) for i in cols.items):
        rep.cannot('C18.pairing', cons, f'column list evaluates to `{sx.show(cols)[:80]}`', m.loc)
        return
    got = [i.s for i in cols.items]
    want = [v if p is None else f'{v} (<{p}>)' for v, p in UNIT_PARAM.items()]
    bad = [(g, w) for g, w in zip(got, want) if g != w]
    rep.decide(not bad and len(got) == len(want), 'C18.pairing', cons,
               f'the frame is created with the column {bad[0][0]!r} where the writes use {bad[0][1]!r}: the result carries an extra, '
               f'empty column' if bad else f'{len(got)} columns for {len(want)} variables', loc=f'{m.module}:{frames[0].lineno}')


def check_export_columns(model, rep, mod, fn, unit_map):
    """the column statements of the export utility evaluated abstractly: for every recorded variable the column
    label is `<variable> (<its own unit parameter>)` and every cell is that sample's SI magnitude divided by the
    factor of that same unit (each sample converted on its own: samples of one list may carry different units)"""
    from sa import sx as sxm
    from sa.algebra import Rat
    from sa.spec.variables import VARIABLE_KINDS
    from sa.sx import SX, Sv, Uv, U, Ov, Seq, Unk, Mv, N, CannotDecide
    loc = f'{mod}:{fn.lineno}'
    sx = SX(model)
    sx.eval_comprehensions = True
    sx.variable_kinds = VARIABLE_KINDS
    sxm.POSITIVE_ATOMS.clear()
    env = {}
    for a in fn.args.args + fn.args.kwonlyargs:
        if a.arg.endswith('_unit'):
            env[a.arg] = Uv(U(sym=a.arg))
    env['rotating_object'] = Ov('obj', 'RotatingObject', False)
    env['time_array'] = Seq('time_array', ('q', 'Time'))
    frame = {'module': mod, 'cls': None, 'fn': fn, 'depth': 0}
    body = strip_docstring(fn.body)
    loop = next((n for n in body if isinstance(n, ast.For) and 'time_variables' in ast.unparse(n.iter)
                 and (isinstance(n.target, ast.Name) or (isinstance(n.target, ast.Tuple) and len(n.target.elts) == 2
                                                         and all(isinstance(e, ast.Name) for e in n.target.elts)
                                                         and isinstance(n.iter, ast.Call) and isinstance(n.iter.func, ast.Attribute)
                                                         and n.iter.func.attr == 'items'))), None)
    frames = [n for n in body if isinstance(n, ast.Assign) and isinstance(n.value, ast.Call)
              and ast.unparse(n.value.func).endswith('DataFrame')]
    if loop is None or len(frames) != 1 or not isinstance(frames[0].targets[0], ast.Name):
        rep.cannot('C18.export', 'export_time_variables:columns', 'the per-variable column loop / the data frame was not recognised', loc)
        return
    table = frames[0].targets[0].id
    env[table] = Unk(table)
    try:
        st = sxm.State(env=dict(env))
        outs = sx.block([unit_map], [st], frame)
        st = outs[0].state
        # the time column: statements between the frame creation and the loop
        pre = [n for n in body[body.index(frames[0]) + 1: body.index(loop)]]
        outs = [o for o in sx.block(pre, [st], frame) if o.kind == 'fall']
        if len(outs) != 1:
            raise CannotDecide(f'{len(outs)} paths before the column loop')
        st = outs[0].state
        tcols = [e for e in st.effects if e[0] == 'setitem' and e[1] == table]
        okt, why = False, 'no time column is written'
        for e in tcols:
            okt, why = _column_ok(sx, e, 'time (<time_unit>)', 'time_array', 'Time', 'time_unit')
        rep.decide(okt and len(tcols) == 1, 'C18.export', 'export_time_variables:time',
                   why or f'{len(tcols)} columns before the variable loop', loc=loc)
        for var, param in UNIT_PARAM.items():
            s2 = st.copy()
            if isinstance(loop.target, ast.Name):
                s2.env[loop.target.id] = Sv(var)
            else:       # for key, samples in <dict>.items():
                s2.env[loop.target.elts[0].id] = Sv(var)
                dval = sx.eval1(loop.iter.func.value, s2, frame)
                s2.env[loop.target.elts[1].id] = sx.subscript(dval, Sv(var), s2, frame, loop)
            base = len(s2.effects)
            done = [o for o in sx.block(loop.body, [s2], frame) if o.kind in ('fall', 'continue')]
            cons = f'export_time_variables:column[{var}]'
            if not done:
                rep.violation('C18.export', cons, 'no completing path of the column loop for this variable', loc)
                continue
            ok, why, line = True, '', loop.lineno
            for o in done:
                cols = [e for e in o.state.effects[base:] if e[0] == 'setitem' and e[1] == table]
                if len(cols) != 1:
                    ok, why = False, f'{len(cols)} columns written for this variable'
                    break
                e = cols[0]
                line = e[4]
                if param is None:
                    ok = e[2] == repr(var) and sx.show(e[3]).endswith(f'time_variables[{var!r}]')
                    why = '' if ok else f'the unit-less variable is exported as column {e[2]} = `{sx.show(e[3])[:60]}`'
                else:
                    ok, why = _column_ok(sx, e, f'{var} (<{param}>)', f'time_variables[{var!r}]', VARIABLE_KINDS[var], param)
                if not ok:
                    break
            rep.decide(ok, 'C18.export', cons, why, loc=f'{mod}:{line}', detail=f'{len(done)} path(s)')
    except CannotDecide as e:
        rep.cannot('C18.export', 'export_time_variables:columns', str(e), loc)


def _column_ok(sx, e, label, src_suffix, kind, param):
    from sa.algebra import Rat
    from sa.sx import Mv, N, Dyn, U
    _, _, key, val, ln = e[:5]
    if key != repr(label):
        return False, f'the column is labelled {key}, specified {label!r} (label unit = the unit the cells are converted to)'
    if not isinstance(val, Mv):
        return False, f'the column is `{sx.show(val)[:80]}`, not one converted value per recorded sample'
    if not val.src.endswith(src_suffix):
        return False, f'the cells are computed from `{val.src}`, not from {src_suffix}'
    if val.filtered or len(val.cases) != 1 or val.cases[0][0]:
        return False, 'samples are filtered or treated case by case: the column can lose its alignment with the time column'
    cell = val.cases[0][1]
    if not isinstance(cell, (N, Dyn)):
        return False, f'the cell is `{sx.show(cell)[:80]}`, not a bare number'
    each = f'each({val.src})'
    want = Rat.atom(each) / sx.ufactor(kind, U(sym=param))
    if not sx.ctx.eq(cell.term, want):
        return False, (f'a cell is `{sx.ctx.show(sx.ctx.reduce(cell.term))[:120]}`; specified: the sample\'s own SI magnitude over the factor of '
                       f'{param} (`{sx.ctx.show(want)}`) - every sample converted on its own, whatever unit it carries')
    return True, ''


def export_call_facts(model, m):
    """arguments reaching the export function when Powertrain.export_time_variables runs over a one-element powertrain:
    ([(args, kwargs, line, _)], {join key -> parts}, number of completing paths)"""
    sx = SX(model)
    sx.eval_comprehensions = True
    sx.variable_kinds = VARIABLE_KINDS
    sxm.POSITIVE_ATOMS.clear()
    calls, joins = [], {}

    def hook(sx_, n, f, recv, args, kwargs, st, frame):
        name = f.id if isinstance(f, ast.Name) else (f.attr if isinstance(f, ast.Attribute) else None)
        if name == 'export_time_variables' and not isinstance(recv, Ov):
            calls.append((list(args), dict(kwargs), n.lineno, None))
            return [(st, sxm.NoneV())]
        if name == 'join' and isinstance(f, ast.Attribute) and ast.unparse(f.value).endswith('path'):
            key = f'<join#{len(joins)}>'
            joins[key] = list(args)
            return [(st, Unk(key))]
        return None
    sx.call_hook = hook
    el = Ov('el', 'SpurGear', True)
    env = {'self': Ov('self', 'Powertrain', True), 'folder_path': Sv('<folder>')}
    for a in m.node.args.args + m.node.args.kwonlyargs:
        if a.arg.endswith('_unit'):
            env[a.arg] = Uv(U(sym=a.arg))
    st = sxm.State(env=env)
    st.heap[('self', 'elements')] = Tv([el], 'tuple')
    st.heap[('self', 'time')] = Seq('self.time', ('q', 'Time'))
    st.heap[('el', 'name')] = Sv('el')
    frame = {'module': m.module, 'cls': 'Powertrain', 'fn': m.node, 'depth': 0}
    outs = sx.block(strip_docstring(m.node.body), [st], frame)
    completes = sum(1 for o in outs if o.kind in ('fall', 'return'))
    return calls, joins, completes


def _strip_validation(stmts):
    """argument validation (`if <test>: raise ...`, loops of such tests) decides nothing about what a completing call exports"""
    out = []
    for s_ in stmts:
        if isinstance(s_, ast.If) and not s_.orelse and all(isinstance(b, ast.Raise) for b in s_.body):
            continue
        if isinstance(s_, ast.For) and all(isinstance(b, ast.If) and not b.orelse and all(isinstance(x, ast.Raise) for x in b.body)
                                           for b in s_.body):
            continue
        out.append(s_)
    return out


def run_export_util(model, var, path):
    """the export function evaluated for an object that records exactly the variable `var`, asked to write to `path`:
    -> (sx, columns written into the frame [(label text, value, line)], to_csv calls [(path value, kwargs, line)], completing paths).
    Helper functions the export function calls are evaluated with it; pandas / os calls are modelled by the hook."""
    from sa.sx import Dv, Bv, NoneV
    mod, fn = model.functions['export_time_variables']
    sx = SX(model)
    sx.eval_comprehensions = True
    sx.variable_kinds = VARIABLE_KINDS
    sxm.POSITIVE_ATOMS.clear()
    tables, writes = [], []

    def hook(sx_, n, f, recv, args, kwargs, st, frame):
        name = f.id if isinstance(f, ast.Name) else (f.attr if isinstance(f, ast.Attribute) else None)
        if name == 'DataFrame':
            tables.append(n.lineno)
            return [(st, Ov(f'<table{len(tables)}>', None, False))]
        if name == 'to_csv' and isinstance(recv, Ov) and recv.path.startswith('<table'):
            writes.append((args[0] if args else kwargs.get('path_or_buf'), dict(kwargs), n.lineno, recv.path))
            return [(st, NoneV())]
        if name == 'exists':
            return [(st, Bv(True))]
        if name in ('dirname', 'makedirs', 'abspath'):
            return [(st, Unk(f'<{name}>'))]
        return None
    sx.call_hook = hook
    env = {'rotating_object': Ov('obj', 'RotatingObject', False), 'time_array': Seq('time_array', ('q', 'Time')), 'file_path': Sv(path)}
    for a in fn.args.args + fn.args.kwonlyargs:
        if a.arg.endswith('_unit'):
            env[a.arg] = Uv(U(sym=a.arg))
    st = sxm.State(env=env)
    elem = ('q', VARIABLE_KINDS[var]) if var in VARIABLE_KINDS else 'num'
    st.heap[('obj', 'time_variables')] = Dv({var: Seq(f"obj.time_variables[{var!r}]", elem)})
    frame = {'module': mod, 'cls': None, 'fn': fn, 'depth': 0}
    outs = sx.block(_strip_validation(strip_docstring(fn.body)), [st], frame)
    done = [o for o in outs if o.kind in ('fall', 'return')]
    cols = []
    for o in done:
        cols.append([(e[2], e[3], e[4], e) for e in o.state.effects if e[0] == 'setitem' and str(e[1]).startswith('<table')])
    return sx, mod, fn, cols, writes, done, [o for o in outs if o.kind == 'raise']


def check_export_util(model, rep):
    """what the export function writes, decided on its evaluation (through whatever helpers it is split into): for an object
    recording one variable v the frame gets exactly the time column and v's column, each labelled with and converted to its OWN
    unit parameter sample by sample; the frame is written once, without the index, to the given path plus at most `.csv`"""
    if 'export_time_variables' not in model.functions:
        rep.cannot('C18.export', 'export_time_variables', 'function not found')
        return
    mod, fn = model.functions['export_time_variables']
    loc = f'{mod}:{fn.lineno}'
    unit_ok, time_done = True, False
    for var, param in UNIT_PARAM.items():
        cons = f'export_time_variables:column[{var}]'
        try:
            sx, _, _, cols, writes, done, raises = run_export_util(model, var, '<dir>/out')
        except CannotDecide as e:
            rep.cannot('C18.export', cons, str(e), loc)
            unit_ok = False
            continue
        rep.inspect(len(done))
        if not done:
            rep.violation('C18.export', cons, f'no completing path of the export for an object recording {var!r} '
                          f'({[o.value for o in raises][:2]})', loc)
            unit_ok = False
            continue
        ok, why, line = True, '', fn.lineno
        tok, twhy = True, ''
        for pc in cols:
            tl = repr('time (<time_unit>)')
            tcols = [c for c in pc if c[0] == tl or str(c[0]).startswith("'time")]
            vcols = [c for c in pc if c not in tcols]
            if len(tcols) != 1:
                tok, twhy = False, f'{len(tcols)} time columns are written'
            else:
                tok, twhy = _column_ok(sx, tcols[0][3], 'time (<time_unit>)', 'time_array', 'Time', 'time_unit')
            if len(vcols) != 1:
                ok, why = False, f'{len(vcols)} columns written for this variable'
                break
            e = vcols[0][3]
            line = e[4]
            if param is None:
                ok = e[2] == repr(var) and sx.show(e[3]).endswith(f'time_variables[{var!r}]')
                why = '' if ok else f'the unit-less variable is exported as column {e[2]} = `{sx.show(e[3])[:60]}`'
            else:
                ok, why = _column_ok(sx, e, f'{var} (<{param}>)', f'time_variables[{var!r}]', VARIABLE_KINDS[var], param)
            if not ok:
                break
        rep.decide(ok, 'C18.export', cons, why, loc=f'{mod}:{line}', detail=f'{len(done)} path(s)')
        unit_ok = unit_ok and ok
        if not time_done:
            time_done = True
            rep.decide(tok, 'C18.export', 'export_time_variables:time', twhy, loc=loc)
            iok = len(writes) == len(done) and all(isinstance(w[1].get('index'), sxm.Bv) and w[1]['index'].b is False for w in writes)
            rep.decide(iok, 'C18.export', 'export_time_variables:index',
                       'the CSV is not written exactly once per call with index=False' if not iok else '', loc=f'{mod}:{writes[0][2] if writes else fn.lineno}')
    rep.decide(unit_ok, 'C18.export', 'export_time_variables:UNIT', 'a variable is not paired with its own unit parameter (see the column instances)', loc=loc)
    # the file: given path, plus `.csv` unless it already ends with it - for a name with dots too
    fok, fwhy, fline = True, '', fn.lineno
    for given, want in (('<dir>/gear 1.1', '<dir>/gear 1.1.csv'), ('<dir>/gear 1.1.csv', '<dir>/gear 1.1.csv'), ('<dir>/plain', '<dir>/plain.csv')):
        try:
            sx, _, _, cols, writes, done, raises = run_export_util(model, 'torque', given)
        except CannotDecide as e:
            fok, fwhy = None, str(e)
            break
        if len(writes) != 1:
            fok, fwhy = False, f'{len(writes)} to_csv calls for one export (exactly one specified)'
            break
        pv = writes[0][0]
        fline = writes[0][2]
        if not (isinstance(pv, Sv) and pv.s == want):
            got = pv.s if isinstance(pv, Sv) else sx.show(pv)[:60]
            fok, fwhy = False, (f'asked to write {given!r} the function writes `{got}`, specified {want!r} (the given path, `.csv` appended unless present): '
                                f'two element names can then share a file and one history is lost')
            break
    if fok is None:
        rep.cannot('C18.export', 'export_time_variables:file', fwhy, loc)
    else:
        rep.decide(fok, 'C18.export', 'export_time_variables:file', fwhy, loc=f'{mod}:{fline}',
                   detail='the file written is the given path, with `.csv` appended unless present')


def check_export(model, rep):
    check_export_util(model, rep)
    # Powertrain.export_time_variables forwards the element, the recorded axis, the units and a path made of the element's name:
    # decided on the arguments that reach the export function when the method is evaluated for a one-element powertrain
    # (through helper methods, locals, **dicts - whatever the method is written with)
    m = model.find_member('Powertrain', 'export_time_variables')
    if m is None:
        rep.cannot('C18.export', 'Powertrain.export_time_variables', 'method not found')
        return
    try:
        calls, joins, completes = export_call_facts(model, m)
    except CannotDecide as e:
        rep.cannot('C18.export', 'Powertrain.export_time_variables:forwarding', str(e), m.loc)
        rep.require('C18.export', 5)
        return
    ok, why = bool(calls), 'no call of the export utility'
    if completes and len(calls) < completes:
        ok, why = False, 'a path through the method completes without exporting the element'
    fok, fwhy = bool(calls), 'no call of the export function'
    need = {p for p in set(UNIT_PARAM.values()) if p} | {'time_unit'}
    for args, kw, line, shown_time in calls:
        for p_ in sorted(need):
            v = kw.get(p_)
            if v is None:
                ok, why = False, f'unit parameter {p_} is not forwarded'
            elif not (isinstance(v, Uv) and v.unit.sym == p_):
                ok, why = False, (f'{p_} is forwarded as `{v.unit.sym if isinstance(v, Uv) else type(v).__name__}`: that column is converted and '
                                  f'labelled with another variable\'s unit')
        ta = kw.get('time_array')
        if ta is None or not (isinstance(ta, Seq) and ta.path == 'self.time'):
            ok, why = False, 'time_array is not the powertrain\'s recorded time axis'
        ro = kw.get('rotating_object', args[0] if args else None)
        if not (isinstance(ro, Ov) and ro.path == 'el'):
            ok, why = False, 'the element exported is not the element of the iteration'
        fp = kw.get('file_path', args[1] if len(args) > 1 else None)
        good = False
        if isinstance(fp, Unk) and fp.text in joins:
            parts = joins[fp.text]
            good = bool(parts) and isinstance(parts[-1], Sv) and parts[-1].s == 'el' and not any(
                isinstance(x, Sv) and 'el' in x.s.replace('<folder>', '') for x in parts[:-1])
        elif isinstance(fp, Sv):
            good = fp.s.replace('<folder>', '').count('el') == 1 and fp.s.endswith('el')
        if not good:
            fok, fwhy = False, 'the path handed to the export function is not <folder>/<element name> with the name unchanged'
    rep.decide(ok, 'C18.export', 'Powertrain.export_time_variables:forwarding', why, loc=m.loc)
    rep.decide(fok, 'C18.export', 'Powertrain.export_time_variables:file', fwhy, loc=m.loc, detail='each element is exported to <folder>/<element name>')
    rep.require('C18.export', 5)


def check_export_files(model, rep, R='C18.export'):
    """one file per element: the name of the file is the element's name (unique in a powertrain, C20) with at most a constant
    suffix appended - any other rewriting of the path (splitext, replace, slicing, lower ...) can send two elements to the same
    file, and the history of the one written first is then in no exported file"""
    mod, fn = model.functions['export_time_variables']
    writes = [x for x in ast.walk(fn) if isinstance(x, ast.Call) and isinstance(x.func, ast.Attribute) and x.func.attr == 'to_csv']
    params = {a.arg for a in fn.args.args}
    ok, why, line = True, '', fn.lineno
    if len(writes) != 1 or not writes[0].args and not any(k.arg in ('path_or_buf',) for k in writes[0].keywords):
        ok, why = False, f'{len(writes)} to_csv calls with a path argument (exactly one specified)'
    else:
        arg = writes[0].args[0] if writes[0].args else [k.value for k in writes[0].keywords if k.arg == 'path_or_buf'][0]
        line = writes[0].lineno

        def path_like(e, var):
            """var, var + 'const', f'{var}const'"""
            if isinstance(e, ast.Name) and e.id == var:
                return True
            if isinstance(e, ast.IfExp):
                return path_like(e.body, var) and path_like(e.orelse, var)
            if isinstance(e, ast.BinOp) and isinstance(e.op, ast.Add) and path_like(e.left, var) and isinstance(e.right, ast.Constant) \
                    and isinstance(e.right.value, str):
                return True
            if isinstance(e, ast.JoinedStr) and e.values and isinstance(e.values[0], ast.FormattedValue) and path_like(e.values[0].value, var) \
                    and e.values[0].conversion == -1 and e.values[0].format_spec is None \
                    and all(isinstance(v, ast.Constant) for v in e.values[1:]):
                return True
            return False
        var = next((n.id for n in ast.walk(arg) if isinstance(n, ast.Name)), None)
        if var is None or not path_like(arg, var):
            ok, why = False, f'the file written is `{ast.unparse(arg)[:60]}`, not the given path with a constant suffix'
        else:
            # every binding of the path variable on the way: the parameter itself, then only constant suffixes
            src = var
            seen_vars = {var}
            for _ in range(4):
                for x in ast.walk(fn):
                    tg = None
                    if isinstance(x, ast.Assign) and len(x.targets) == 1 and isinstance(x.targets[0], ast.Name) and x.targets[0].id == src:
                        tg, val = x.targets[0], x.value
                        if not any(path_like(val, v) for v in params | seen_vars):
                            ok, why, line = False, f'the path is rewritten by `{ast.unparse(x)[:70]}`', x.lineno
                        else:
                            seen_vars |= {n.id for n in ast.walk(val) if isinstance(n, ast.Name)}
                    elif isinstance(x, ast.AugAssign) and isinstance(x.target, ast.Name) and x.target.id == src:
                        if not (isinstance(x.op, ast.Add) and isinstance(x.value, ast.Constant) and isinstance(x.value.value, str)):
                            ok, why, line = False, f'the path is rewritten by `{ast.unparse(x)[:70]}`', x.lineno
            if ok and not (seen_vars & params):
                ok, why = False, f'the file written (`{var}`) does not derive from a parameter of the function'
    rep.decide(ok, R, 'export_time_variables:file', why + ': two element names can then share a file and one history is lost' if why else '',
               loc=f'{mod}:{line}', detail='the file written is the given path, with at most a constant suffix appended')


def check(model, rep):
    # hidden state Python keeps outside the objects (not modelled by the evaluator): reported before anything else is evaluated
    from checks.solver_common import package_lints as _package_lints
    _package_lints(model, rep, 'C18.hidden-state', ('/powertrain.py', '/utils/export.py'))
    rep.explain('C18: Powertrain.snapshot is unrolled statically (constant zip lists, guarded work lists) into its column '
                'writes; each write must be control-dependent on the membership test of its own variable only, use that variable\'s '
                'unit parameter for both conversion and label, take its samples from time_variables[same variable], and '
                'interpolate linearly with abscissae and query in seconds; snapshot keeps no private state; the export utility '
                'pairs label unit, conversion unit and data per variable and Powertrain.export_time_variables forwards each unit '
                'parameter to the same-named keyword. Numeric interpolation is not decided.')
    check_snapshot(model, rep)
    check_export(model, rep)
    rep.assume('every recorded list has one sample per instant (C17)')
