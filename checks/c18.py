"""C18 - snapshot and export report the recorded history faithfully (structural clause).

* C18.own-guard  every snapshot column write is control-dependent on the membership test of ITS OWN variable
                 (`v in variables`) and on no other variable's membership test
* C18.pairing    each variable is converted with, and labelled by, its own unit parameter (torque <-> torque_unit,
                 driving torque <-> driving_torque_unit, stresses <-> stress_unit, ...); the data come from
                 time_variables[<same variable>]; columns list built from the same mapping
* C18.interp     abscissae and query both in seconds; interp1d with default (linear) kind
* C18.pure       snapshot keeps no state on the powertrain (no cached axis)
* C18.export     export: one column per recorded key, label unit == conversion unit from the mapping, time column in
                 time_unit, index=False; Powertrain.export_time_variables forwards every unit to the same-named
                 parameter
Not decided: numeric interpolation results."""
from __future__ import annotations

import ast

from sa.srcmodel import strip_docstring, walk_no_nested

UNIT_PARAM = {
    'angular position': 'angular_position_unit', 'angular speed': 'angular_speed_unit',
    'angular acceleration': 'angular_acceleration_unit', 'torque': 'torque_unit', 'driving torque': 'driving_torque_unit',
    'load torque': 'load_torque_unit', 'tangential force': 'force_unit', 'bending stress': 'stress_unit',
    'contact stress': 'stress_unit', 'electric current': 'current_unit', 'pwm': None,
}
FLAG_OF = {'tangential force': {'tangential_force_is_computable'},
           'bending stress': {'tangential_force_is_computable', 'bending_stress_is_computable'},
           'contact stress': {'tangential_force_is_computable', 'bending_stress_is_computable', 'contact_stress_is_computable'},
           'electric current': {'electric_current_is_computable'}}


def conjuncts(test):
    if isinstance(test, ast.BoolOp) and isinstance(test.op, ast.And):
        out = []
        for v in test.values:
            out += conjuncts(v)
        return out
    return [test]


def membership(test, env):
    """('x', positive) if test is `<const or const-bound name> in variables`"""
    if isinstance(test, ast.Compare) and len(test.ops) == 1 and isinstance(test.ops[0], (ast.In, ast.NotIn)) \
            and isinstance(test.comparators[0], ast.Name) and test.comparators[0].id == 'variables':
        l = test.left
        if isinstance(l, ast.Constant) and isinstance(l.value, str):
            return l.value, isinstance(test.ops[0], ast.In)
        if isinstance(l, ast.Name) and l.id in env and isinstance(env[l.id], str):
            return env[l.id], isinstance(test.ops[0], ast.In)
        return '?', True
    return None


class SnapshotWalker:
    """unrolls the constant zip loops and the guarded work lists of Powertrain.snapshot and yields every
    column write with its variable, its unit name, its data source and its controlling tests"""

    def __init__(self, fn):
        self.fn = fn
        self.writes = []        # dict(variable, unit, label_unit, data_key, conv_unit, guards, lineno, interp, query)
        self.problems = []

    def run(self):
        self.block(strip_docstring(self.fn.body), {}, [], {})
        return self.writes

    def const_list(self, node, env):
        if isinstance(node, (ast.List, ast.Tuple)):
            out = []
            for e in node.elts:
                if isinstance(e, ast.Constant):
                    out.append(('const', e.value))
                elif isinstance(e, ast.Name):
                    out.append(('name', e.id))
                else:
                    return None
            return out
        if isinstance(node, ast.Name) and node.id in env and isinstance(env[node.id], list):
            return env[node.id]
        return None

    def block(self, stmts, env, guards, lists):
        for s in stmts:
            if isinstance(s, ast.If):
                self.block(s.body, dict(env), guards + [(c, True) for c in conjuncts(s.test)], lists)
                if s.orelse:
                    self.block(s.orelse, dict(env), guards + [(s.test, False)], lists)
                continue
            if isinstance(s, ast.For):
                it = s.iter
                if isinstance(it, ast.Call) and isinstance(it.func, ast.Name) and it.func.id == 'zip' and len(it.args) == 2 \
                        and isinstance(s.target, ast.Tuple) and len(s.target.elts) == 2:
                    a = self.work_or_const(it.args[0], env, lists)
                    b = self.work_or_const(it.args[1], env, lists)
                    if a is not None and b is not None:
                        if len(a) != len(b):
                            self.problems.append((s.lineno, 'variable and unit lists of different length'))
                        for (va, ga), (vb, gb) in zip(a, b):
                            e2 = dict(env)
                            e2[s.target.elts[0].id] = va[1] if va[0] == 'const' else ('name', va[1])
                            e2[s.target.elts[1].id] = ('name', vb[1]) if vb[0] == 'name' else vb[1]
                            extra = list(ga)
                            if [ast.dump(x[0]) for x in ga] != [ast.dump(x[0]) for x in gb]:
                                self.problems.append((s.lineno, f'{va[1]!r} and its unit are appended under different conditions'))
                            self.block(s.body, e2, guards + extra, lists)
                        continue
                # other loops (over elements, over instants): walk the body once
                self.block(s.body, dict(env), guards, lists)
                continue
            if isinstance(s, ast.Assign) and len(s.targets) == 1:
                t = s.targets[0]
                if isinstance(t, ast.Name) and isinstance(s.value, (ast.List,)) and not s.value.elts:
                    lists[t.id] = []
                    continue
                if isinstance(t, ast.Name):
                    env[t.id] = s.value          # remember the defining expression (interpolation_function = interp1d(...))
                    continue
                if isinstance(t, ast.Subscript) and isinstance(t.value, ast.Attribute) and t.value.attr == 'loc' \
                        and isinstance(t.value.value, ast.Name) and t.value.value.id == 'data':
                    self.column_write(s, t, env, guards)
                    continue
            if isinstance(s, ast.Expr) and isinstance(s.value, ast.Call) and isinstance(s.value.func, ast.Attribute) \
                    and s.value.func.attr == 'append' and isinstance(s.value.func.value, ast.Name) \
                    and s.value.func.value.id in lists and len(s.value.args) == 1:
                a = s.value.args[0]
                item = ('const', a.value) if isinstance(a, ast.Constant) else (('name', a.id) if isinstance(a, ast.Name) else ('?', ast.unparse(a)))
                lists[s.value.func.value.id].append((item, list(guards)))
                continue

    def work_or_const(self, node, env, lists):
        if isinstance(node, ast.Name) and node.id in lists:
            return lists[node.id]
        c = self.const_list(node, env)
        if c is not None:
            return [(x, []) for x in c]
        return None

    def resolve_str(self, node, env):
        """string value of a constant / const-bound name; ('name', x) for a unit parameter name"""
        if isinstance(node, ast.Constant) and isinstance(node.value, str):
            return node.value
        if isinstance(node, ast.Name):
            v = env.get(node.id)
            if isinstance(v, str):
                return v
            if isinstance(v, tuple) and v[0] == 'name':
                return v
            return ('name', node.id)
        return None

    def column_write(self, s, target, env, guards):
        sl = target.slice
        col = sl.elts[1] if isinstance(sl, ast.Tuple) and len(sl.elts) == 2 else None
        variable = label_unit = None
        if isinstance(col, ast.Constant):
            variable = col.value.split(' (')[0]
            label_unit = col.value.split(' (')[1].rstrip(')') if ' (' in col.value else None
        elif isinstance(col, ast.JoinedStr):
            parts = [p for p in col.values]
            fvals = [p.value for p in parts if isinstance(p, ast.FormattedValue)]
            if len(fvals) == 2:
                variable = self.resolve_str(fvals[0], env)
                label_unit = self.resolve_str(fvals[1], env)
            elif len(fvals) == 0:
                text = ''.join(p.value for p in parts if isinstance(p, ast.Constant))
                variable = text.split(' (')[0]
                label_unit = text.split(' (')[1].rstrip(')') if ' (' in text else None
            elif len(fvals) == 1:
                # f'electric current ({current_unit})'
                text = ''.join(p.value for p in parts if isinstance(p, ast.Constant))
                variable = text.split(' (')[0]
                label_unit = self.resolve_str(fvals[0], env)
        # the interpolating function used on the right-hand side
        rhs = s.value
        interp = None
        query = None
        for n in ast.walk(rhs):
            if isinstance(n, ast.Call) and isinstance(n.func, ast.Name) and n.func.id in env and isinstance(env[n.func.id], ast.Call):
                interp = env[n.func.id]
                query = n.args[0] if n.args else None
        data_key = conv_unit = None
        xunit = None
        kind = None
        if interp is not None:
            kw = {k.arg: k.value for k in interp.keywords}
            y = kw.get('y', interp.args[1] if len(interp.args) > 1 else None)
            x = kw.get('x', interp.args[0] if interp.args else None)
            kind = kw.get('kind')
            for n in ast.walk(y) if y is not None else []:
                if isinstance(n, ast.Subscript) and isinstance(n.value, ast.Attribute) and n.value.attr == 'time_variables':
                    data_key = self.resolve_str(n.slice, env)
                if isinstance(n, ast.Call) and isinstance(n.func, ast.Attribute) and n.func.attr == 'to' and n.args:
                    conv_unit = self.resolve_str(n.args[0], env)
            for n in ast.walk(x) if x is not None else []:
                if isinstance(n, ast.Call) and isinstance(n.func, ast.Attribute) and n.func.attr == 'to' and n.args:
                    xunit = self.resolve_str(n.args[0], env)
        qunit = None
        if query is not None:
            for n in ast.walk(query):
                if isinstance(n, ast.Call) and isinstance(n.func, ast.Attribute) and n.func.attr == 'to' and n.args:
                    qunit = self.resolve_str(n.args[0], env)
        self.writes.append(dict(variable=variable, label_unit=label_unit, data_key=data_key, conv_unit=conv_unit,
                                guards=list(guards), lineno=s.lineno, interp=interp, kind=kind, xunit=xunit, qunit=qunit, env=dict(env)))


def uname(u):
    return u[1] if isinstance(u, tuple) else u


def check_snapshot(model, rep):
    m = model.member('Powertrain', 'snapshot')
    w = SnapshotWalker(m.node)
    writes = w.run()
    rep.inspect(len(writes))
    for ln, what in w.problems:
        rep.violation('C18.pairing', 'Powertrain.snapshot:lists', what, f'{m.module}:{ln}')
    seen_vars = set()
    for wr in writes:
        v = wr['variable']
        loc = f'{m.module}:{wr["lineno"]}'
        if not isinstance(v, str) or v not in UNIT_PARAM:
            rep.cannot('C18.own-guard', f'Powertrain.snapshot[line-independent:{v}]', f'column write for an unrecognised variable {v!r}', loc)
            continue
        seen_vars.add(v)
        cons = f'Powertrain.snapshot[{v}]'
        mem = []
        flags = set()
        for test, pol in wr['guards']:
            mm = membership(test, wr['env'])
            if mm:
                mem.append((mm[0], mm[1] and pol))
            for n in ast.walk(test):
                if isinstance(n, ast.Attribute) and n.attr.endswith('_is_computable'):
                    flags.add(n.attr)
        own = [x for x in mem if x[0] == v and x[1]]
        foreign = sorted({x[0] for x in mem if x[0] != v})
        ok = bool(own) and not foreign
        why = ''
        if not own:
            why = (f'the {v!r} column is written without testing that {v!r} is among the selected variables (the column appears even '
                   f'when it was not requested)')
        elif foreign:
            why = (f'the {v!r} column is written only if {foreign} are selected as well: selecting {v!r} alone returns an empty (NaN) column')
        rep.decide(ok, 'C18.own-guard', cons, why, loc=loc)
        # pairing
        want = UNIT_PARAM[v]
        okp, whyp = True, ''
        if want is None:
            if wr['label_unit'] is not None or wr['conv_unit'] is not None:
                okp, whyp = False, f'{v} is unit-less but is labelled/converted with {wr["label_unit"]}/{wr["conv_unit"]}'
        else:
            if uname(wr['label_unit']) != want:
                okp, whyp = False, f'the {v!r} column is labelled with {uname(wr["label_unit"])}, its own unit parameter is {want}'
            elif uname(wr['conv_unit']) != want:
                okp, whyp = False, f'the {v!r} samples are converted to {uname(wr["conv_unit"])} but labelled with {want}'
        if wr['data_key'] != v:
            okp, whyp = False, f'the {v!r} column is filled from time_variables[{wr["data_key"]!r}]'
        rep.decide(okp, 'C18.pairing', cons, whyp, loc=loc)
        # computability guards: only the variable's own flags
        extra = flags - FLAG_OF.get(v, set())
        rep.decide(not extra, 'C18.own-guard', cons + ':flags', f'the {v!r} column additionally depends on {sorted(extra)}', loc=loc)
        # interpolation
        oki, whyi = True, ''
        if wr['interp'] is None or not ast.unparse(wr['interp'].func).endswith('interp1d'):
            oki, whyi = False, 'the value is not obtained from interp1d over the recorded samples'
        else:
            k = wr['kind']
            if k is not None and not (isinstance(k, ast.Constant) and k.value in ('linear', 1)):
                oki, whyi = False, f'interpolation kind {ast.unparse(k)}, linear is specified'
            elif wr['xunit'] != 'sec' or wr['qunit'] != 'sec':
                oki, whyi = False, (f'abscissae in {wr["xunit"]!r} but query in {wr["qunit"]!r}: both must be in the same time unit')
        rep.decide(oki, 'C18.interp', cons, whyi, loc=loc)
    missing = sorted(set(UNIT_PARAM) - seen_vars)
    rep.decide(not missing, 'C18.own-guard', 'Powertrain.snapshot:variables', f'no column write found for {missing}', loc=m.loc)
    # columns mapping (UNITS dict)
    for n in ast.walk(m.node):
        if isinstance(n, ast.Assign) and isinstance(n.value, ast.Dict) and len(n.value.keys) >= 8:
            bad = []
            for k, v in zip(n.value.keys, n.value.values):
                if isinstance(k, ast.Constant) and k.value in UNIT_PARAM:
                    want = UNIT_PARAM[k.value]
                    got = v.id if isinstance(v, ast.Name) else (v.value if isinstance(v, ast.Constant) else ast.unparse(v))
                    if (want is None and got not in ('', None)) or (want is not None and got != want):
                        bad.append((k.value, got))
            rep.decide(not bad, 'C18.pairing', 'Powertrain.snapshot:UNITS', f'label mapping pairs {bad} (variable, unit parameter) wrongly',
                       loc=f'{m.module}:{n.lineno}')
    # purity
    stores = [n for n in ast.walk(m.node) if isinstance(n, ast.Attribute) and isinstance(n.ctx, ast.Store)
              and isinstance(n.value, ast.Name) and n.value.id == 'self']
    reads = [n.attr for n in ast.walk(m.node) if isinstance(n, ast.Attribute) and isinstance(n.ctx, ast.Load)
             and isinstance(n.value, ast.Name) and n.value.id == 'self' and n.attr.startswith('_')]
    rep.decide(not stores and not reads, 'C18.pure', 'Powertrain.snapshot',
               f'snapshot keeps/reads private state on the powertrain ({[s.attr for s in stores] + reads}): a cached axis can go stale '
               f'after reset/rerun', loc=m.loc)
    check_admission(model, rep, m)
    check_initial_columns(model, rep, m)
    rep.require('C18.own-guard', 12)
    rep.require('C18.pairing', 11)
    rep.require('C18.interp', 11)


def check_admission(model, rep, m):
    """every target time inside the simulated interval, boundaries included, is admitted: each raising path of the
    range test implies target < min(time) or target > max(time) (compared as SI magnitudes)"""
    from sa import sx as sxm
    from sa.algebra import Rat
    from sa.sx import SX, Q, U, Ov, Seq, CannotDecide, make_cmp, implies
    tests = [n for n in strip_docstring(m.node.body) if isinstance(n, ast.If) and n.body and isinstance(n.body[0], ast.Raise)
             and any(isinstance(x, ast.Name) and x.id == 'target_time' for x in ast.walk(n.test))
             and any(isinstance(x, ast.Compare) and not isinstance(x.ops[0], (ast.Is, ast.IsNot)) for x in ast.walk(n.test))]
    cons = 'Powertrain.snapshot:admission'
    if not tests:
        rep.holds('C18.range', cons, 'no range test on the target time (interp1d rejects times outside the axis)', m.loc)
        return
    sx = SX(model)
    sxm.POSITIVE_ATOMS.clear()
    T = Rat.atom('T')
    st = sxm.State(env={'self': Ov('self', 'Powertrain', True), 'target_time': Q('Time', T, U(sym='t'))})
    st.heap[('self', 'time')] = Seq('self.time', ('q', 'Time'))
    frame = {'module': m.module, 'cls': 'Powertrain', 'fn': m.node, 'depth': 0}
    lo, hi = Rat.atom('min(self.time)'), Rat.atom('max(self.time)')
    below, above = make_cmp('<', T - lo), make_cmp('<', hi - T)
    ok, why = True, ''
    try:
        for t in tests:
            tr, fa, rs = sx.branch(t.test, st, frame)
            for s_ in tr:
                g = list(s_.guards)
                if not (implies(g, below) or implies(g, above)):
                    ok, why = False, (f'a target time with `{" and ".join(x.show(sx.ctx) for x in g)}` is rejected: every instant of '
                                      f'the simulated interval, first and last included, must be admitted')
    except CannotDecide as e:
        rep.cannot('C18.range', cons, str(e), m.loc)
        return
    rep.decide(ok, 'C18.range', cons, why, loc=f'{m.module}:{tests[0].lineno}')


def check_initial_columns(model, rep, m):
    """the frame is created with exactly the labels the column writes use: `<variable> (<its unit>)`, `pwm` bare -
    any other label stays in the result as an extra, empty column"""
    from sa import sx as sxm
    from sa.sx import SX, Sv, Tv, Uv, U, Ov, CannotDecide
    body = strip_docstring(m.node.body)
    frames = [n for n in body if isinstance(n, ast.Assign) and isinstance(n.value, ast.Call)
              and ast.unparse(n.value.func).endswith('DataFrame')]
    cons = 'Powertrain.snapshot:initial-columns'
    if len(frames) != 1:
        rep.cannot('C18.pairing', cons, f'{len(frames)} data-frame creations', m.loc)
        return
    kw = {k.arg: k.value for k in frames[0].value.keywords}
    if 'columns' not in kw:
        rep.holds('C18.pairing', cons, 'the frame is created without predeclared columns', m.loc)
        return
    sx = SX(model)
    sx.eval_comprehensions = True
    env = {'self': Ov('self', 'Powertrain', True), 'variables': Tv([Sv(v) for v in UNIT_PARAM])}
    for a in m.node.args.args + m.node.args.kwonlyargs:
        if a.arg.endswith('_unit'):
            env[a.arg] = Uv(U(sym=a.arg))
    st = sxm.State(env=env)
    frame = {'module': m.module, 'cls': 'Powertrain', 'fn': m.node, 'depth': 0}
    # statements that bind the mapping and the column list (between the variable selection and the frame)
    needed = []
    names = {x.id for x in ast.walk(kw['columns']) if isinstance(x, ast.Name)}
    for n in reversed(body[:body.index(frames[0])]):
        if isinstance(n, ast.Assign) and len(n.targets) == 1 and isinstance(n.targets[0], ast.Name) and n.targets[0].id in names \
                and n.targets[0].id != 'variables':
            needed.insert(0, n)
            names |= {x.id for x in ast.walk(n.value) if isinstance(x, ast.Name)}
    try:
        outs = [o for o in sx.block(needed, [st], frame) if o.kind == 'fall']
        if len(outs) != 1:
            raise CannotDecide(f'{len(outs)} paths through the column-list statements')
        cols = sx.eval1(kw['columns'], outs[0].state, frame)
    except CannotDecide as e:
        rep.cannot('C18.pairing', cons, str(e), m.loc)
        return
    if not isinstance(cols, Tv) or not all(isinstance(i, Sv) for i in cols.items):
        rep.cannot('C18.pairing', cons, f'column list evaluates to `{sx.show(cols)[:80]}`', m.loc)
        return
    got = [i.s for i in cols.items]
    want = [v if p is None else f'{v} (<{p}>)' for v, p in UNIT_PARAM.items()]
    bad = [(g, w) for g, w in zip(got, want) if g != w]
    rep.decide(not bad and len(got) == len(want), 'C18.pairing', cons,
               f'the frame is created with the column {bad[0][0]!r} where the writes use {bad[0][1]!r}: the result carries an extra, '
               f'empty column' if bad else f'{len(got)} columns for {len(want)} variables', loc=f'{m.module}:{frames[0].lineno}')


def check_export_columns(model, rep, mod, fn, unit_map):
    """the column statements of the export utility evaluated abstractly: for every recorded variable the column
    label is `<variable> (<its own unit parameter>)` and every cell is that sample's SI magnitude divided by the
    factor of that same unit (each sample converted on its own: samples of one list may carry different units)"""
    from sa import sx as sxm
    from sa.algebra import Rat
    from sa.spec.variables import VARIABLE_KINDS
    from sa.sx import SX, Sv, Uv, U, Ov, Seq, Unk, Mv, N, CannotDecide
    loc = f'{mod}:{fn.lineno}'
    sx = SX(model)
    sx.eval_comprehensions = True
    sx.variable_kinds = VARIABLE_KINDS
    sxm.POSITIVE_ATOMS.clear()
    env = {}
    for a in fn.args.args + fn.args.kwonlyargs:
        if a.arg.endswith('_unit'):
            env[a.arg] = Uv(U(sym=a.arg))
    env['rotating_object'] = Ov('obj', 'RotatingObject', False)
    env['time_array'] = Seq('time_array', ('q', 'Time'))
    frame = {'module': mod, 'cls': None, 'fn': fn, 'depth': 0}
    body = strip_docstring(fn.body)
    loop = next((n for n in body if isinstance(n, ast.For) and 'time_variables' in ast.unparse(n.iter)
                 and isinstance(n.target, ast.Name)), None)
    frames = [n for n in body if isinstance(n, ast.Assign) and isinstance(n.value, ast.Call)
              and ast.unparse(n.value.func).endswith('DataFrame')]
    if loop is None or len(frames) != 1 or not isinstance(frames[0].targets[0], ast.Name):
        rep.cannot('C18.export', 'export_time_variables:columns', 'the per-variable column loop / the data frame was not recognised', loc)
        return
    table = frames[0].targets[0].id
    env[table] = Unk(table)
    try:
        st = sxm.State(env=dict(env))
        outs = sx.block([unit_map], [st], frame)
        st = outs[0].state
        # the time column: statements between the frame creation and the loop
        pre = [n for n in body[body.index(frames[0]) + 1: body.index(loop)]]
        outs = [o for o in sx.block(pre, [st], frame) if o.kind == 'fall']
        if len(outs) != 1:
            raise CannotDecide(f'{len(outs)} paths before the column loop')
        st = outs[0].state
        tcols = [e for e in st.effects if e[0] == 'setitem' and e[1] == table]
        okt, why = False, 'no time column is written'
        for e in tcols:
            okt, why = _column_ok(sx, e, 'time (<time_unit>)', 'time_array', 'Time', 'time_unit')
        rep.decide(okt and len(tcols) == 1, 'C18.export', 'export_time_variables:time',
                   why or f'{len(tcols)} columns before the variable loop', loc=loc)
        for var, param in UNIT_PARAM.items():
            s2 = st.copy()
            s2.env[loop.target.id] = Sv(var)
            base = len(s2.effects)
            done = [o for o in sx.block(loop.body, [s2], frame) if o.kind in ('fall', 'continue')]
            cons = f'export_time_variables:column[{var}]'
            if not done:
                rep.violation('C18.export', cons, 'no completing path of the column loop for this variable', loc)
                continue
            ok, why, line = True, '', loop.lineno
            for o in done:
                cols = [e for e in o.state.effects[base:] if e[0] == 'setitem' and e[1] == table]
                if len(cols) != 1:
                    ok, why = False, f'{len(cols)} columns written for this variable'
                    break
                e = cols[0]
                line = e[4]
                if param is None:
                    ok = e[2] == repr(var) and sx.show(e[3]).endswith(f'time_variables[{var!r}]')
                    why = '' if ok else f'the unit-less variable is exported as column {e[2]} = `{sx.show(e[3])[:60]}`'
                else:
                    ok, why = _column_ok(sx, e, f'{var} (<{param}>)', f'time_variables[{var!r}]', VARIABLE_KINDS[var], param)
                if not ok:
                    break
            rep.decide(ok, 'C18.export', cons, why, loc=f'{mod}:{line}', detail=f'{len(done)} path(s)')
    except CannotDecide as e:
        rep.cannot('C18.export', 'export_time_variables:columns', str(e), loc)


def _column_ok(sx, e, label, src_suffix, kind, param):
    from sa.algebra import Rat
    from sa.sx import Mv, N, Dyn, U
    _, _, key, val, ln = e[:5]
    if key != repr(label):
        return False, f'the column is labelled {key}, specified {label!r} (label unit = the unit the cells are converted to)'
    if not isinstance(val, Mv):
        return False, f'the column is `{sx.show(val)[:80]}`, not one converted value per recorded sample'
    if not val.src.endswith(src_suffix):
        return False, f'the cells are computed from `{val.src}`, not from {src_suffix}'
    if val.filtered or len(val.cases) != 1 or val.cases[0][0]:
        return False, 'samples are filtered or treated case by case: the column can lose its alignment with the time column'
    cell = val.cases[0][1]
    if not isinstance(cell, (N, Dyn)):
        return False, f'the cell is `{sx.show(cell)[:80]}`, not a bare number'
    each = f'each({val.src})'
    want = Rat.atom(each) / sx.ufactor(kind, U(sym=param))
    if not sx.ctx.eq(cell.term, want):
        return False, (f'a cell is `{sx.ctx.show(sx.ctx.reduce(cell.term))[:120]}`; specified: the sample\'s own SI magnitude over the factor of '
                       f'{param} (`{sx.ctx.show(want)}`) - every sample converted on its own, whatever unit it carries')
    return True, ''


def check_export(model, rep):
    if 'export_time_variables' in model.functions:
        mod, fn = model.functions['export_time_variables']
        loc = f'{mod}:{fn.lineno}'
        unit_map = None
        for n in ast.walk(fn):
            if isinstance(n, ast.Assign) and isinstance(n.value, ast.Dict) and len(n.value.keys) >= 8:
                unit_map = n
        if unit_map is None:
            rep.cannot('C18.export', 'export_time_variables', 'unit mapping not found', loc)
        else:
            bad = []
            for k, v in zip(unit_map.value.keys, unit_map.value.values):
                if isinstance(k, ast.Constant) and k.value in UNIT_PARAM:
                    want = UNIT_PARAM[k.value]
                    got = v.id if isinstance(v, ast.Name) else (v.value if isinstance(v, ast.Constant) else ast.unparse(v))
                    if (want is None and got not in ('', None)) or (want is not None and got != want):
                        bad.append((k.value, got))
            rep.decide(not bad, 'C18.export', 'export_time_variables:UNIT', f'unit mapping pairs {bad} wrongly', loc=f'{mod}:{unit_map.lineno}')
            check_export_columns(model, rep, mod, fn, unit_map)
            src = ast.unparse(fn)
            rep.decide('index=False' in src, 'C18.export', 'export_time_variables:index', 'the CSV is not written with index=False', loc=loc)
    else:
        rep.cannot('C18.export', 'export_time_variables', 'function not found')
    # Powertrain.export_time_variables forwards the units
    m = model.find_member('Powertrain', 'export_time_variables')
    if m is None:
        rep.cannot('C18.export', 'Powertrain.export_time_variables', 'method not found')
        return
    calls = [n for n in ast.walk(m.node) if isinstance(n, ast.Call) and ast.unparse(n.func).endswith('export_time_variables')]
    ok, why = bool(calls), 'no call of the export utility'
    for c in calls:
        for k in c.keywords:
            if k.arg and k.arg.endswith('_unit'):
                if not (isinstance(k.value, ast.Name) and k.value.id == k.arg):
                    ok, why = False, f'{k.arg} is forwarded as `{ast.unparse(k.value)}`: that column is converted and labelled with another variable\'s unit'
        kws = {k.arg for k in c.keywords}
        need = {p for p in set(UNIT_PARAM.values()) if p} | {'time_unit'}
        if not need <= kws:
            ok, why = False, f'unit parameters {sorted(need - kws)} are not forwarded'
        ta = [k for k in c.keywords if k.arg == 'time_array']
        if not ta or ast.unparse(ta[0].value) not in ('self.time', 'self.__time'):
            ok, why = False, 'time_array is not the powertrain\'s recorded time axis'
    rep.decide(ok, 'C18.export', 'Powertrain.export_time_variables:forwarding', why, loc=m.loc)
    rep.require('C18.export', 5)


def check(model, rep):
    rep.explain('C18: Powertrain.snapshot is unrolled statically (constant zip lists, guarded work lists) into its column '
                'writes; each write must be control-dependent on the membership test of its own variable only, use that variable\'s '
                'unit parameter for both conversion and label, take its samples from time_variables[same variable], and '
                'interpolate linearly with abscissae and query in seconds; snapshot keeps no private state; the export utility '
                'pairs label unit, conversion unit and data per variable and Powertrain.export_time_variables forwards each unit '
                'parameter to the same-named keyword. Numeric interpolation is not decided.')
    check_snapshot(model, rep)
    check_export(model, rep)
    rep.assume('every recorded list has one sample per instant (C17)')
