"""C06 - quantity arithmetic is dimensionally sound; subtraction undoes addition.

Static operator-dispatch model: for every ordered triple (left, op, right) with left/right in the
quantity kinds found in the source plus `number`, the method Python would run is resolved through
the class table (MRO, the reflected-first rule for a right operand that is a proper subclass
overriding the reflected method, reflected dunders for a number on the left), and its body is
evaluated by sa.sx with *symbolic* operands: self = S SI-units expressed in unit a, other = O
SI-units expressed in unit b (a, b symbolic).  Every non-raising path must return the kind given
by dimensional analysis and an SI magnitude canonically equal to S op O - which is what makes
(a+b)-b = a and a-b = -(b-a) hold for every unit choice."""
from __future__ import annotations

from sa import sx as sxm
from sa.algebra import Rat
from sa.spec.si import DIMS, SUBKINDS, result_kind
from sa.sx import SX, Q, N, U, CannotDecide, Outcome

OPS = {'+': ('__add__', '__radd__'), '-': ('__sub__', '__rsub__'), '*': ('__mul__', '__rmul__'),
       '/': ('__truediv__', '__rtruediv__')}
# operations the property statement lists as defined (must be accepted, not merely "TypeError or right")
REQUIRED = [('AngularSpeed', '*', 'Time'), ('AngularAcceleration', '*', 'Time'), ('Torque', '/', 'InertiaMoment'),
            ('Torque', '/', 'Length'), ('Force', '/', 'Surface'), ('Length', '*', 'Length'),
            ('AngularSpeed', '*', 'TimeInterval'), ('AngularAcceleration', '*', 'TimeInterval')]


def oracle_kind(left, op, right):
    """expected result: kind name, 'number', or None (must raise)"""
    if left == 'number' and right == 'number':
        return 'number'
    if left == 'number':
        return right if op == '*' else None
    if right == 'number':
        return left if op in '*/' else None
    return result_kind(left, op, right)


def dispatch(sx: SX, model, left, op, right):
    """-> (list of (method qualname, outcomes)), following Python's binary-operator protocol for the
    classes of the package (no dunder returns NotImplemented in gearpy: a returned value or a raise
    ends the dispatch)"""
    fwd, refl = OPS[op]
    S, O = Rat.atom('S'), Rat.atom('O')

    def val(kind, term, usym):
        return N(term) if kind == 'number' else Q(kind, term, U(sym=usym))

    def run(recv_kind, meth, recv_term, recv_u, oth_kind, oth_term, oth_u):
        m = model.find_member(recv_kind, meth)
        if m is None:
            return None
        params = [a.arg for a in m.node.args.args]
        pname = params[1] if len(params) > 1 else 'other'
        outs = sx.run(m.node, m.module, m.cls, val(recv_kind, recv_term, recv_u),
                      {pname: val(oth_kind, oth_term, oth_u)})
        return m, outs

    if left == 'number':
        r = run(right, refl, O, 'b', 'number', S, None)
        if r is None:
            return None, [('raise', 'TypeError', None)]
        return r
    if right != 'number' and right != left and model.is_subclass(right, left):
        rm, lm = model.find_member(right, refl), model.find_member(left, refl)
        if rm is not None and (lm is None or rm.cls != lm.cls):
            return run(right, refl, O, 'b', left, S, 'a')
    r = run(left, fwd, S, 'a', right, O, 'b')
    if r is None:
        if right != 'number':
            r2 = run(right, refl, O, 'b', left, S, 'a')
            if r2 is not None:
                return r2
        return None, [('raise', 'TypeError', None)]
    return r


_ARITH_DUNDERS = {f'__{p}{o}__' for o in ('add', 'sub', 'mul', 'truediv', 'floordiv', 'mod', 'pow', 'matmul') for p in ('', 'r', 'i')} | \
    {'__neg__', '__pos__', '__abs__'}


def check_operands(model, rep, R='C06.operands'):
    """an operation returns its result and leaves both operands as they were: quantities are handed out by reference
    (`motor.inertia_moment` is the motor's own object), so an operator - in particular an in-place one picked up by
    `x += y` / `x *= k` - that writes into `self` or `other` changes every holder of that object"""
    import ast
    kinds = sorted(set(model.quantity_kinds()) | {'UnitBase'})
    for k in kinds:
        ci = model.classes.get(k)
        if ci is None:
            continue
        bad = []
        n = 0
        for m in ci.all_members():
            if m.name not in _ARITH_DUNDERS:
                continue
            n += 1
            params = {a.arg for a in m.node.args.args}

            def root(e):
                while isinstance(e, (ast.Attribute, ast.Subscript)):
                    e = e.value
                return e.id if isinstance(e, ast.Name) else None
            for x in ast.walk(m.node):
                tg = []
                if isinstance(x, ast.Assign):
                    tg = x.targets
                elif isinstance(x, (ast.AugAssign, ast.AnnAssign)):
                    tg = [x.target]
                elif isinstance(x, ast.Delete):
                    tg = x.targets
                for t in tg:
                    for e in (t.elts if isinstance(t, (ast.Tuple, ast.List)) else [t]):
                        if isinstance(e, (ast.Attribute, ast.Subscript)) and root(e) in params:
                            bad.append((x.lineno, m.name, f'writes `{ast.unparse(e)[:40]}`'))
                if isinstance(x, ast.Call):
                    if isinstance(x.func, ast.Name) and x.func.id in ('setattr', 'delattr') and x.args and root(x.args[0]) in params:
                        bad.append((x.lineno, m.name, f'`{ast.unparse(x)[:50]}`'))
                    if isinstance(x.func, ast.Attribute) and root(x.func.value) in params and any(
                            kw.arg == 'inplace' and not (isinstance(kw.value, ast.Constant) and kw.value.value is False) for kw in x.keywords):
                        bad.append((x.lineno, m.name, f'converts an operand in place: `{ast.unparse(x)[:50]}`'))
        if bad:
            for ln, name, what in bad[:3]:
                rep.violation(R, f'{k}.{name}', f'the operator {what}: the operand object is shared with whoever handed it out (an element\'s '
                              f'own field, a recorded sample), so the operation changes state it does not own', f'{ci.module}:{ln}')
        else:
            rep.holds(R, f'{k}', f'{n} operator method(s), none writes into an operand')
    rep.require(R, 14, 'UnitBase and the 13 kinds')


def check_negation(model, rep, sx, R='C06.neg'):
    """`a - b equals -(b - a)` needs the negation: -q returns the same kind with SI magnitude -S; it may raise ValueError only
    where the result would violate the kind's own sign constraint - so a signed kind never refuses, a non-negative kind accepts
    its null value (-0 is the null quantity again), a strictly positive kind always refuses"""
    from sa.spec.si import SIGN
    from sa.sx import make_cmp
    ctx = sx.ctx
    S = Rat.atom('S')
    for kind in sorted(model.quantity_kinds()):
        m = model.find_member(kind, '__neg__')
        cons = f'{kind}.__neg__'
        if m is None:
            rep.violation(R, cons, 'no negation', '')
            continue
        sx.dispatch_quantity_ops = True
        try:
            outs = sx.run(m.node, m.module, m.cls, Q(kind, S, U(sym='a')))
        except CannotDecide as e:
            rep.cannot(R, cons, str(e), m.loc)
            continue
        finally:
            sx.dispatch_quantity_ops = False
        rep.inspect()
        rets = [o for o in outs if o.kind == 'return']
        raises = [o for o in outs if o.kind == 'raise']
        ok, why = True, ''
        for o in rets:
            v = o.value
            if not (isinstance(v, Q) and v.kind == kind and ctx.eq(v.term, -S)):
                ok, why = False, f'returns `{sx.show(v)[:60]}`, specified a {kind} of SI magnitude -S'
        want = SIGN.get(kind)
        if want is None:
            if raises:
                ok, why = False, f'a signed kind refuses its negation with {raises[0].value} (line {raises[0].loc})'
            if not rets:
                ok, why = False, 'no path returns'
        elif want == 'nonneg':
            zero_ok = any(o.state.with_guard(make_cmp('==', S)) is not None for o in rets)
            if not zero_ok:
                ok, why = False, ('the null value is refused: -q must give the null quantity again (it is what `a - b = -(b - a)` needs when '
                                  'a and b have the same magnitude)')
        rep.decide(ok, R, cons, why, loc=m.loc)
    rep.require(R, 13, 'one instance per kind')


def check(model, rep):
    # hidden state Python keeps outside the objects (not modelled by the evaluator): reported before anything else is evaluated
    from checks.solver_common import package_lints as _package_lints
    _package_lints(model, rep, 'C06.hidden-state', ('/units/',))
    rep.explain('C06: exhaustive static dispatch model over every (left, op, right) triple of the quantity kinds '
                'found in gearpy/units plus plain numbers; each operator body is evaluated with symbolic SI '
                'magnitudes and symbolic operand units; non-raising paths must return the dimensional-analysis '
                'kind and an SI magnitude canonically equal to S op O (unit factors must cancel). Rounding is '
                'not decided.')
    sx = SX(model)
    sx.inline_ctor_guards = True      # positive-only kinds: the constructor's sign check is part of the operator's paths
    sxm.POSITIVE_ATOMS.clear()
    ctx = sx.ctx
    kinds = sorted(model.quantity_kinds())
    unknown = [k for k in kinds if k not in DIMS]
    if unknown:
        rep.cannot('C06.kind', '<kinds>', f'quantity kinds without a dimension vector in the oracle: {unknown}')
        return
    S, O = Rat.atom('S'), Rat.atom('O')
    expect = {'+': S + O, '-': S - O, '*': S * O, '/': S / O}
    cats = kinds + ['number']
    accepted, rejected = [], 0
    methods_seen = set()
    triples = 0
    for left in cats:
        for right in cats:
            if left == right == 'number':
                continue
            for op in OPS:
                triples += 1
                name = f'{left} {op} {right}'
                try:
                    m, outs = dispatch(sx, model, left, op, right)
                except CannotDecide as e:
                    rep.cannot('C06.kind', name, str(e))
                    continue
                rep.inspect()
                where = f'{m.cls}.{m.name}[other={right if m.name.startswith("__r") is False else left}]' if m else name
                loc = m.loc if m else ''
                if m:
                    methods_seen.add(m.qualname)
                rets = [o for o in outs if isinstance(o, Outcome) and o.kind in ('return', 'fall')]
                want = oracle_kind(left, op, right)
                if not rets:
                    rejected += 1
                    if (left, op, right) in REQUIRED:
                        rep.violation('C06.required', name, 'an operation the property lists as defined raises on every path', loc)
                    else:
                        kinds_raised = {o.value if isinstance(o, Outcome) else o[1] for o in outs}
                        odd = sorted(k for k in kinds_raised if k not in ('TypeError', 'ZeroDivisionError', 'ValueError'))
                        if odd:
                            rep.violation('C06.kind', where, f'operand kind is not rejected with TypeError but fails with {odd}', loc, triple=name)
                        else:
                            rep.holds('C06.kind', name, 'rejected on every path (TypeError)', loc)
                    continue
                accepted.append((left, op, right))
                # an accepted pair is accepted for the whole range of its operands: besides TypeError (kind), a path may raise only
                # ZeroDivisionError for a division and ValueError when the RESULT kind (or an operand kind) carries a sign constraint
                from sa.spec.si import SIGN
                for o in outs:
                    if isinstance(o, Outcome) and o.kind == 'raise':
                        exc = o.value
                        fine = exc == 'TypeError' or (exc == 'ZeroDivisionError' and op == '/') or \
                            (exc == 'ValueError' and (want in SIGN or left in SIGN or right in SIGN and want in SIGN))
                        if exc == 'ValueError' and want not in SIGN:
                            fine = False
                        if not fine:
                            rep.violation('C06.kind', where, f'the pair is accepted (returns {want}) but part of the operands\' range is refused with '
                                          f'{exc} (line {o.loc}) although the result kind {want} has no sign constraint: whether the operation '
                                          f'is defined depends on the magnitude', loc, triple=name)
                            break
                ok_kind = ok_si = ok_unit = True
                detail_k = detail_s = detail_u = ''
                udep = False
                for o in rets:
                    v = o.value if o.kind == 'return' else None
                    if isinstance(v, Q):
                        got, term = v.kind, v.term
                    elif isinstance(v, N):
                        got, term = 'number', v.term
                    else:
                        got, term = f'{type(v).__name__}', None
                    if want is None or got != want:
                        ok_kind = False
                        detail_k = f'returns {got} at line {o.loc}, dimensional analysis gives {want or "no defined result"}'
                    if term is not None:
                        if not ctx.eq(term, expect[op]):
                            ok_si = False
                            detail_s = f'SI(result) = {ctx.show(ctx.reduce(term))[:160]} instead of S {op} O (line {o.loc})'
                            fs = [a for a in (term.n.atoms() | term.d.atoms()) if a.startswith('F[')]
                            if fs:
                                from fractions import Fraction
                                t1 = ctx.subst(term, {a: Rat.const(1) for a in fs})
                                t2 = ctx.subst(term, {a: Rat.const(Fraction(7, 3)) for a in fs})
                                udep = udep or not ctx.eq(t1, t2)
                    # unit rule relied upon by the formula checks: same-family / scalar results keep the
                    # receiver's unit, cross-kind results are expressed in the SI unit
                    if isinstance(v, Q) and v.unit is not None:
                        recv = right if (m and m.name.startswith('__r')) else left
                        if SUBKINDS.get(v.kind, v.kind) == SUBKINDS.get(recv, recv):
                            recv_sym = 'b' if (m and m.name.startswith('__r')) else 'a'
                            if v.unit.sym != recv_sym:
                                ok_unit = False
                                detail_u = f'result unit {v.unit!r}, expected the receiver operand\'s unit'
                        else:
                            if v.unit.lit is None or not sx.tables.factor(v.kind, v.unit.lit).eq(Rat.const(1)):
                                ok_unit = False
                                detail_u = f'cross-kind result expressed in {v.unit!r}, expected the SI unit'
                rep.decide(ok_kind, 'C06.kind', where if not ok_kind else name, detail_k, loc=loc, triple=name)
                rep.decide(ok_si, 'C06.si-semantics', where if not ok_si else name, detail_s, loc=loc, triple=name, unit_dependent=udep)
                rep.decide(ok_unit, 'C06.unit-rule', where if not ok_unit else name, detail_u, loc=loc, triple=name)
    for t in REQUIRED:
        if t[0] in kinds and t[2] in kinds:
            rep.decide(t in accepted, 'C06.required', ' '.join(t), 'listed operation is not accepted')
    # conversions the operators rely on (other.to(self.unit), self.to('Nm'), private copies of sub-kinds):
    # the SI magnitude of an operation is right "whatever units the operands use" only if these hold too
    check_negation(model, rep, sx)
    check_operands(model, rep)
    from checks.c05 import check_tables, check_to, check_mirror
    check_tables(model, rep, sx.tables, R='C06.conv.table')
    check_to(model, rep, sx, sx.tables, R='C06.conv.to')
    check_mirror(model, rep, sx, R='C06.conv.mirror')
    from checks.c05 import check_ctor_stores
    check_ctor_stores(model, rep, sx, R='C06.conv.ctor')      # the operators read the private copies the constructors store
    rep.require('C06.kind', 700, 'one instance per triple')
    rep.exhaustive = True
    rep.analysed.update({'kinds': kinds, 'triples': triples, 'accepted': len(accepted), 'rejected': rejected,
                         'operator_methods_run': len(methods_seen)})
    rep.extra_coverage['accepted_triples'] = [' '.join(t) for t in accepted]
    rep.assume('no operator dunder of the package returns NotImplemented (checked: a NotImplemented return would be an unknown value and fail the kind rule)')
    rep.assume('q.to(u) preserves the SI magnitude (decided by C05)')
