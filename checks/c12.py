"""C12 - continuation and reset/rerun reproduce the same history.

Decided clause (structural):
* C12.cont   on the continuation path of Solver.run nothing is written to elements, recorded, or
             re-initialised before the stepping loop; stepping starts from Powertrain.time[-1]
* C12.unit   the stored last instant is combined with dt only through unit-aware quantity arithmetic
* C12.state  every Solver field that run() itself writes and reads is (re)initialised on a fresh start before
             the first instant (state kept on the solver object must not leak from an earlier schedule)
* C12.reset  Powertrain.reset empties the time axis and every time-variable list (a fresh list per key) and
             restores each attribute from the first sample of its own variable, under that variable's own guard
Not decided: equality of two whole trajectories (follows from determinism + the above, up to rounding)."""
from __future__ import annotations

import ast
import re

from checks.solver_common import run_model, classify, run_params, lock_flag_fields
from sa.algebra import Rat
from sa.solver_ir import SolverIR, atoms_deep, self_field_writes, value_atoms, flatten
from sa.spec.variables import VARIABLE_ATTR, VARIABLE_KINDS
from sa.sx import Q, N, Bv, Tv, Unk, Ov, CannotDecide, NoneV, guards_at

BASE6 = ('angular_position', 'angular_speed', 'angular_acceleration', 'torque', 'driving_torque', 'load_torque')
FLAG_OF = {'electric_current': ['electric_current_is_computable'],
           'tangential_force': ['tangential_force_is_computable'],
           'bending_stress': ['tangential_force_is_computable', 'bending_stress_is_computable'],
           'contact_stress': ['tangential_force_is_computable', 'bending_stress_is_computable', 'contact_stress_is_computable']}


def _once(rep, seen, key, ok, rule, cons, why, **kw):
    if key in seen:
        return
    seen.add(key)
    rep.decide(ok, rule, cons, why, **kw)


def check_run(model, rep):
    rm = run_model(model)
    for ln, text in sorted(set(rm.ir.sx.identity_compares)):
        rep.violation('C12.cont', 'Solver.run:identity-test', f'`{text}` compares two numbers by object identity: the outcome depends on CPython\'s '
                      f'small-integer cache (history longer than 256 instants), so a continuation differs from the single run',
                      f'{rm.member.module}:{ln}')
    ctx = rm.ir.ctx
    mod = rm.member.module
    params = run_params(rm)
    dt = Rat.atom(params[0]) if params else None
    seen = set()
    written = self_field_writes(model, 'Solver', 'run')
    # fields read anywhere in the run tree
    read_fields = set()
    for rp in rm.paths:
        for g in rp.guards:
            for k in g.key:
                if isinstance(k, str) and k.startswith('self.'):
                    read_fields.add(k[5:].split('#')[0])
        for c, e in flatten(rp.raw.state.effects):
            vals = []
            if e[0] == 'store':
                vals.append(e[3])
            elif e[0] == 'call':
                vals += list(e[3]) + list(e[4].values())
            for v in vals:
                for a in value_atoms(ctx, v):
                    m = re.match(r'(?:carry|fold)\d+:(\w+)$', a)
                    if a.startswith('self.'):
                        read_fields.add(a[5:].split('.')[0].split('[')[0].split('#')[0])
                    elif m:
                        read_fields.add(m.group(1))
            if e[0] == 'loop':
                for p in e[1].paths:
                    for g in p.guards:
                        for k in g.key:
                            if isinstance(k, str) and k.startswith('self.'):
                                read_fields.add(k[5:].split('#')[0])
    state_fields = sorted(f for f in written if f in read_fields)
    rep.analysed['solver_state_fields'] = state_fields
    nf = nc = 0
    for k, rp in enumerate(rm.paths):
        first_time = next((j for j, ev in enumerate(rp.pre) if ev.kind == 'time'), len(rp.pre))
        if rp.fresh:
            nf += 1
            for f in state_fields:
                init = [j for j, ev in enumerate(rp.pre[:first_time]) if ev.kind == 'selfstore' and ev.raw[2] == f]
                ok = bool(init)
                _once(rep, seen, ('state', f, ok), ok, 'C12.state', f'Solver.{f}',
                      f'Solver.run reads and writes its field {f} but a fresh start (empty time axis) does not initialise it '
                      f'before the first instant: its value leaks from the previous schedule on the same solver '
                      f'(run, reset, rerun differs from a new solver)', loc=f'{mod}:{rm.member.node.lineno}')
        elif rp.fresh is False:
            nc += 1
            bad = None
            for ev in rp.pre:
                if ev.kind == 'time':
                    bad = (ev, 'appends an instant')
                elif ev.writes:
                    bad = (ev, f'writes {sorted({w.attr for w in ev.writes})} of the elements')
                elif any(c[1] == 'update_time_variables' for c in ev.calls):
                    bad = (ev, 'records a sample')
                elif ev.kind == 'selfstore':
                    v = ev.raw[3]
                    if isinstance(v, (Bv, NoneV)) or (isinstance(v, N) and v.term.is_const()):
                        bad = (ev, f're-initialises the solver field {ev.raw[2]} with a constant (state that must carry over '
                                   f'from the previous run, e.g. the lock of a self-locking powertrain)')
            ok = bad is None
            _once(rep, seen, ('cont', ok, bad[1] if bad else ''), ok, 'C12.cont', 'Solver.run[continuation]',
                  f'before stepping, the continuation branch {bad[1]} ({bad[0].text})' if bad else '',
                  loc=f'{mod}:{bad[0].lineno if bad else rm.member.node.lineno}')
            # start and unit
            L = rp.loop
            for b in rp.bodies:
                times = [ev for ev in b.events if ev.kind == 'time']
                if len(times) != 1:
                    continue
                val = times[0].raw[2]
                t = getattr(val, 'term', None)
                if t is None:
                    continue
                t = ctx.reduce(t)
                starts = [a for a in atoms_deep(ctx, t) if a.endswith('.time[-1]')]
                grid_atoms = []
                if L.kind == 'grid':
                    for a in L.grid['args']:
                        grid_atoms += list(atoms_deep(ctx, a.term)) if hasattr(a, 'term') else []
                    starts += [a for a in grid_atoms if a.endswith('.time[-1]')]
                oks = bool(starts)
                _once(rep, seen, ('start', oks), oks, 'C12.cont', 'Solver.run[continuation]:start',
                      'the continued run does not start from the last recorded instant Powertrain.time[-1]',
                      loc=f'{mod}:{times[0].lineno}')
                left = sorted(a for a in (set(atoms_deep(ctx, t)) | set(grid_atoms)) if a.startswith('F['))
                oku = not left
                _once(rep, seen, ('unit', oku), oku, 'C12.unit', 'Solver.run[continuation]:instants',
                      f'the last recorded instant and the time step are combined through raw values: unit factors {left[:2]} do '
                      f'not cancel, so a continuation whose dt/T use another time unit than the earlier run is wrong',
                      loc=f'{mod}:{times[0].lineno}')
                break
    rep.decide(nf > 0 and nc > 0, 'C12.cont', 'Solver.run:branches',
               f'fresh-start paths: {nf}, continuation paths: {nc} (both are required)')


def check_reset(model, rep, R='C12.reset'):
    ir = SolverIR(model, opaque_methods=())
    ir.sx.variable_kinds = VARIABLE_KINDS
    try:
        m, outs = ir.run_method('Powertrain', 'reset')
    except CannotDecide as e:
        rep.cannot(R, 'Powertrain.reset', str(e))
        return
    sx = ir.sx
    done = [o for o in outs if o.kind in ('fall', 'return')]
    if len(done) != 1:
        # several exits: one path does the work, the others return early.  The samples live in the elements, not in the Powertrain
        # object (a second Powertrain over the same elements starts with an empty axis and full lists), so an exit that is taken on
        # the state of the Powertrain's own axis and skips the elements leaves their lists as they are
        full = [o for o in done if any(e[0] == 'loop' for e in o.state.effects)]
        skipping = [o for o in done if not any(e[0] == 'loop' for e in o.state.effects)]
        tf = (ir.sx.trivial_getter_field('Powertrain', 'time') or '_Powertrain__time').split('__')[-1]
        own_axis = skipping and all(o.state.guards and all(tf in g.show(ir.ctx) for g in o.state.guards) for o in skipping)
        if len(full) == 1 and own_axis:
            for o in skipping:
                rep.violation(R, 'Powertrain.reset:skipped', f'reset returns without touching the elements when {[g.show(ir.ctx)[:60] for g in o.state.guards]}: '
                              f'the recorded samples belong to the elements, which may carry a history this Powertrain object has no axis for '
                              f'(elements simulated through another Powertrain object); the next run then records on top of the old samples',
                              f'{m.module}:{o.loc or m.node.lineno}')
            done = full
        else:
            rep.cannot(R, 'Powertrain.reset', f'{len(done)} completing paths', m.loc)
            return
    effs = done[0].state.effects
    # time axis emptied
    tfield = sx.trivial_getter_field('Powertrain', 'time') or '_Powertrain__time'      # the private field the `time` property returns
    t_ok = any(e[0] == 'store' and e[1] == 'self' and e[2] == tfield and isinstance(e[3], Tv) and not e[3].items
               for e in effs) or any(e[0] == 'opaque-call' and str(e[1]).endswith(('time.clear', tfield.split('__')[-1] + '.clear')) for e in effs)
    rep.decide(t_ok, R, 'Powertrain.reset:time', 'the time axis is not emptied', loc=m.loc)
    loops = [e[1] for e in effs if e[0] == 'loop']
    eloops = [L for L in loops if L.kind == 'index']
    if len(eloops) != 1:
        rep.cannot(R, 'Powertrain.reset:elements', f'{len(eloops)} loops over the elements', m.loc)
        return
    L = eloops[0]
    all_ok = ir.ctx.eq(L.start, Rat.const(0)) and ir.ctx.eq(L.stop, Rat.atom('n'))
    rep.decide(all_ok, R, 'Powertrain.reset:coverage', f'reset visits {L.index_set(ir.ctx)}, all elements required', loc=m.loc)
    me = f'E[{ir.ctx.show(L.index)}]'
    restored = {}
    cleared = None
    shared_list = False
    for p in L.paths:
        for e in p.effects:
            if e[0] == 'store' and e[1] == me:
                restored.setdefault(e[2], []).append((sx.show(e[3]), guards_at(e, p.guards), e[4]))
            if e[0] == 'loop':
                for p2 in e[1].paths:
                    for e2 in p2.effects:
                        if e2[0] == 'setitem' and 'time_variables' in str(e2[1]) and isinstance(e2[3], Tv) and not e2[3].items \
                                and str(e2[2]).startswith('each<') and 'time_variables' in str(e2[2]):
                            cleared = True
                        if e2[0] == 'opaque-call' and str(e2[1]).endswith('.clear'):
                            cleared = True
            if e[0] == 'opaque-call' and 'fromkeys' in str(e):
                shared_list = True
    src = ast.unparse(m.node)
    if 'fromkeys' in src:
        shared_list = True
    # `<...>.time_variables.update(<argument>)`: a dict comprehension over the variables that builds a new `[]` / `list()` per key
    # clears like the loop does; `dict.fromkeys(keys, [])` hands ONE list to every key; anything else is not decided here
    undecided_update = False
    for c in ast.walk(m.node):
        if isinstance(c, ast.Call) and isinstance(c.func, ast.Attribute) and c.func.attr == 'update' \
                and 'time_variables' in ast.unparse(c.func.value) and len(c.args) == 1 and not c.keywords:
            a = c.args[0]
            fresh = isinstance(a, ast.DictComp) and len(a.generators) == 1 and 'time_variables' in ast.unparse(a.generators[0].iter) \
                and not a.generators[0].ifs and isinstance(a.key, ast.Name) and isinstance(a.generators[0].target, ast.Name) \
                and a.key.id == a.generators[0].target.id \
                and ((isinstance(a.value, ast.List) and not a.value.elts)
                     or (isinstance(a.value, ast.Call) and isinstance(a.value.func, ast.Name) and a.value.func.id == 'list' and not a.value.args))
            if fresh:
                cleared = True
            elif 'fromkeys' in ast.unparse(a):
                shared_list = True
            else:
                undecided_update = True
    if undecided_update and not shared_list:
        cleared = None
    if shared_list and not cleared:
        rep.violation(R, 'Powertrain.reset:clear', 'the time-variable lists are replaced through dict.fromkeys/update with a '
                      'single list object shared by every variable (the rerun appends all variables into one list)', m.loc)
    elif cleared:
        rep.holds(R, 'Powertrain.reset:clear', 'every key of every element gets a fresh empty list', m.loc)
    else:
        rep.cannot(R, 'Powertrain.reset:clear', 'clearing of the time variables is outside the recognised idioms', m.loc)
    # restores
    attr_key = {v: k for k, v in VARIABLE_ATTR.items()}
    for attr in BASE6 + ('pwm',):
        if attr not in restored:
            rep.violation(R, f'Powertrain.reset:restore[{attr}]', f'{attr} is not restored to its first recorded sample', m.loc)
    for attr, lst in sorted(restored.items()):
        key = attr_key.get(attr)
        ok, why, line = True, '', m.node.lineno
        # controlling guards = those common (same polarity) to every path on which the store happens
        common = None
        for text, guards, ln in lst:
            ks = {(g.kind, g.key, g.pol) for g in guards}
            common = ks if common is None else (common & ks)
        lst = [(text, tuple(g for g in guards if (g.kind, g.key, g.pol) in common), ln) for text, guards, ln in lst]
        for text, guards, ln in lst:
            line = ln
            want = f"{me}.time_variables[{key!r}][0]"
            if key is None or not text.endswith(want):
                ok, why = False, f'{attr} is restored from `{text[:80]}`, specified the first sample of {key!r}'
                break
            flags = sorted(g.key[0].split('.')[-1] for g in guards if g.kind == 'truth' and g.pol)
            neg = [g for g in guards if g.kind in ('truth', 'isnone') and not g.pol and g.kind == 'truth']
            allowed = sorted(FLAG_OF.get(attr, []))
            if flags != allowed or neg:
                ok, why = False, (f'the restore of {attr} is conditional on {flags or "nothing"}'
                                  f'{" and on negated flags" if neg else ""}; its own recording guard is {allowed or "unconditional"}')
                break
            inst = [g.key[1] for g in guards if g.kind == 'isinstance' and g.pol]
            if attr in BASE6 and (inst or flags):
                ok, why = False, f'{attr} is restored only for some element classes {inst}'
                break
            if attr == 'pwm' and not any('MotorBase' in str(i) or 'DCMotor' in str(i) for i in inst):
                ok, why = False, 'pwm restored outside the motor branch'
                break
        rep.decide(ok, R, f'Powertrain.reset:restore[{attr}]', why, loc=f'{m.module}:{line}')
    rep.require(R, 9)


def check_pre_run_state(model, rep, R='C12.reset'):
    """reset replaces every element attribute by its FIRST RECORDED sample, i.e. by the value it had at the END of
    instant 0.  Whatever instant 0 of a fresh start reads of an attribute before writing it is pre-run state that the
    rerun cannot see again (it sees the end-of-instant-0 value instead) - except the documented initial conditions
    (position and speed, re-applied by the user).  For the boolean mode decider (the lock check) only the reads that
    can move the flag away from its fresh value count."""
    import ast
    from sa.solver_ir import SolverIR as _IR
    rm = run_model(model)
    mod = rm.member.module
    flags = lock_flag_fields(rm)
    flag = sorted(flags)[0].split('.', 1)[1] if flags else None
    decisive = {}
    if flag:
        for name, mem in model.classes['Solver'].members.items():
            if name in ('__init__', 'run'):
                continue
            if any(isinstance(n, ast.Attribute) and isinstance(n.ctx, ast.Store) and model.mangle('Solver', n.attr) == flag
                   for n in ast.walk(mem.node)):
                ir = _IR(model, opaque_methods=())
                ir.install_subscript()
                outs = ir.sx.run(mem.node, mem.module, 'Solver')
                attrs = set()
                for o in outs:
                    st = [e for e in o.state.effects if e[0] == 'store' and e[1] == 'self' and e[2] == flag]
                    if st and isinstance(st[-1][3], Bv) and st[-1][3].b is True:        # away from the fresh value False
                        for g in o.state.guards:
                            for k in g.key if isinstance(g.key, tuple) else ():
                                for a in re.findall(r'E\[[^\]]*\]\.(\w+)', str(k)):
                                    attrs.add(a)
                decisive[name] = attrs
    exposed = {}
    n_paths = 0
    for rp in rm.paths:
        if not rp.fresh:
            continue
        n_paths += 1
        ti = next((j for j, ev in enumerate(rp.pre) if ev.kind == 'time'), None)
        if ti is None:
            continue
        written = []
        for ev in rp.pre[ti + 1:]:
            reads = list(ev.reads)
            if any(c[1] == 'update_time_variables' for c in ev.calls):
                reads = []      # the recorder copies; that it only records what was computed is C17.computed
            dec = [c[1] for c in ev.calls if c[0] == 'self' and c[1] in decisive]
            if dec:
                reads = [r for r in reads if r.attr in decisive[dec[0]]]
            for r in reads:
                if r.attr in ('angular_position', 'angular_speed') or r.attr not in RESTORED:
                    continue
                if any(w.attr == r.attr and not w.who.disjoint(r.who) for w in written):
                    continue
                if any(w.attr == r.attr for w in ev.writes):
                    continue
                exposed.setdefault(r.attr, (ev.text, ev.lineno))
            written += list(ev.writes)
            for c in ev.calls:      # element methods compute_<attr>() write that attribute of their owner
                if c[1].startswith('compute_') and c[1][len('compute_'):] in RESTORED:
                    from sa.instant import Access, ANY
                    written.append(Access(c[1][len('compute_'):], ANY))
    for attr in sorted(RESTORED - {'angular_position', 'angular_speed'}):
        if attr in exposed:
            text, ln = exposed[attr]
            rep.violation(R, f'Solver.run[fresh start]:pre-run[{attr}]',
                          f'instant 0 of a fresh start reads {attr} before writing it (`{text[:60]}`), but reset() restores {attr} from the '
                          f'first recorded sample, i.e. its value at the END of instant 0: run, reset, rerun starts from another {attr} '
                          f'than the first run did', f'{mod}:{ln}')
        else:
            rep.holds(R, f'Solver.run[fresh start]:pre-run[{attr}]', 'written before read at instant 0 (or never read)', f'{mod}:{rm.member.node.lineno}')
    rep.decide(n_paths > 0, R, 'Solver.run[fresh start]:paths', 'no fresh-start path found')


RESTORED = {'angular_position', 'angular_speed', 'angular_acceleration', 'torque', 'driving_torque', 'load_torque', 'pwm',
            'electric_current', 'tangential_force', 'bending_stress', 'contact_stress'}


def check_stateless(model, rep, R='C12.reset'):
    """Powertrain.reset restores the elements and the clock only.  Everything else a schedule touches - control
    rules, the controller, sensors, timers, stop conditions - is reused as is by the rerun, so the methods the solver
    calls on them each instant must not keep state on the object (or anywhere else)."""
    from sa.extract import purity_scan
    targets = []
    for base, meths in (('RuleBase', ('apply',)), ('MotorControlBase', ('apply_rules',)), ('SensorBase', ('get_value',)),
                        ('Timer', ('is_active',)), ('StopCondition', ('check_condition',))):
        for cls in [base] + sorted(model.subclasses(base, strict=True)):
            for name in meths:
                m = model.find_member(cls, name)
                if m is not None and m.cls == cls:
                    targets.append(m)
    for mod_, fn in sorted(model.functions.values(), key=lambda x: (x[0], x[1].name)):
        if '/motor_control/rules/' in mod_:
            targets.append((mod_, fn))
    n = 0
    for t in targets:
        if isinstance(t, tuple):
            mod_, fn = t
            bad = purity_scan(model, None, fn, ())
            cons, loc = f'{fn.name}:stateless', f'{mod_}:{fn.lineno}'
        else:
            bad = purity_scan(model, t.cls, t.node, ())
            cons, loc = f'{t.qualname}:stateless', t.loc
        n += 1
        rep.decide(not bad, R, cons, f'it {bad[0][1] if bad else ""}: state kept outside the elements survives Powertrain.reset(), '
                   f'so run, reset, rerun on the same objects differs from the first run', loc=loc if not bad else loc.rsplit(":", 1)[0] + f':{bad[0][0]}')
    rep.inspect(n)
    rep.analysed['per_instant_methods_scanned_for_state'] = n


ONE_SHOT = {'zip', 'map', 'filter', 'iter', 'reversed', 'enumerate'}


def check_one_shot_state(model, rep, R='C12.state'):
    """a field bound to a one-shot iterator (zip / map / filter / generator expression ...) is consumed by its first
    traversal: whatever loops over it sees the elements during the first run and nothing during a continuation or a
    rerun on the same object"""
    import ast
    n = 0
    found = 0
    for cname, ci in sorted(model.classes.items()):
        if '/units/' in ci.module:
            continue
        stored = {}
        for m in ci.all_members():
            for x in ast.walk(m.node):
                if isinstance(x, ast.Assign) and len(x.targets) == 1 and isinstance(x.targets[0], ast.Attribute) \
                        and isinstance(x.targets[0].value, ast.Name) and x.targets[0].value.id == 'self':
                    v = x.value
                    if isinstance(v, ast.GeneratorExp) or (isinstance(v, ast.Call) and isinstance(v.func, ast.Name) and v.func.id in ONE_SHOT):
                        stored[x.targets[0].attr] = (m, x)
        n += 1
        for attr, (m, x) in sorted(stored.items()):
            readers = [mm.name for mm in ci.all_members() for y in ast.walk(mm.node)
                       if isinstance(y, ast.Attribute) and y.attr == attr and isinstance(y.ctx, ast.Load)
                       and isinstance(y.value, ast.Name) and y.value.id == 'self']
            if readers:
                found += 1
                rep.violation(R, f'{cname}.{attr}:one-shot', f'`{ast.unparse(x)[:70]}` in {m.name} stores a one-shot iterator that {sorted(set(readers))[:3]} '
                              f'read(s): the first traversal exhausts it, a continuation or a rerun on the same object iterates over nothing',
                              f'{ci.module}:{x.lineno}')
    if not found:
        rep.holds(R, 'fields:one-shot', f'{n} classes scanned: no field is bound to a zip/map/filter/generator object')
    rep.inspect(n)


def check_memoised(model, rep, R='C12.reset', only=None):
    """a memoising decorator on anything that reads object state keeps answers across run / reset / rerun (and across objects that
    hash alike); the evaluator does not model it, so every memoised function of the package that reads an attribute is reported"""
    import ast
    n = 0
    found = 0
    units = [(f'{fname}', mod, fn) for fname, (mod, fn) in model.functions.items()]
    for cname, ci in model.classes.items():
        for mem in ci.all_members():
            units.append((mem.qualname, ci.module, mem.node))
    for qual, mod, fn in units:
        if only is not None and not any(k in mod for k in only):
            continue
        n += 1
        decos = [ast.unparse(d) for d in fn.decorator_list if 'cache' in ast.unparse(d)]
        if not decos:
            continue
        reads = sorted({ast.unparse(a)[:40] for a in ast.walk(fn) if isinstance(a, ast.Attribute) and isinstance(a.ctx, ast.Load)
                        and not isinstance(a.value, ast.Call)})
        if reads:
            found += 1
            rep.violation(R, f'{qual}:memoised', f'@{decos[0]} keeps the first answer while the function reads state ({reads[:3]}): a later call - another '
                          f'instant, after reset, after an in-place unit conversion of the object read - gets the remembered value', f'{mod}:{fn.lineno}')
    if not found:
        rep.holds(R, 'functions:memoised', f'{n} functions and methods: none is memoised over object state')


def check(model, rep):
    # hidden state Python keeps outside the objects (not modelled by the evaluator): reported before anything else is evaluated
    from checks.solver_common import package_lints as _package_lints
    _package_lints(model, rep, 'C12.hidden-state', ('/solver.py', '/powertrain.py', '/motor_control/', '/sensors/', '/stop_condition/', '/mechanical_objects/'))
    from checks.solver_common import absorb_arith, TIME_ARITH, EULER_ARITH, KIN_ARITH, TORQUE_ARITH
    absorb_arith(model, rep, 'C12.dep.arith', TIME_ARITH + EULER_ARITH, solver_log=True)      # a rerun starts from the same constants only if the step's arithmetic leaves them alone
    rep.explain('C12: on the solver IR the continuation branch of Solver.run must reach the stepping loop without writing '
                'element state, recording, appending an instant or re-initialising solver state with constants, and step from '
                'Powertrain.time[-1] with unit-aware arithmetic; every Solver field that run() both writes and reads must be '
                'initialised on the fresh-start branch before the first instant (upward-exposed solver state); Powertrain.reset '
                'is evaluated symbolically: time emptied, every element visited, every variable list replaced by a fresh list, '
                'each attribute restored from sample [0] of its own variable under exactly that variable\'s recording guard.')
    try:
        check_run(model, rep)
    except CannotDecide as e:
        rep.cannot('C12.cont', 'Solver.run', str(e))
    # "continuing for T2 ... yields the same time axis as one run of T1+T2": the number of instants of each leg must be additive,
    # which is C11's count / grid rule (round(T/dt) instants dt apart from the last recorded one)
    from sa.core import Report
    from checks import c11
    dep = Report('C11')
    try:
        c11.check(model, dep)
        rep.absorb(dep, {'C11.grid': 'C12.cont.grid', 'C11.count': 'C12.cont.count'})
    except CannotDecide as e:
        rep.cannot('C12.cont.grid', 'Solver.run', str(e))
    check_reset(model, rep)
    check_stateless(model, rep)
    check_one_shot_state(model, rep)
    check_memoised(model, rep)
    from sa.aliases import descriptor_findings
    for cname, attr, dcls, mod_, ln, detail in descriptor_findings(model):
        rep.violation('C12.reset', f'{cname}.{attr}:descriptor', detail, f'{mod_}:{ln}')
    from sa.aliases import alias_findings
    found, nscan = alias_findings(model)
    for cname, f, ln, mod_, detail in found:
        rep.violation('C12.reset', f'{cname}.{f}:alias', detail, f'{mod_}:{ln}')
    if not found:
        rep.holds('C12.reset', 'fields:alias', f'{nscan} classes scanned: no field keeps a reference to a container that its owner rebinds (time axis, time_variables entries)')
    try:
        check_pre_run_state(model, rep)
    except CannotDecide as e:
        rep.cannot('C12.reset', 'Solver.run[fresh start]:pre-run', str(e))
    rep.require('C12.state', 1)
    rep.require('C12.cont', 3)
    rep.require('C12.unit', 1)
    rep.assume('element and rule objects carry no other hidden state across runs (rules are pure: C15/C16 purity rules)')
