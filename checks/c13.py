"""C13 - a self-locking powertrain is never driven by its load (structural clause only).

* C13.lock-table   the lock / unlock decision as an exhaustive sign table: lock <=> the powertrain is
                   self-locking and (pwm = 0 or sign(pwm) opposes sign(motor speed)); unlock <=> the motor's net torque
                   is known and has the sign of a non-zero pwm; otherwise the flag is unchanged
* C13.only-if      the flag is set only under Powertrain.self_locking and has no other writer
* C13.clamp        when locked, speed and acceleration of ALL elements are zeroed and the acceleration update is
                   skipped; the clamp sits after propagation and before the load call and the recorder
* C13.flag-source  Powertrain.self_locking is computed from the worm gears' flags at assembly (delegated to C20)
This decides the predicate and its placement, not the trajectory-level statement, which also depends on
magnitudes."""
from __future__ import annotations

import ast

from checks.solver_common import run_model, classify, lock_flag_fields, instant_order_findings
from sa.extract import truth_table
from sa.match import SpecCtx
from sa.solver_ir import SolverIR
from sa.sx import SX, Ov, Bv, Outcome, CannotDecide, guards_at

LOCK = ('self.__powertrain.self_locking and (m.pwm == 0 or (m.pwm > 0 and m.angular_speed < ZERO_W) or '
        '(m.pwm < 0 and m.angular_speed > ZERO_W))')
UNLOCK = ('not (' + LOCK + ') and m.torque is not None and ((m.torque > ZERO_T and m.pwm > 0) or '
          '(m.torque < ZERO_T and m.pwm < 0))')


def check_decision(model, rep):
    ir = SolverIR(model, opaque_methods=())
    m = model.member('Solver', '_check_powertrain_is_locked') if model.find_member('Solver', '_check_powertrain_is_locked') \
        else None
    # find the method semantically: the Solver method that writes a field which guards the clamp
    rm = run_model(model)
    flags = lock_flag_fields(rm)
    if not flags:
        rep.cannot('C13.lock-table', 'Solver', 'no lock flag found (no clamp event guarded by a solver field)')
        return None
    flag = sorted(flags)[0].split('.', 1)[1]
    writers = []
    for name, mem in model.classes['Solver'].members.items():
        for n in ast.walk(mem.node):
            if isinstance(n, ast.Attribute) and isinstance(n.ctx, ast.Store) and model.mangle('Solver', n.attr) == flag:
                writers.append(mem)
                break
    pure = SolverIR.state_deciders(model)
    deciders = [w for w in writers if w.name not in ('__init__', 'run') and w.name in pure]
    if len(deciders) != 1:
        rep.cannot('C13.lock-table', 'Solver', f'expected one method deciding the lock flag, found {[w.name for w in deciders]}')
        return flag
    dec = deciders[0]
    ir.install_subscript()
    sx = ir.sx
    # the powertrain's self-locking property is ONE boolean here, however its getter computes it (its meaning is C20's / flag-source)
    sx.opaque_calls |= {'Powertrain.self_locking'}
    outs = sx.run(dec.node, dec.module, 'Solver')
    rep.inspect(len(outs))
    lock_paths, unlock_paths = [], []
    for o in outs:
        if o.kind == 'raise':
            rep.violation('C13.lock-table', f'Solver.{dec.name}', f'the decision can raise {o.value}', dec.loc)
            continue
        stores = [e for e in o.state.effects if e[0] == 'store' and e[1] == 'self' and e[2] == flag]
        val = stores[-1][3] if stores else None
        g = list(o.state.guards)
        lock_paths.append((g, isinstance(val, Bv) and val.b is True))
        unlock_paths.append((g, isinstance(val, Bv) and val.b is False))
        if val is not None and not isinstance(val, Bv):
            rep.violation('C13.lock-table', f'Solver.{dec.name}', f'the flag is assigned `{sx.show(val)[:60]}`, not a constant', dec.loc)
    spec = SpecCtx(sx, 'Solver', env={})
    spec.env['m'] = spec.value('self.__powertrain.elements[0]')
    spec.env['ZERO_W'] = spec.value("AngularSpeed(0, 'rad/s')")
    spec.env['ZERO_T'] = spec.value("Torque(0, 'Nm')")
    for name, paths, expr in (('lock', lock_paths, LOCK), ('unlock', unlock_paths, UNLOCK)):
        try:
            dnf = spec.guard_dnf(expr)
        except CannotDecide as e:
            rep.cannot('C13.lock-table', f'Solver.{dec.name}[{name}]', str(e), dec.loc)
            continue
        bad, atoms = truth_table(paths, dnf)
        if bad is None:
            rep.cannot('C13.lock-table', f'Solver.{dec.name}[{name}]', f'too many atoms ({len(atoms)})', dec.loc)
        elif bad and any(k[0] in ('truth', 'opaque') and '(' in str(k[1]) and not str(k[1]).startswith("('self.") for k in atoms):
            # the decision reads something the evaluator does not follow (a comparison picked from a table and called through an
            # attribute: `direction.along(pwm, 0)`): its atoms are not the specification's - undecided, not a verdict
            odd = [str(k[1])[:50] for k in atoms if k[0] in ('truth', 'opaque') and '(' in str(k[1]) and not str(k[1]).startswith("('self.")]
            rep.cannot('C13.lock-table', f'Solver.{dec.name}[{name}]', f'the decision is written with calls the evaluator does not follow: {odd[:2]}', dec.loc)
        elif bad:
            a, why = bad[0]
            rep.violation('C13.lock-table', f'Solver.{dec.name}[{name}]',
                          f'the {name} decision differs from the specification ({why}) for '
                          f'{[(str(k[1])[:50], v) for k, v in a.items()]}', dec.loc)
        else:
            rep.holds('C13.lock-table', f'Solver.{dec.name}[{name}]',
                      f'exhaustive table over {len(atoms)} atoms/sign variables equals the specification', dec.loc)
    # only-if: every True store is dominated by the self_locking test
    for o in outs:
        for e in o.state.effects:
            if e[0] == 'store' and e[1] == 'self' and e[2] == flag and isinstance(e[3], Bv) and e[3].b:
                g = guards_at(e, o.state.guards)
                ok = any(x.kind == 'truth' and x.pol and str(x.key[0]).endswith('.self_locking') for x in g)
                rep.decide(ok, 'C13.only-if', f'Solver.{dec.name}', 'the flag is set to True on a path that does not test '
                           'Powertrain.self_locking (a powertrain without a self-locking mating could be clamped)',
                           loc=f'{dec.module}:{e[4]}')
    def only_clears(mem):
        # an initialiser: every assignment to the flag in it is the constant False (e.g. a fresh-start helper)
        vals = [n.value for n in ast.walk(mem.node) if isinstance(n, ast.Assign)
                and any(isinstance(t, ast.Attribute) and model.mangle('Solver', t.attr) == flag for t in n.targets)]
        return all(isinstance(v, ast.Constant) and v.value is False for v in vals)
    other = [w.name for w in writers if w.name not in ('__init__', 'run', dec.name) and not only_clears(w)]
    rep.decide(not other, 'C13.only-if', 'Solver:flag-writers', f'the lock flag is also written by {other}', loc=dec.loc)
    return flag


def check_clamp(model, rep, flag):
    rm = run_model(model)
    mod = rm.member.module
    seen = set()
    ins = rm.instants()
    n_locked = 0
    for name, rp, events in ins:
        tags = [classify(rm, ev) for ev in events]
        locked = any(g.kind == 'truth' and g.pol and str(g.key[0]).split('#')[0].endswith(flag) for ev in events for g in ev.guards) or \
            any(g.kind == 'truth' and g.pol and str(g.key[0]).split('#')[0].endswith(flag) for g in rp.guards if name.startswith('fresh'))
        clamps = [i for i, t in enumerate(tags) if 'clamp' in t]
        if not locked:
            if clamps:
                k = ('clamp-unlocked',)
                if k not in seen:
                    seen.add(k)
                    rep.violation('C13.clamp', 'Solver.run:clamp-guard', 'speeds are zeroed on a path where the powertrain is not locked',
                                  f'{mod}:{events[clamps[0]].lineno}')
            continue
        n_locked += 1
        ok, why, line = True, '', rm.member.node.lineno
        if len(clamps) != 1:
            ok, why = False, f'{len(clamps)} clamp events on a locked path (exactly one specified)'
        else:
            ci = clamps[0]
            ev = events[ci]
            line = ev.lineno
            attrs = {}
            for a in ev.writes:
                attrs.setdefault(a.attr, []).append(a.who)
            if not (set(attrs) >= {'angular_speed', 'angular_acceleration'} and all(w.is_all() for ws in attrs.values() for w in ws)):
                ok, why = False, 'the clamp does not zero speed and acceleration of all elements'
            prop = [i for i, t in enumerate(tags) if any(x.startswith('kin:angular_speed') for x in t)]
            loadc = [i for i, t in enumerate(tags) if 'load-call' in t or 'write:load_torque' in t]
            rec = [i for i, t in enumerate(tags) if 'record' in t]
            if prop and not all(p < ci for p in prop):
                ok, why = False, 'the clamp runs before the speeds are propagated (propagation would overwrite the zeros)'
            if loadc and not all(ci < l for l in loadc):
                ok, why = False, 'the load torque is evaluated before the clamp (it would see the unclamped speed)'
            if not rec or not all(ci < r for r in rec):
                ok, why = False, 'the recorder does not follow the clamp'
            acc = [i for i, t in enumerate(tags) if 'kin:angular_acceleration' in t]
            if acc:
                ok, why = False, 'the acceleration is recomputed while locked'
        k = ('clamp', ok, why)
        if k not in seen:
            seen.add(k)
            rep.decide(ok, 'C13.clamp', 'Solver.run:locked-instant', why, loc=f'{mod}:{line}', detail=f'context {name}')
    # "the duty cycle in force": the speed of an instant is the outcome of the step driven with the duty cycle decided at the previous
    # instant, so the lock decision must read the duty cycle BEFORE the control of the instant replaces it
    pure = SolverIR.state_deciders(model)
    n_dec = 0
    bad = None
    for name, rp, events in ins:
        tags = [classify(rm, ev) for ev in events]
        dec = [i for i, (ev, t) in enumerate(zip(events, tags))
               if any(x.startswith('selfcall:') and x.split(':', 1)[1] in pure for x in t) and any(a.attr == 'pwm' for a in ev.reads)]
        ctl = [i for i, ev in enumerate(events) if any(a.attr == 'pwm' for a in ev.writes)]
        if not dec:
            continue
        n_dec += 1
        early = [c for c in ctl if c < dec[0]]
        if early and bad is None:
            bad = (name, events[early[0]].lineno, events[dec[0]].lineno)
    if n_dec:
        rep.decide(bad is None, 'C13.clamp', 'Solver.run:decision-before-control',
                   f'in context {bad[0] if bad else ""} the duty cycle is rewritten (line {bad[1] if bad else ""}) before the lock decision (line '
                   f'{bad[2] if bad else ""}) reads it: the recorded speed was produced under the previous duty cycle, so a sign change of the '
                   f'control at that instant hides a back-driven speed from the decision', loc=f'{mod}:{bad[1] if bad else rm.member.node.lineno}',
                   detail=f'{n_dec} instant contexts with a lock decision')
    else:
        rep.cannot('C13.clamp', 'Solver.run:decision-before-control', 'no instant context with a lock decision reading the duty cycle')
    rep.decide(n_locked > 0, 'C13.clamp', 'Solver.run:locked-contexts', 'no instant context in which the powertrain is locked was found')
    rep.analysed['locked_instant_contexts'] = n_locked


def check_flag_persistence(model, rep, flag):
    """a hold established in one run must survive into a continued run: run() may re-initialise the flag only
    on the fresh-start branch"""
    rm = run_model(model)
    bad = None
    for rp in rm.paths:
        if rp.fresh is False:
            for ev in rp.pre:
                if ev.kind == 'selfstore' and ev.raw[2] == flag:
                    bad = ev
    # run() itself may only ever assign the constant False (a fresh start is unlocked)
    wrong = None
    for rp in rm.paths:
        for ev in rp.pre:
            if ev.kind == 'selfstore' and ev.raw[2] == flag and not (isinstance(ev.raw[3], Bv) and ev.raw[3].b is False):
                wrong = ev
    rep.decide(wrong is None, 'C13.only-if', 'Solver.run:initial-flag',
               'Solver.run initialises the lock flag with something other than False: a powertrain without a self-locking mating '
               'would start clamped', loc=f'{rm.member.module}:{wrong.lineno if wrong else rm.member.node.lineno}')
    # the lock decision needs the CURRENT motor speed: it must follow the propagation of the instant
    from checks.solver_common import instant_order_findings
    seen = set()
    for name, rp, events in rm.instants():
        for kind, text, a, b, attr in instant_order_findings(rm, events):
            if any(t.startswith('selfcall:') for t in classify(rm, a)) and (a.text, b.text, attr) not in seen:
                seen.add((a.text, b.text, attr))
                rep.violation('C13.clamp', f'{a.text}|{b.text}|{attr}', 'the lock decision uses a stale value: ' + text,
                              f'{rm.member.module}:{a.lineno}')
    rep.decide(bad is None, 'C13.only-if', 'Solver.run:flag-on-continuation',
               'a continued run resets the lock flag before stepping: a powertrain held by self-locking under overload is '
               'released by every further run() call', loc=f'{rm.member.module}:{bad.lineno if bad else rm.member.node.lineno}')


def check(model, rep):
    # hidden state Python keeps outside the objects (not modelled by the evaluator): reported before anything else is evaluated
    from checks.solver_common import package_lints as _package_lints
    _package_lints(model, rep, 'C13.hidden-state', ('/solver.py', '/powertrain.py', '/utils/relations.py'))
    from checks.solver_common import absorb_cmp
    absorb_cmp(model, rep, 'C13.dep.cmp', ('AngularSpeed', 'Torque'))
    rep.explain('C13 (structural clause only): the method deciding the solver\'s lock flag is found semantically (the writer '
                'of the field that guards the clamp) and evaluated symbolically; lock and unlock decisions are compared with '
                'the specification as exhaustive tables over the boolean atoms and the signs of pwm, motor speed and motor net '
                'torque; True is assigned only under Powertrain.self_locking; in every locked instant context the uniform zero '
                'clamp over all elements sits after propagation, before the load call and the recorder, and the acceleration '
                'update is skipped. Whether a trajectory is "driven by its load" also depends on magnitudes and is not decided.')
    try:
        flag = check_decision(model, rep)
        if flag:
            check_clamp(model, rep, flag)
            check_flag_persistence(model, rep, flag)
    except CannotDecide as e:
        rep.cannot('C13.lock-table', 'Solver', str(e))
    # the flag's source: Powertrain.self_locking must be the 'any self-locking worm gear' scan (shared with C20)
    from checks.c20 import check_locking
    check_locking(model, rep, model.member('Powertrain', '__init__'), R='C13.flag-source')
    from sa.core import Report as _Report
    from checks.c20 import check_concrete
    _dep = _Report('C20')
    check_concrete(model, _dep, model.member('Powertrain', '__init__'))
    rep.absorb(_dep, {'C20.locking': 'C13.flag-source'})
    from checks.c20 import check_flag_writers
    check_flag_writers(model, rep, R='C13.flag-source')
    # ... and the worm's own flag is written by add_worm_gear_mating only: with the documented criterion, and only by a
    # call that is accepted (a refused call must leave the gears of the mating still in force untouched) - C10's rules
    from sa.core import Report
    from checks import c10
    dep = Report('C10')
    c10.check(model, dep)
    for i in dep.instances:
        if i.rule in ('C10.effects', 'C10.atomic'):       # every relation function: none but the worm mating may touch the flag
            (rep.holds if i.status == 'HOLDS' else (rep.violation if i.status == 'VIOLATION' else rep.cannot))(
                'C13.flag-source.mating.' + i.rule.split('.')[1], i.construct, i.detail, i.loc)
    # "while held, all speeds and accelerations are zero and positions stay constant": the clamp zeroes the STORED speed and
    # acceleration, so the hold relies on the integrator advancing the state from exactly those stored values, and on a
    # continued run stepping from the recorded state (C03's Euler rules, C12's continuation rule re-read there)
    if not getattr(check, '_skip_c03', False):
        from checks import c03
        dep = Report('C03')
        c03.check._skip_c13 = True
        try:
            c03.check(model, dep)
        except CannotDecide as e:
            rep.cannot('C13.clamp.integration', 'Solver.run', str(e))
        finally:
            c03.check._skip_c13 = False
        rep.absorb(dep, {'C03.euler': 'C13.clamp.integration'})
    rep.require('C13.lock-table', 2)
    rep.require('C13.only-if', 2)
    rep.require('C13.clamp', 2)
    rep.assume('Powertrain.self_locking reflects the worm criterion (C20.locking, C10.effects)')
