"""C16 - a stop condition ends the run at the first instant it holds.

* C16.place    in the stepping loop the condition is evaluated exactly once per iteration, after the instant has been
               computed and recorded, a true result reaches `break` with nothing in between and a false one continues;
               it is not evaluated on the fresh-start instant; nothing is recorded after a break
* C16.check    StopCondition.check_condition returns operator(sensor_value=sensor.get_value(), threshold=threshold)
               freshly on every call (no stored state)
* C16.ops      the five operator classes are the five comparisons with the sensor value on the left; the
               StopCondition.<name> attributes are bound to the matching operator instances
* C16.sensors  get_value() without unit returns the target's live attribute (position / speed / current); with a
               unit, that attribute converted; sensors keep no state
"""
from __future__ import annotations

import ast

from checks.solver_common import run_model, classify
from sa.algebra import Rat
from sa.solver_ir import value_atoms
from sa.sx import SX, Q, N, Ov, Bsym, Bv, Sv, Outcome, CannotDecide, cmp_guard, U, NoneV

OPS = {'GreaterThan': ast.Gt, 'GreaterThanOrEqualTo': ast.GtE, 'EqualTo': ast.Eq, 'LessThan': ast.Lt,
       'LessThanOrEqualTo': ast.LtE}
ATTRS = {'greater_than': 'GreaterThan', 'greater_than_or_equal_to': 'GreaterThanOrEqualTo', 'equal_to': 'EqualTo',
         'less_than': 'LessThan', 'less_than_or_equal_to': 'LessThanOrEqualTo'}
SENSORS = {'AbsoluteRotaryEncoder': ('angular_position', 'AngularPosition'), 'Tachometer': ('angular_speed', 'AngularSpeed'),
           'Amperometer': ('electric_current', 'Current')}


def check_place(model, rep):
    rm = run_model(model)
    mod = rm.member.module
    seen = set()

    def once(key, ok, cons, why, line):
        if key in seen:
            return
        seen.add(key)
        rep.decide(ok, 'C16.place', cons, why, loc=f'{mod}:{line}')
    n_with = 0
    for k, rp in enumerate(rm.paths):
        # fresh-start instant: no stop check
        fi = rm.fresh_instant(rp) if rp.fresh else None
        if fi is not None:
            stops = [ev for ev in fi if 'stop' in classify(rm, ev)]
            once(('fresh', not stops), not stops, 'Solver.run:fresh-start-instant',
                 'the stop condition is evaluated on the initial instant (the run could end before any step is computed)',
                 stops[0].lineno if stops else rm.member.node.lineno)
        for b in rp.bodies:
            guards = b.lp.guards
            has = any(g.kind == 'isnone' and not g.pol and g.key[0] == 'stop_condition' for g in guards) or \
                any(g.kind == 'isnone' and not g.pol and g.key[0] == 'stop_condition' for g in rp.guards)
            none = any(g.kind == 'isnone' and g.pol and g.key[0] == 'stop_condition' for g in tuple(guards) + tuple(rp.guards))
            tags = [classify(rm, ev) for ev in b.events]
            stops = [i for i, t in enumerate(tags) if 'stop' in t]
            if none or not has:
                once(('nostop', not stops and b.lp.exit == 'next'), not stops and b.lp.exit == 'next', 'Solver.run:no-condition',
                     f'without a stop condition the iteration {"evaluates one" if stops else "exits with " + b.lp.exit}',
                     rp.loop.lineno)
                continue
            n_with += 1
            ok, why, line = True, '', rp.loop.lineno
            if len(stops) != 1:
                ok, why = False, f'{len(stops)} evaluations of the stop condition per iteration (exactly one specified)'
            else:
                si = stops[0]
                line = b.events[si].lineno
                rec = [i for i, t in enumerate(tags) if 'record' in t]
                if not rec or not all(r < si for r in rec):
                    ok, why = False, ('the condition is evaluated before the instant is recorded (a true result would stop the run '
                                      'with the decisive instant missing, or the sensor would see a stale state)')
                later = [ev for ev in b.events[si + 1:] if ev.writes or ev.kind == 'time' or ev.calls]
                if later:
                    ok, why = False, f'`{later[0].text}` runs after the condition was evaluated in the same iteration'
                # everything the sensors may read must have been written before the check in this instant:
                # decided by the shared no-stale-read rule (a write after the check to an attribute it reads is flagged there)
                truth = [g for g in guards if g.kind == 'truth' and 'check_condition' in str(g.key)]
                if len(truth) != 1:
                    ok, why = False, 'the result of check_condition() does not decide the exit of the iteration'
                else:
                    if truth[0].pol and b.lp.exit != 'break':
                        ok, why = False, f'a true condition does not stop the run (iteration exits with {b.lp.exit}): the run ends late or never'
                    if not truth[0].pol and b.lp.exit != 'next':
                        ok, why = False, f'a false condition ends the iteration with {b.lp.exit}'
            once(('place', ok, why), ok, 'Solver.run:check-per-step', why, line)
        post_bad = [ev for ev in rp.post if ev.writes or ev.calls or ev.kind == 'time']
        once(('post', not post_bad), not post_bad, 'Solver.run:after-break',
             f'`{post_bad[0].text if post_bad else ""}` runs after the stepping loop (something is recorded after the stop)', rp.loop.lineno)
    rep.decide(n_with > 0, 'C16.place', 'Solver.run:contexts', 'no stepping context with a stop condition found')
    for o, evs in rm.early_exits:
        st = [ev for ev in evs if 'stop' in classify(rm, ev)]
        if st:
            once(('early', 1), False, 'Solver.run:early-exit', 'the run can return before stepping on the verdict of the stop '
                 'condition (evaluated on the initial instant)', st[0].lineno)
    # stale reads w.r.t. the stop check
    from checks.solver_common import instant_order_findings
    for name, rp, events in rm.instants():
        for kind, text, a, b, attr in instant_order_findings(rm, events):
            if 'stop' in classify(rm, a):
                k = ('order', b.text, attr)
                if k not in seen:
                    seen.add(k)
                    rep.violation('C16.place', f'{a.text}|{b.text}|{attr}', text, f'{mod}:{a.lineno}')


def check_condition(model, rep):
    sx = SX(model)
    m = model.member('StopCondition', 'check_condition')
    outs = sx.run(m.node, m.module, 'StopCondition')
    ok, why = True, ''
    if len(outs) != 1 or outs[0].kind != 'return':
        ok, why = False, f'{len(outs)} paths / {outs[0].kind if outs else None}: a condition that depends on stored state or can skip the evaluation'
    else:
        o = outs[0]
        calls = [e for e in o.state.effects if e[0] == 'call']
        stores = [e for e in o.state.effects if e[0] == 'store']
        opcalls = [e for e in calls if e[2] == 'operator']
        if stores:
            ok, why = False, f'check_condition stores state ({stores[0][1]}.{stores[0][2]}): later calls can answer from memory instead of the sensor'
        elif len(opcalls) != 1:
            ok, why = False, 'the operator is not applied exactly once'
        else:
            kw = opcalls[0][4]
            sv, th = kw.get('sensor_value'), kw.get('threshold')
            pos = opcalls[0][3]
            if sv is None and len(pos) >= 1:
                sv = pos[0]
            if th is None and len(pos) >= 2:
                th = pos[1]
            s_sv, s_th = sx.show(sv) if sv is not None else '', sx.show(th) if th is not None else ''
            if not s_sv.endswith('self.sensor.get_value()'):
                ok, why = False, f'sensor_value is `{s_sv[:80]}`, specified the sensor\'s current reading self.sensor.get_value()'
            elif not s_th.endswith('self.threshold'):
                ok, why = False, f'threshold is `{s_th[:80]}`, specified self.threshold'
            elif sx.show(o.value) != sx.show(sx.typed_atom(sx.show(o.value), None)) and 'operator(' not in sx.show(o.value):
                ok, why = False, f'returns `{sx.show(o.value)[:80]}`, not the operator\'s verdict'
    rep.decide(ok, 'C16.check', 'StopCondition.check_condition', why, loc=m.loc)
    # class attributes
    ci = model.cls('StopCondition')
    for attr, cls in ATTRS.items():
        v = ci.class_attrs.get(attr)
        okc = isinstance(v, ast.Call) and isinstance(v.func, ast.Name) and v.func.id == cls and not v.args
        rep.decide(okc, 'C16.ops', f'StopCondition.{attr}', f'bound to `{ast.unparse(v) if v is not None else None}`, specified {cls}()',
                   loc=f'{ci.module}:{getattr(v, "lineno", ci.node.lineno)}')
    # properties are the constructor arguments
    for prop in ('sensor', 'threshold', 'operator'):
        g = model.find_member('StopCondition', prop)
        tf = sx.trivial_getter_field('StopCondition', prop)
        rep.decide(g is not None and tf == f'_StopCondition__{prop}', 'C16.check', f'StopCondition.{prop}',
                   f'property {prop} does not return the stored constructor argument', loc=g.loc if g else '')


def check_ops(model, rep):
    sx = SX(model)
    S, T = Rat.atom('S'), Rat.atom('T')
    for cls, op in OPS.items():
        if cls not in model.classes:
            rep.violation('C16.ops', cls, 'operator class missing')
            continue
        m = model.find_member(cls, '__call__')
        outs = sx.run(m.node, m.module, cls, Ov('self', cls, True),
                      {'sensor_value': Q('AngularSpeed', S, U(sym='s')), 'threshold': Q('AngularSpeed', T, U(sym='t'))})
        rets = [o for o in outs if o.kind == 'return']
        want = cmp_guard(op(), S, T)
        ok = len(rets) == 1 and isinstance(rets[0].value, Bsym) and rets[0].value.guard.same(want)
        rep.decide(ok, 'C16.ops', f'{cls}.__call__',
                   f'decides `{rets[0].value.guard.show(sx.ctx) if rets and isinstance(rets[0].value, Bsym) else (sx.show(rets[0].value) if rets else None)}`, '
                   f'specified `{want.show(sx.ctx)}` (sensor value {ast.unparse(ast.Compare(ast.Name("s"), [op()], [ast.Name("t")]))[1:-1]} threshold)',
                   loc=m.loc)
        # rejects non-quantities
        outs2 = sx.run(m.node, m.module, cls, Ov('self', cls, True), {'sensor_value': N(S), 'threshold': Q('AngularSpeed', T, U(sym='t'))})
        rep.inspect(2)


def check_sensors(model, rep):
    sx = SX(model)
    for cls, (attr, kind) in SENSORS.items():
        if cls not in model.classes:
            rep.violation('C16.sensors', cls, 'sensor class missing')
            continue
        m = model.find_member(cls, 'get_value')
        for mode, arg in (('live', NoneV()), ('converted', sx.typed_atom('unit', 'str'))):
            outs = sx.run(m.node, m.module, cls, Ov('self', cls, True), {'unit': arg})
            rets = [o for o in outs if o.kind == 'return']
            ok, why = True, ''
            if mode == 'converted':
                rets = [o for o in rets if not any(g.kind == 'isnone' and g.pol for g in o.state.guards)]
            if len(rets) != 1:
                ok, why = False, f'{len(rets)} returning paths'
            else:
                o = rets[0]
                v = o.value
                stores = [e for e in o.state.effects if e[0] == 'store']
                if stores:
                    ok, why = False, 'the sensor stores state when read'
                if mode == 'live':
                    if not (isinstance(v, Q) and v.kind == kind and sx.show(v).endswith(f'self.target.{attr}')):
                        ok, why = False, f'returns `{sx.show(v)[:80]}`, specified the target\'s live {attr}'
                else:
                    t = getattr(v, 'term', None)
                    want = Rat.atom(f'self.target.{attr}')
                    if not isinstance(v, N) or t is None:
                        ok, why = False, f'returns `{sx.show(v)[:80]}`, specified the plain value in the requested unit'
                    else:
                        fam = sx.tables.family(kind)
                        okv = sx.ctx.eq(t * Rat.atom(f'F[{fam}:unit]'), want)
                        if not okv:
                            ok, why = False, f'returns `{sx.show(v)[:100]}`, specified target.{attr}.to(unit).value'
            rep.decide(ok, 'C16.sensors', f'{cls}.get_value[{mode}]', why, loc=m.loc)
            rep.inspect()
        tf = sx.trivial_getter_field(cls, 'target')
        rep.decide(tf == f'_{cls}__target', 'C16.sensors', f'{cls}.target', 'target property does not return the constructor argument', loc=m.loc)


def check(model, rep):
    # hidden state Python keeps outside the objects (not modelled by the evaluator): reported before anything else is evaluated
    from checks.solver_common import package_lints as _package_lints
    _package_lints(model, rep, 'C16.hidden-state', ('/stop_condition/', '/sensors/', '/solver.py'))
    rep.explain('C16: in the solver IR every stepping-loop body path with a stop condition evaluates it exactly once, as the '
                'last event after the recorder, and the truth of that single evaluation decides break/continue; not evaluated at '
                't = 0; StopCondition.check_condition is pure and returns operator(sensor.get_value(), threshold); the five '
                'operator classes are the five comparisons (canonical guards, operand order); the three sensors return the '
                'target\'s live attribute (or its conversion) and keep no state.')
    try:
        check_place(model, rep)
    except CannotDecide as e:
        rep.cannot('C16.place', 'Solver.run', str(e))
    check_condition(model, rep)
    check_ops(model, rep)
    check_sensors(model, rep)
    # the five operators are thin wrappers over the comparison dunders of the quantity classes (threshold "in any unit")
    from checks.solver_common import absorb_cmp
    absorb_cmp(model, rep, 'C16.dep.cmp', sorted({k for _, k in SENSORS.values()}))
    # the condition compares ITS sensor's reading with ITS threshold by ITS operator: per-object state that a class-level
    # descriptor keeping values on itself would make common to every condition (the evaluator reads fields as per-object)
    from sa.aliases import descriptor_findings
    df = descriptor_findings(model)
    for cname, attr, dcls, mod_, ln, detail in df:
        rep.violation('C16.check', f'{cname}.{attr}:descriptor', detail, f'{mod_}:{ln}')
    if not df:
        rep.holds('C16.check', 'fields:descriptor', 'no class attribute is a descriptor that stores values on itself')
    rep.require('C16.place', 3)
    rep.require('C16.check', 4)
    rep.require('C16.ops', 10)
    rep.require('C16.sensors', 9)
    rep.assume('quantity comparisons are unit-blind (C05)')
