"""C19 - sign-constrained quantities and parameters can never be invalid.

Decided clause (necessary condition, structural): there is no code path that creates or mutates a
sign-constrained quantity without the constructor's check dominating it, and every component
constructor's required rejection dominates the completion of construction.

* C19.ctor     constructors of the constrained kinds reject a violating value on every completing path
* C19.via-ctor every value returned by an operator / abs / neg / to() of a quantity class is built by a
               constructor call (or is a bare number / self), and nothing but __init__ and to() writes
               the private value/unit fields; no __new__/copy/__dict__/setattr tricks in the units package
* C19.result   with the constructors' own guards inlined, every constrained-kind construction on a
               completing operator path is dominated by the sign check of exactly the constructed value
* C19.store    every other store to a constrained kind's private value (the in-place branch of to()) is
               either the unchanged value or dominated by an explicit check of the stored term, judged
               in an IEEE-aware sign domain (pos*pos/pos can underflow to +0.0 but cannot turn negative)
* C19.sub      no operator path falls through returning None (the except-ValueError translation re-raises)
* C19.params   required component-parameter rejections dominate construction
"""
from __future__ import annotations

import ast

from sa import sx as sxm
from sa.algebra import Rat
from sa.facts import validated_signs
from sa.match import SpecCtx
from sa.spec.si import SIGN, SUBKINDS
from sa.srcmodel import walk_no_nested
from sa.sx import abs_consequences, SX, Q, N, U, Ov, Uv, Bv, NoneV, Outcome, CannotDecide, implies, make_cmp, parse_annotation

OPAQUE = {'worm_gear_and_wheel_maximum_helix_angle_function', 'worm_wheel_lewis_factor_function'}

PARAMS = {
    'DCMotor': [
        ('no_load_speed > 0', ['no_load_speed'], 'no_load_speed.value > 0'),
        ('maximum_torque > 0', ['maximum_torque'], 'maximum_torque.value > 0'),
        ('no_load_electric_current >= 0', ['no_load_electric_current'], 'no_load_electric_current.value >= 0'),
        ('maximum_electric_current > 0', ['maximum_electric_current'], 'maximum_electric_current.value > 0'),
        ('no_load_electric_current < maximum_electric_current', ['no_load_electric_current', 'maximum_electric_current'],
         'no_load_electric_current < maximum_electric_current'),
    ],
    'SpurGear': [
        ('n_teeth >= tabulated minimum', ['n_teeth'], 'n_teeth >= MINIMUM_TEETH_NUMBER', 'GearBase'),
        ('elastic_modulus > 0', ['elastic_modulus'], 'elastic_modulus.value > 0'),
    ],
    'HelicalGear': [
        ('n_teeth >= tabulated minimum', ['n_teeth'], 'n_teeth >= MINIMUM_TEETH_NUMBER', 'GearBase'),
        ('elastic_modulus > 0', ['elastic_modulus'], 'elastic_modulus.value > 0'),
        ('helix_angle < 90 deg', ['helix_angle'], "helix_angle < Angle(90, 'deg')"),
    ],
    'WormGear': [
        ('n_starts >= 1', ['n_starts'], 'n_starts >= 1'),
        ('pressure_angle tabulated', ['pressure_angle'], 'pressure_angle in WORM_GEAR_AND_WHEEL_AVAILABLE_PRESSURE_ANGLES'),
        ('helix_angle <= worm limit', ['helix_angle'],
         'helix_angle <= worm_gear_and_wheel_maximum_helix_angle_function(pressure_angle=pressure_angle)'),
    ],
    'WormWheel': [
        ('n_teeth >= tabulated minimum', ['n_teeth'], 'n_teeth >= MINIMUM_TEETH_NUMBER', 'GearBase'),
        ('helix_angle < 90 deg', ['helix_angle'], "helix_angle < Angle(90, 'deg')"),
        ('pressure_angle tabulated', ['pressure_angle'], 'pressure_angle in WORM_GEAR_AND_WHEEL_AVAILABLE_PRESSURE_ANGLES'),
        ('helix_angle <= worm limit', ['helix_angle'],
         'helix_angle <= worm_gear_and_wheel_maximum_helix_angle_function(pressure_angle=pressure_angle)'),
    ],
}


def check_ctor(model, rep, sx):
    for kind, want in sorted(SIGN.items()):
        if kind not in model.classes:
            rep.cannot('C19.ctor', f'{kind}.__init__', 'constrained kind not found')
            continue
        m = model.member(kind, '__init__')
        facts, _ = validated_signs(sx, kind)
        got = facts.get('value')
        ok = (got == want) or (want == 'nonneg' and got == 'pos')
        rep.decide(ok, 'C19.ctor', f'{kind}.__init__',
                   f'constructor does not reject a {"non-positive" if want == "pos" else "negative"} value on every '
                   f'completing path (proved: {got})', detail=f'every completing path carries value {">" if want == "pos" else ">="} 0',
                   loc=m.loc)
        rep.inspect()
        if ok:
            rep.decide(got == want, 'C19.boundary', f'{kind}.__init__:boundary',
                       f'the constructor also rejects the admissible boundary value 0 of a non-negative kind (proved on completing paths: {got})',
                       loc=m.loc)
    # unconstrained kinds must not be constrained by accident? not part of the property.


def check_via_ctor(model, rep):
    kinds = set(model.quantity_kinds()) | {'UnitBase'}
    sites = 0
    for k in sorted(kinds):
        ci = model.classes[k]
        for m in ci.all_members():
            if m.kind in ('property', 'setter') or m.name in ('__init__', '__repr__', '__format__'):
                # property getters return fields; setters do not exist in units
                pass
            for n in walk_no_nested(m.node):
                # who-may-write the private value/unit fields
                if isinstance(n, ast.Attribute) and isinstance(n.ctx, ast.Store) and n.attr in ('__value', '__unit'):
                    # a private helper (`__name`, not a dunder) of the class that only __init__ / to() of that class call is part of them
                    private_helper = m.name.startswith('__') and not m.name.endswith('__')
                    if private_helper:
                        callers = {m2.name for m2 in ci.all_members() for c_ in walk_no_nested(m2.node)
                                   if isinstance(c_, ast.Call) and isinstance(c_.func, ast.Attribute) and c_.func.attr == m.name}
                        # (the name is mangled with the class: no other class can reach it by that spelling)
                        private_helper = bool(callers) and callers <= {'__init__', 'to'}
                    if m.name not in ('__init__', 'to') and not private_helper:
                        rep.violation('C19.via-ctor', f'{m.qualname}', f'writes the private field {n.attr} outside '
                                      f'__init__/to()', f'{m.module}:{n.lineno}')
                if isinstance(n, ast.Return) and n.value is not None and m.name.startswith('__') and m.name.endswith('__') \
                        and m.name not in ('__init__', '__repr__', '__format__', '__eq__', '__ne__', '__lt__', '__le__', '__gt__', '__ge__',
                                           '__bool__', '__hash__', '__str__', '__len__', '__contains__') or \
                        (isinstance(n, ast.Return) and n.value is not None and m.name == 'to'):
                    sites += 1
                    rep.inspect()
                    v = n.value

                    def bindings_of(node, name):
                        """values assigned to local `name` in the function (simple and parallel tuple assignments)"""
                        out = []
                        for a in walk_no_nested(node):
                            if not isinstance(a, ast.Assign):
                                continue
                            for t in a.targets:
                                if isinstance(t, ast.Name) and t.id == name:
                                    out.append(a.value)
                                elif isinstance(t, (ast.Tuple, ast.List)) and isinstance(a.value, (ast.Tuple, ast.List)) \
                                        and len(t.elts) == len(a.value.elts):
                                    for te, ve in zip(t.elts, a.value.elts):
                                        if isinstance(te, ast.Name) and te.id == name:
                                            out.append(ve)
                        return out

                    def helper_ok(hm, v, depth):
                        # the same judgement inside a helper method (its own locals)
                        if isinstance(v, ast.Name) and v.id == 'self' and m.name == 'to':
                            return True          # the in-place conversion hands back the receiver
                        if isinstance(v, ast.Call) and isinstance(v.func, ast.Name) and v.func.id in kinds:
                            return True
                        if isinstance(v, ast.Call) and isinstance(v.func, ast.Attribute) and v.func.attr == '__class__':
                            return True
                        if isinstance(v, ast.Name) and depth < 4:
                            binds = [a.value for a in walk_no_nested(hm.node) if isinstance(a, ast.Assign)
                                     and any(isinstance(t, ast.Name) and t.id == v.id for t in a.targets)]
                            return bool(binds) and all(helper_ok(hm, b, depth + 1) for b in binds)
                        if isinstance(v, ast.IfExp):
                            return helper_ok(hm, v.body, depth) and helper_ok(hm, v.orelse, depth)
                        return isinstance(v, (ast.BinOp, ast.Compare, ast.Constant, ast.BoolOp, ast.UnaryOp))

                    def built_ok(v, depth=0):
                        if isinstance(v, ast.Call):
                            f = v.func
                            if isinstance(f, ast.Name) and f.id in kinds:
                                return True
                            if isinstance(f, ast.Attribute) and f.attr == '__class__':
                                return True
                            if isinstance(f, ast.Name) and f.id in ('fabs', 'abs', 'float', 'sin', 'cos', 'tan'):
                                return True      # plain number
                            if isinstance(f, ast.Attribute) and isinstance(f.value, ast.Call) and \
                                    isinstance(f.value.func, ast.Name) and f.value.func.id == 'super':
                                return True
                            if isinstance(f, ast.Attribute) and isinstance(f.value, ast.Name) and f.value.id in ('self', 'other') and depth < 3:
                                # a helper method of the class: every return of the helper must itself be constructor-built
                                hm = model.find_member(k, f.attr)
                                if hm is not None and hm.kind not in ('property', 'setter'):
                                    rets = [r.value for r in walk_no_nested(hm.node) if isinstance(r, ast.Return) and r.value is not None]
                                    if rets and all(helper_ok(hm, r, depth + 1) for r in rets):
                                        return True
                            if isinstance(f, ast.Name):
                                # a local bound to a quantity class (possibly chosen by a conditional expression)
                                def is_kind(e):
                                    if isinstance(e, ast.Name):
                                        return e.id in kinds
                                    if isinstance(e, ast.IfExp):
                                        return is_kind(e.body) and is_kind(e.orelse)
                                    if isinstance(e, ast.Attribute) and e.attr == '__class__':
                                        return True
                                    return False
                                binds = bindings_of(m.node, f.id)
                                if binds and all(is_kind(b) for b in binds):
                                    return True
                                # a class taken from a table the method loops over (`for operand_class, product_class in TABLE:`):
                                # the loop variable is local to the method and the table holds quantity classes only
                                for lp in walk_no_nested(m.node):
                                    if isinstance(lp, ast.For) and any(isinstance(t, ast.Name) and t.id == f.id for t in ast.walk(lp.target)) \
                                            and not binds:
                                        src = lp.iter
                                        if isinstance(src, ast.Call) and isinstance(src.func, ast.Attribute) and src.func.attr == 'items' and not src.args:
                                            src = src.func.value
                                        table = None
                                        if isinstance(src, ast.Attribute) and isinstance(src.value, ast.Name) and src.value.id in ('self', 'cls', k):
                                            table = model.find_class_attr(k, src.attr)[1] or model.find_class_attr(k, model.mangle(k, src.attr))[1]
                                        elif isinstance(src, (ast.Tuple, ast.List, ast.Dict)):
                                            table = src
                                        if table is not None:
                                            names = [x.id for x in ast.walk(table) if isinstance(x, ast.Name)]
                                            if names and all(x in kinds for x in names):
                                                return True
                            return False
                        if isinstance(v, ast.Name) and v.id == 'self':
                            return m.name == 'to'
                        if isinstance(v, ast.Name) and depth < 3:
                            # a local: every binding of it in this method must itself be constructor-built
                            binds = bindings_of(m.node, v.id)
                            return bool(binds) and all(built_ok(b, depth + 1) for b in binds)
                        if isinstance(v, (ast.BinOp, ast.Compare, ast.Constant, ast.JoinedStr, ast.BoolOp, ast.UnaryOp)):
                            return True          # number / bool / string
                        if isinstance(v, ast.IfExp):
                            return built_ok(v.body, depth) and built_ok(v.orelse, depth)
                        return False
                    ok = built_ok(v)
                    cons = f'{m.qualname}@return#{sites}'
                    if not ok:
                        rep.violation('C19.via-ctor', f'{m.qualname}', f'returns `{ast.unparse(v)[:60]}`, not a '
                                      f'constructor call / number / self', f'{m.module}:{n.lineno}')
                    else:
                        rep.holds('C19.via-ctor', cons, '', f'{m.module}:{n.lineno}')
    # dynamic tricks anywhere in the units package
    for mod, tree in model.trees.items():
        if '/units/' not in mod:
            continue
        for n in ast.walk(tree):
            bad = None
            if isinstance(n, ast.Attribute) and n.attr in ('__dict__', '__new__', '__setattr__', '__slots__'):
                bad = n.attr
            if isinstance(n, ast.Call) and isinstance(n.func, ast.Name) and n.func.id in ('setattr', 'exec', 'eval', 'vars', 'deepcopy', 'copy'):
                bad = n.func.id
            if isinstance(n, ast.FunctionDef) and n.name in ('__new__', '__setattr__', '__copy__', '__deepcopy__',
                                                            '__iadd__', '__isub__', '__imul__', '__itruediv__'):
                bad = n.name
            if bad:
                rep.violation('C19.via-ctor', f'{mod}:{bad}', f'dynamic construct `{bad}` can bypass the constructors',
                              f'{mod}:{n.lineno}')
    rep.require('C19.via-ctor', 80, 'operator/to return sites (about 100 on the pinned tree)')
    rep.analysed['return_sites'] = sites


def check_results(model, rep, sx: SX):
    """operators with the constructor guards inlined"""
    from checks.c06 import dispatch, OPS
    kinds = sorted(model.quantity_kinds())
    cats = kinds + ['number']
    n = 0
    fall = 0
    for left in cats:
        for right in cats:
            if left == right == 'number':
                continue
            for op in OPS:
                try:
                    m, outs = dispatch(sx, model, left, op, right)
                except CannotDecide as e:
                    rep.cannot('C19.result', f'{left} {op} {right}', str(e))
                    continue
                if m is None:
                    continue
                for o in outs:
                    if not isinstance(o, Outcome):
                        continue
                    if o.kind == 'fall' or (o.kind == 'return' and isinstance(o.value, NoneV)):
                        fall += 1
                        rep.violation('C19.sub', f'{m.qualname}[other={right}]',
                                      'a path of the operator completes without returning a quantity or raising '
                                      '(returns None)', f'{m.module}:{o.loc or m.node.lineno}',
                                      path_guards=[g.show(sx.ctx)[:100] for g in o.state.guards])
                        continue
                    if o.kind != 'return' or not isinstance(o.value, Q):
                        continue
                    want = SIGN.get(o.value.kind)
                    if not want:
                        continue
                    n += 1
                    rep.inspect()
                    cons = [e for e in o.state.effects if e[0] == 'construct' and e[1] == o.value.kind]
                    if not cons:
                        rep.violation('C19.result', f'{m.qualname}[other={right}]',
                                      f'returns a {o.value.kind} that was not built by its constructor', m.loc)
                        continue
                    vt = cons[-1][2]
                    g = make_cmp('<' if want == 'pos' else '<=', -vt)
                    ok = implies(o.state.guards, g)
                    rep.decide(ok, 'C19.result', f'{m.qualname}[other={right}]',
                               f'the constructed {o.value.kind} value `{sx.ctx.show(vt)[:80]}` is not dominated by its sign check',
                               loc=f'{m.module}:{o.loc}')
    # abs / neg
    S = Rat.atom('S')
    for k in kinds:
        for dn in ('__abs__', '__neg__'):
            m = model.find_member(k, dn)
            if m is None:
                continue
            outs = sx.run(m.node, m.module, m.cls, Q(k, S, U(sym='a')))
            for o in outs:
                if o.kind == 'fall' or (o.kind == 'return' and not isinstance(o.value, Q)):
                    rep.violation('C19.result', f'{k}.{dn}', 'does not return a constructed quantity', m.loc)
                elif o.kind == 'return':
                    want = SIGN.get(o.value.kind)
                    if o.value.kind != k:
                        rep.violation('C19.result', f'{k}.{dn}', f'returns a {o.value.kind}', m.loc)
                    elif want:
                        cons = [e for e in o.state.effects if e[0] == 'construct']
                        vt = cons[-1][2] if cons else None
                        ok = vt is not None and implies(o.state.guards, make_cmp('<' if want == 'pos' else '<=', -vt))
                        rep.decide(ok, 'C19.result', f'{k}.{dn}', 'result not dominated by the sign check', loc=m.loc)
                        n += 1
    if fall == 0:
        rep.holds('C19.sub', 'operators', 'no operator path returns None; the ValueError translation of '
                  'UnitBase.__sub__ re-raises on exactly the constructor\'s failure condition')
    rep.require('C19.result', 30, 'constrained-kind results of operators')
    rep.analysed['constrained_results'] = n


def check_store(model, rep, sx: SX, tables):
    """in-place branch of to() for the constrained kinds"""
    ctx = sx.ctx
    for kind, want in sorted(SIGN.items()):
        m = model.find_member(kind, 'to')
        fam = tables.family(kind)
        try:
            outs = sx.run(m.node, m.module, kind, Ov('self', kind, True))
        except CannotDecide as e:
            rep.cannot('C19.store', f'{kind}.to', str(e), m.loc)
            continue
        bad = None
        nstores = 0
        for o in outs:
            if o.kind == 'raise':
                # a REJECTED in-place conversion must leave the object as it was: a store made before the rejecting check (e.g. the
                # parent constructor re-run on self before the sub-kind's own sign test) leaves a live object that violates its constraint
                early = [e for e in o.state.effects if e[0] == 'store' and e[1] == 'self' and e[2].endswith(('__value', '__unit'))]
                changed = [e for e in early if not (getattr(e[3], 'term', None) is not None and len(e[3].term.n.t) == 1 and e[3].term.d.is_const()
                                                    and any(a.endswith(('__value', '.value')) for a in e[3].term.atoms())
                                                    and e[3].term.eq(Rat.atom(next(iter(e[3].term.atoms())))))]
                if o.value == 'ValueError' and changed:
                    nstores += 1
                    bad = (changed[0][4], f'the conversion raises ValueError (line {o.loc}) AFTER it has already stored `{sx.show(changed[0][3])[:60]}` into '
                                          f'{changed[0][2]}: the rejected call leaves a live {kind} that violates its sign constraint')
                continue
            stores = [e for e in o.state.effects if e[0] == 'store' and e[1] == 'self' and e[2].endswith('__value')]
            for idx, e in enumerate(stores):
                nstores += 1
                rep.inspect()
                t = getattr(e[3], 'term', None)
                if t is None:
                    bad = (e[4], f'stores a non-numeric value {sx.show(e[3])[:60]}')
                    continue
                atoms = t.atoms()
                value_atoms = [a for a in atoms if a.endswith('__value') or a.endswith('.value')]
                # unchanged value (no arithmetic)?
                unchanged = len(t.n.t) == 1 and t.d.is_const() and len(value_atoms) == 1 and \
                    t.eq(Rat.atom(value_atoms[0]))
                # explicit check of the stored term earlier on the path
                g = make_cmp('<' if want == 'pos' else '<=', -t)
                checked = implies(o.state.guards, g)
                # a raising statement between two stores leaves the object half-updated
                if unchanged or checked:
                    continue
                if want == 'nonneg':
                    # monomial of non-negative value and positive factors with positive coefficient:
                    # cannot become negative (IEEE: may underflow to +0.0, which is allowed)
                    monos_ok = all(c > 0 and all(a in value_atoms or a.startswith('F[') or a == 'pi' for a, _ in mono)
                                   for mono, c in t.n.t.items()) and \
                        all(c > 0 and all(a.startswith('F[') or a == 'pi' for a, _ in mono) for mono, c in t.d.t.items())
                    if monos_ok:
                        continue
                bad = (e[4], f'in-place conversion stores `{ctx.show(ctx.reduce(t))[:100]}` into the private value of a '
                             f'{"strictly positive" if want == "pos" else "non-negative"} kind without a check: '
                             f'value*F/F\' can underflow to 0.0 (the copying form raises ValueError)')
        cons = f'{kind}.to[inplace]'
        if nstores == 0:
            rep.cannot('C19.store', cons, 'no in-place store found', m.loc)
        elif bad:
            rep.violation('C19.store', cons, bad[1], f'{m.module}:{bad[0]}')
        else:
            rep.holds('C19.store', cons, f'{nstores} store(s) dominated by a check, unchanged, or sign-safe', m.loc)
    rep.require('C19.store', 5)


def check_minimum_teeth(model, rep, R='C19.params'):
    """`n_teeth < MINIMUM_TEETH_NUMBER` rejects fewer teeth than the tabulated minimum only if the constant IS the first
    (smallest) tabulated teeth number - a value of the 'Number of teeth' column, not a row label"""
    mod = None
    for m_, consts in model.module_consts.items():
        if 'MINIMUM_TEETH_NUMBER' in consts:
            mod = m_
    cons = 'MINIMUM_TEETH_NUMBER'
    if mod is None:
        rep.cannot(R, cons, 'constant not found')
        return
    consts = model.module_consts[mod]
    node = consts['MINIMUM_TEETH_NUMBER']

    def expand(n, depth=0):
        if isinstance(n, ast.Name) and n.id in consts and depth < 4 and n.id.isupper() and not isinstance(consts[n.id], ast.Constant):
            return expand(consts[n.id], depth + 1)
        return n
    import copy

    class Inline(ast.NodeTransformer):
        # module-level names bound to (non-literal) expressions are replaced by their definitions: helper constants such as
        # `_TEETH_NUMBER_COLUMN = DATA['Number of teeth']` or `_FIRST_ROW = DATA.index[0]`
        def __init__(self):
            self.depth = 0

        def visit_Name(self, n):
            d = consts.get(n.id)
            if d is not None and n.id != 'MINIMUM_TEETH_NUMBER' and self.depth < 5 and isinstance(d, (ast.Subscript, ast.Attribute, ast.Name)):
                self.depth += 1
                r = self.visit(copy.deepcopy(d))
                self.depth -= 1
                return r
            return n
    text = ast.unparse(node)
    outer = Inline().visit(copy.deepcopy(node))
    full = ast.unparse(outer)
    for x in ast.walk(outer):
        if isinstance(x, ast.Name) and x.id in consts and x.id.isupper():
            full += ' ' + ast.unparse(expand(x))
    verdict, why = None, ''
    if isinstance(outer, ast.Call) and isinstance(outer.func, ast.Attribute) and outer.func.attr in ('idxmin', 'idxmax', 'argmin', 'argmax'):
        verdict, why = False, f'`{text[:60]}` is the LABEL/position of the extreme row, not a teeth number (with the default index: 0)'
    elif 'Number of teeth' not in full:
        verdict, why = False, f'`{text[:60]}` is not taken from the teeth-number column of the Lewis table'
    elif isinstance(outer, ast.Call) and ((isinstance(outer.func, ast.Attribute) and outer.func.attr == 'min') or
                                          (isinstance(outer.func, ast.Name) and outer.func.id in ('min', 'int', 'float'))):
        verdict = True
    elif isinstance(outer, ast.Subscript):
        sl = ast.unparse(outer.slice)
        first = any(k in sl for k in ('index[0]', '.index[0]')) or sl.split(',')[0].strip() in ('0',) or sl.strip() == '0'
        verdict = True if first else None
    if verdict is None:
        rep.cannot(R, cons, f'`{text[:80]}`: not recognised as the first/smallest value of the teeth-number column')
    else:
        rep.decide(verdict, R, cons, why, loc=f'{mod}:{getattr(node, "lineno", 0)}', detail='first row of the teeth-number column (rows ascending: C09.lewis-table)')


def check_boundaries(model, rep, sx: SX, R='C19.boundary', only=None):
    """the rejection that enforces a documented threshold is exactly its complement: the ValueError path whose last
    test is about the same difference as the requirement must imply that the requirement is false (a `<=` where `<`
    is documented rejects the admissible boundary value itself: 10 teeth, the tabulated maximum helix angle)"""
    from sa.sx import sign_set
    for cls, reqs in PARAMS.items():
        if cls not in model.classes:
            continue
        m = model.member(cls, '__init__')
        try:
            outs = sx.run(m.node, m.module, cls)
        except CannotDecide as e:
            rep.cannot(R, f'{cls}.__init__', str(e), m.loc)
            continue
        raises = [o for o in outs if o.kind == 'raise' and o.value == 'ValueError' and o.state.guards]
        ann = {a.arg: a.annotation for a in m.node.args.args}
        env = {p: sx.typed_atom(p, parse_annotation(ann.get(p), model), p) for p in ann if p != 'self'}
        spec0 = SpecCtx(sx, cls, env=env)
        for req in reqs:
            name, params, expr = req[:3]
            if only is not None and not any(k in name for k in only):
                continue
            spec = spec0 if len(req) < 4 else SpecCtx(sx, cls, module=model.cls(req[3]).module, env=env)
            try:
                gs = [g for g in spec.guards(expr) if g.kind == 'cmp']
            except CannotDecide:
                continue
            for r in gs:
                cons = f'{cls}.__init__[{name}]:boundary'
                trig = [o for o in raises if o.state.guards[-1].kind == 'cmp' and sign_set(o.state.guards[-1], r.rat) is not None]
                if not trig:
                    continue
                bad = [o for o in trig if not implies([o.state.guards[-1]], r.negate())]
                rep.decide(not bad, R, cons,
                           f'the constructor raises ValueError on `{bad[0].state.guards[-1].show(sx.ctx)}` although `{expr}` holds there: the '
                           f'admissible boundary value is rejected' if bad else '', loc=f'{m.module}:{bad[0].loc if bad else m.node.lineno}')
                rep.inspect()


def check_params(model, rep, sx: SX):
    ctx = sx.ctx
    for cls, reqs in PARAMS.items():
        if cls not in model.classes:
            rep.cannot('C19.params', cls, 'class not found')
            continue
        m = model.member(cls, '__init__')
        try:
            outs = sx.run(m.node, m.module, cls)
        except CannotDecide as e:
            rep.cannot('C19.params', f'{cls}.__init__', str(e), m.loc)
            continue
        done = [o for o in outs if o.kind in ('fall', 'return')]
        ann = {a.arg: a.annotation for a in m.node.args.args}
        env = {p: sx.typed_atom(p, parse_annotation(ann.get(p), model), p) for p in ann if p != 'self'}
        spec0 = SpecCtx(sx, cls, env=env)
        for req in reqs:
            name, params, expr = req[:3]
            spec = spec0 if len(req) < 4 else SpecCtx(sx, cls, module=model.cls(req[3]).module, env=env)
            rep.inspect()
            cons = f'{cls}.__init__[{name}]'
            try:
                gs = spec.guards(expr)
            except CannotDecide as e:
                rep.cannot('C19.params', cons, str(e), m.loc)
                continue
            bad = None
            considered = 0
            for o in done:
                if any(g.kind == 'isnone' and g.pol and g.key[0] in params for g in o.state.guards):
                    continue
                considered += 1
                if not all(implies(o.state.guards, g) for g in gs):
                    bad = o
                    break
            if considered == 0:
                rep.cannot('C19.params', cons, 'no completing constructor path with the parameter present', m.loc)
            elif bad is not None:
                rep.violation('C19.params', cons, f'construction can complete although `{expr}` is false '
                              f'(required rejection missing or not dominating)', m.loc,
                              path_guards=[g.show(ctx)[:80] for g in bad.state.guards][-8:])
            else:
                rep.holds('C19.params', cons, f'{considered} completing path(s) all carry the requirement', m.loc)
    # duty-cycle setter
    st = model.find_setter('DCMotor', 'pwm')
    if st is None:
        rep.cannot('C19.params', 'DCMotor.pwm[setter]', 'setter not found')
    else:
        outs = sx.run(st.node, st.module, 'DCMotor')
        done = [o for o in outs if o.kind in ('fall', 'return')]
        env = {'pwm': N(Rat.atom('pwm'))}
        spec = SpecCtx(sx, 'DCMotor', env=env)
        gs = spec.guards('pwm <= 1 and pwm >= -1')
        ok = bool(done) and all(all(implies(abs_consequences(sx.ctx, o.state.guards), g) for g in gs) and
                                any(e[0] == 'store' and e[2] == (sx.trivial_getter_field('DCMotor', 'pwm') or '_DCMotor__pwm')
                                    for e in o.state.effects) for o in done)
        rep.decide(ok, 'C19.params', 'DCMotor.pwm[setter]', 'the duty-cycle setter can store a value outside [-1, 1]',
                   loc=st.loc)
        # ... and a rejected value must not have been stored on the way to the raise (store first, validate afterwards leaves the
        # motor with the rejected duty cycle when the caller handles the error)
        fld_s = sx.trivial_getter_field('DCMotor', 'pwm') or '_DCMotor__pwm'
        dirty = [o for o in outs if o.kind == 'raise' and any(e[0] == 'store' and e[1] == 'self' for e in o.state.effects)]
        rep.decide(not dirty, 'C19.params', 'DCMotor.pwm[setter]:raising-paths',
                   f'a path that raises {dirty[0].value if dirty else ""} has already stored the rejected value into the motor '
                   f'(the range check comes after the store)', loc=f'{st.module}:{dirty[0].loc if dirty else st.node.lineno}')
    # ... and the constructor may start the duty cycle only from a constant inside the range or through the validating setter: a
    # constructor parameter stored straight into the private field is an unvalidated way in
    init = model.member('DCMotor', '__init__')
    fld_w = '__' + (sx.trivial_getter_field('DCMotor', 'pwm') or '_DCMotor__pwm').split('__', 1)[1]
    bad_store = None
    for a in ast.walk(init.node):
        if isinstance(a, (ast.Assign, ast.AnnAssign, ast.AugAssign)):
            tg = a.targets if isinstance(a, ast.Assign) else [a.target]
            if any(isinstance(t, ast.Attribute) and t.attr == fld_w and isinstance(t.value, ast.Name) and t.value.id == 'self' for t in tg):
                v = a.value
                if not (isinstance(v, ast.Constant) and isinstance(v.value, (int, float)) and not isinstance(v.value, bool) and -1 <= v.value <= 1):
                    bad_store = a
    rep.decide(bad_store is None, 'C19.params', 'DCMotor.__init__[pwm]',
               f'`{ast.unparse(bad_store)[:60] if bad_store is not None else ""}` stores a duty cycle into the private field without the range check of the setter',
               loc=f'{init.module}:{bad_store.lineno if bad_store is not None else init.node.lineno}')
    rep.require('C19.params', 18)


def check(model, rep):
    # hidden state Python keeps outside the objects (not modelled by the evaluator): reported before anything else is evaluated
    from checks.solver_common import package_lints as _package_lints
    _package_lints(model, rep, 'C19.hidden-state', ('/units/', '/mechanical_objects/'))
    from checks.solver_common import absorb_cmp
    absorb_cmp(model, rep, 'C19.dep.cmp', ('Angle', 'AngularPosition', 'Current'))
    rep.explain('C19: constructors of the five sign-constrained kinds reject violating values on every completing '
                'path; every operator/abs/neg/to result is built by a constructor whose guard dominates the result '
                '(operators evaluated symbolically with constructor guards inlined, all 780 operand triples); the only '
                'other writers of the private value (in-place to()) are judged in an IEEE-aware sign domain; required '
                'component-parameter rejections dominate completion of each component constructor. '
                'Necessary structural condition; NaN/inf corner cases are not decided.')
    from sa.units import UnitTables
    tables = UnitTables(model)
    sxm.POSITIVE_ATOMS.clear()
    sx = SX(model, tables)
    sx.opaque_calls |= OPAQUE
    check_ctor(model, rep, sx)
    check_via_ctor(model, rep)
    sx2 = SX(model, tables)
    sx2.inline_ctor_guards = True
    check_results(model, rep, sx2)
    sx3 = SX(model, tables)
    sx3.inline_ctor_guards = True     # a constructor call on the path contributes its sign check
    check_store(model, rep, sx3, tables)
    check_params(model, rep, sx)
    check_minimum_teeth(model, rep)
    # "helix angle ... above the worm limit": the limit is the table row of the gear's pressure angle - the table, the lookup by
    # pressure angle (tolerant, in any unit: no converted raw number as key) are C09's worm-table rules, re-read here
    from checks.c09 import check_worm_table
    check_worm_table(model, rep, R='C19.params.worm-limit')
    check_boundaries(model, rep, sx)
    rep.assume('unit factors are positive (C05.table)')
