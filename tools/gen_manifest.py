#!/usr/bin/env python3
"""Regenerates MANIFEST.json from the table below (kept next to the checks so that the manifest
never drifts from what is implemented).  Run: python3 tools/gen_manifest.py"""
import json
import pathlib

ROOT = pathlib.Path(__file__).resolve().parent.parent

TRUSTED = ("Trusted base: CPython's ast parser; the engines under /verif/sa (exercised both ways by the "
           "thorough tier's mutant/benign battery); the oracles under /verif/sa/spec and the specification "
           "terms written in the check module; Python's documented dispatch and name-mangling rules. "
           "gearpy is never imported or executed.")

CHECKS = {
    'C08': dict(
        technique='gated value numbering of DCMotor.compute_torque/compute_electric_current to canonical '
                  'rational terms (AST abstract evaluation, normal-form equality; no execution, no solver); operand-term comparison of every order test of the duty cycle in the two laws (float-identical partition of the dead zone)',
        text='Decides the code shape of the piecewise motor laws: every specified case (guards with operator and '
             'threshold, coefficients, unit handling with symbolic unit factors) is matched against the gated '
             'canonical terms extracted from the source; mirror symmetry and continuity at the dead-zone boundary '
             'are polynomial identities of the extracted terms. Holds for all motor constants, speeds and duty '
             'cycles over the reals. At the floating-point neighbours of the boundary only branch selection is decided: the tests that partition the duty-cycle axis must compare the same two operand terms in both laws, and a denominator that vanishes on the boundary must be tested on its path; other rounding is not decided.',
        design='4/C08', engine='sa.sx + sa.match'),
}

CHECKS['C05'] = dict(
    technique='exhaustive unit-table comparison against an independent SI grammar over Q[pi]; symbolic evaluation '
              '(gated value numbering) of all 13 to() implementations and of the 6 comparison dunders for every ordered '
              'pair of kinds; unit-factor survival test for unit-blindness; per-unit concrete evaluation of a to() that consults further constant tables',
    text='Decides conversion and comparison semantics from the source for every unit and every real value: all 66 '
         'factors equal the SI definitions exactly; every to() path preserves the SI magnitude, labels the target '
         'unit, copy == in-place; each comparison dunder is the specified predicate of the SI difference and rejects '
         'foreign kinds; a unit factor surviving in the predicate (unit-dependent verdict) is reported. Rounding not decided.',
    design='4/C05', engine='sa.units + sa.sx')
CHECKS['C06'] = dict(
    technique='static operator-dispatch model (MRO, reflected-first rule) over all 780 (kind, op, kind|number) triples; '
              'operator bodies evaluated with symbolic SI magnitudes and symbolic units; canonical-term equality '
              'SI(result) == S op O and dimensional-analysis oracle for the result kind; AST who-writes rule: no arithmetic dunder (binary, reflected, in-place, unary) writes into an operand',
    text='Exhaustive over operand kinds and symbolic (hence all) unit choices and magnitudes over the reals: every '
         'non-raising path of every operator returns the dimensionally dictated kind and an SI magnitude canonically '
         'equal to the operation on the operands\' SI magnitudes, which implies (a+b)-b = a and a-b = -(b-a). '
         'Floating-point rounding is not decided.',
    design='4/C06', engine='sa.sx + sa.spec.si')

CHECKS['C19'] = dict(
    technique='constructor-guard dominance: symbolic evaluation of all quantity constructors, operators (780 triples, '
              'constructor guards inlined), abs/neg/to() and component constructors; who-may-write census of the private '
              'value fields; IEEE-aware sign domain for the in-place store; sign-lattice implication of guards; worm-limit table rows and lookup keys (shared with C09/C07)',
    text='Necessary structural condition decided for every path: no sign-constrained quantity is created or mutated '
         'without the constructor\'s sign check of exactly the stored/constructed term dominating it, no operator path '
         'returns None, no writer of the private fields exists outside __init__/to(), and every required component '
         'parameter rejection dominates completion of construction and is exactly the complement of the documented threshold '
         '(the admissible boundary value is accepted). NaN/inf corner cases are not decided.',
    design='4/C19', engine='sa.sx + sa.facts')

CHECKS['C09'] = dict(
    technique='gated value numbering of the force/bending/contact methods and gear constructors to canonical terms '
              'matched per mating role against specification terms; exhaustive truth tables of the computable flags; '
              'AST check of the interp1d call shape; row-by-row comparison of the two CSV tables with reference tables; C10 effect/atomic rules re-read for the mate links; operator triples met re-read from C06',
    text='Decides the code shape of every gear formula named by the property for all parameter values over the reals '
         '(force by role, Lewis bending incl. helical virtual teeth and worm-wheel normal-pitch form, Hertz contact by '
         'role), the ValueError exits under missing mate data, the three flags as exhaustive truth tables, linear clamped '
         'interpolation of the Lewis table and the table contents. Numeric output of scipy is not decided.',
    design='4/C09', engine='sa.sx + sa.match + sa.facts')

CHECKS['C10'] = dict(
    technique='symbolic evaluation of the three relation functions with operands of unknown class (isinstance narrowing, '
              'class-disjointness reasoning); effect sets compared with specification terms; forbidden-condition '
              'incompatibility; validate-before-mutate as an effect-ordering rule with setter obligations evaluated on '
              'the actual argument under the path guards; setter range checks',
    text='For every path of add_gear_mating / add_worm_gear_mating / add_fixed_joint: accepting paths assign exactly the '
         'specified links, roles, ratio, efficiency and self-locking criterion; every incompatible pair named by the '
         'property is rejected; no raise (explicit, raising setter, division by possibly-zero number) can follow a '
         'modification of either element; ratio > 0 float and efficiency in [0,1] are enforced by every setter and '
         'nothing else writes those fields.',
    design='4/C10', engine='sa.sx + sa.match')

CHECKS['C15'] = dict(
    technique='gated value numbering of the rule classes and Timer (sensor reads inlined, reduction loops summarised as '
              'canonical atoms); windows compared as exhaustive sign/truth tables over comparison atoms; proposal formulas '
              'as canonical terms; cross-module polynomial identity between the StartLimitCurrent root and the motor laws '
              'extracted from dc_motor.py; operator triples met by the evaluator re-read from the C06 dispatch model; alias rule for references to rebound containers',
    text='Decides, for all rule parameters and states over the reals, the activity window (operators, inclusive ends) and '
         'the proposal formula of ConstantPWM/Timer, ReachAngularPosition (static error), StartProportionalToAngularPosition '
         '(minimum duty cycle, ramp, missing-parameter error) and StartLimitCurrent, and that the duty cycle StartLimitCurrent '
         'proposes makes the motor\'s own current law yield exactly the limit current; the efficiency product runs over every '
         'element class the relation functions admit as the slave of a mating with losses (worm gears included). Clipping and '
         'arbitration are C14.',
    design='4/C15', engine='sa.sx + sa.loops + sa.match')

SOLVER_T = 'solver IR: Solver.run inlined by abstract evaluation into an event structure over an abstract element array E[0..n-1] (loops as index sets affine in n, loop-carried recurrences, effect summaries of element/rule methods); '
CHECKS['C01'] = dict(
    technique=SOLVER_T + 'canonical-term schema match of the propagation loops, index-interval coverage for all n >= 2, '
              'loop-order vs loop-carried dependence, generic no-stale-read ordering rule per instant context',
    text='For every instant context of Solver.run (fresh start and every branch combination of the stepping loop) and all '
         'n >= 2: the loops writing position, speed and acceleration assign exactly E[i+1].ratio * E[i+1].X over E[0..n-2] in '
         'dependence-compatible order; nothing reads or overwrites a kinematic attribute so that a recorded value is stale; '
         'the lock clamp zeroes speed and acceleration of all elements together; the recorder appends the live attributes. '
         'Code shape, not numeric trajectories.', design='4/C01', engine='sa.solver_ir + sa.instant')
CHECKS['C02'] = dict(
    technique=SOLVER_T + 'schema match of driving/load/net torque loops with coverage, keyword/attribute binding of the user '
              'load call and its type check, no-stale-read ordering of all attributes and of the time axis',
    text='Formulas (driving = driver driving * efficiency * ratio over E[1..n-1]; load upstream / efficiency / ratio over '
         'E[0..n-2]; net = driving - load for all), binding of the load call to time[-1] and the same element\'s state, its '
         'isinstance(Torque) check, and the def-use order of the torque phases inside every instant context. The motor law is C08.',
    design='4/C02', engine='sa.solver_ir + sa.instant')
CHECKS['C03'] = dict(
    technique=SOLVER_T + 'loop-carried recurrence extraction for the inertia reduction, canonical-term comparison of the '
              'equation of motion and of the semi-implicit Euler step, quantity-kind check of stored values',
    text='Inertia recurrence J <- J*ratio_i + J_i from E[0].J over E[1..n-1] ascending, recomputed on every run path before the '
         'first instant; acceleration of E[n-1] = net torque / that inertia exactly on not-locked paths; Euler step on E[n-1] '
         '(speed += acc*dt then position += new speed*dt) once per iteration with dt as a quantity, never at t = 0.',
    design='4/C03', engine='sa.solver_ir + sa.instant')
CHECKS['C11'] = dict(
    technique=SOLVER_T + 'classification of the stepping loop\'s iteration space (integer range of round(T/dt) vs float '
              'grid / truncation) and canonical-term check of the appended instant start + k*dt with symbolic units',
    text='Necessary condition for the uniform grid for all decimal inputs: the step count is an integer obtained by rounding '
         'the unit-blind ratio T/dt, instant k is start + k*dt built with quantity arithmetic, exactly one append per iteration '
         '(first in the iteration), one instant 0 on a fresh start, none before stepping on a continuation, nothing after the loop.',
    design='4/C11', engine='sa.solver_ir')
CHECKS['C12'] = dict(
    technique=SOLVER_T + 'branch-effect comparison of the continuation path, upward-exposed solver state (fields run() both '
              'writes and reads must be initialised on the fresh-start branch), symbolic evaluation of Powertrain.reset '
              '(restore pairing key<->attribute, controlling guards by path intersection, fresh list per key); who-may-hold rules over all classes: no field bound to a one-shot iterator, no construction-time reference to a container its owner rebinds; every exit of reset() restores the elements',
    text='The continuation branch writes nothing, records nothing and re-initialises nothing before stepping and starts from '
         'time[-1] with unit-aware arithmetic; solver state cannot leak from an earlier schedule into a fresh start; reset '
         'empties the axis and every list and restores every attribute from sample [0] of its own variable under that '
         'variable\'s own guard. Trajectory equality itself follows from determinism and is not decided.',
    design='4/C12', engine='sa.solver_ir + sa.instant')

CHECKS['C13'] = dict(
    technique=SOLVER_T + 'exhaustive sign/truth table of the lock and unlock decisions against the specified predicate; '
              'dominance of the self_locking test; placement of the uniform zero clamp by event ordering; symbolic evaluation '
              'of the self-locking scan of Powertrain.__init__; event-order rule: no write of the duty cycle precedes the lock decision that reads it in any instant context',
    text='Structural clause only: the lock decision is exactly [self-locking and (pwm = 0 or pwm opposes the motor speed)], the '
         'release exactly [net motor torque known and with the sign of a non-zero pwm]; the flag is set only under '
         'Powertrain.self_locking, survives continued runs, and comes from the any-self-locking-worm scan; while locked all '
         'speeds and accelerations are zeroed after propagation and before the load call and recorder, and the acceleration '
         'update is skipped. Whether the load can drive the motor also depends on magnitudes: not decided.',
    design='4/C13', engine='sa.solver_ir + sa.extract.truth_table')
CHECKS['C14'] = dict(
    technique='abstract interpretation of PWMControl.apply_rules over finite rule-set configurations (0..4 rules, every subset '
              'applicable, a literal-0 proposal; comprehensions, match statements and loops unrolled over the concrete rule list) '
              'with the single proposal symbolic and a breakpoint table of the resulting clip term; setter range guard incl. its '
              'IEEE/NaN clause and who-may-write; ' + SOLVER_T + 'exactly one unconditional apply_rules per controlled instant',
    text='apply_rules yields default 1 for no proposal, the clipped proposal for exactly one (wherever it sits), ValueError for two '
         'or more (a proposal of 0 counts); the clip equals max(-1, min(1, p)) on every region; the pwm setter rejects values outside '
         '[-1,1] and NaN and is the only writer; the solver applies control once per instant, never skipped, before the motor law '
         'and recorder; no handler can swallow the conflict error.', design='4/C14', engine='sa.sx + sa.solver_ir')
CHECKS['C20'] = dict(
    technique='abstract interpretation of Powertrain.__init__ on every concrete chain of 2..5 elements (spur / self-locking worm / '
              'reversible worm, with and without back-links; while/for/comprehensions unrolled over the concrete chain) and on '
              'every equal/distinct name pattern; symbolic evaluation of the self-locking scan over the abstract element tuple; '
              'read-only/who-may-write census of the two private fields; C10 effect and atomicity rules re-read for the links and flags the assembly consumes',
    text='The stored tuple is exactly the drives-chain from the motor, in order; unconnected motor, non-motor and duplicate names '
         '(adjacent or not) are rejected before assembly; self_locking is True exactly when some element is a WormGear flagged '
         'self-locking; elements and self_locking are setter-less properties returning fields that nothing outside __init__ '
         'writes. Chains longer than 5 are covered by the symbolic scan rule only.', design='4/C20', engine='sa.sx + sa.solver_ir')

CHECKS['C16'] = dict(
    technique=SOLVER_T + 'placement and exit analysis of the stop check per body path; symbolic evaluation of '
              'StopCondition.check_condition (purity, argument binding), of the five operator classes (canonical comparison '
              'guards) and of the three sensors',
    text='Every stepping iteration with a stop condition evaluates it exactly once, after the instant is computed and recorded, '
         'and its truth alone decides break/continue; never at t = 0; nothing runs after the loop; check_condition is stateless and '
         'applies operator(sensor.get_value(), threshold); operators are the five comparisons with the sensor value on the left; '
         'sensors return the live target attribute.', design='4/C16', engine='sa.solver_ir + sa.sx')
CHECKS['C17'] = dict(
    technique='symbolic evaluation of every element class\'s constructor and recorder; advertise-vs-record conditions compared as '
              'exhaustive truth tables over optional-data atoms; guard-stability (who-may-write) of the data they read; '
              + SOLVER_T + 'one time append and one unconditional recorder loop over all elements per instant; compute-guard '
              'implied by record-guard; setter kind checks, setters store their argument in their own field, forwarding clones '
              'forward to their own property; fresh start = one instant + one record before stepping, continuation = none; reset '
              'and export mapping completeness; every append of the recorders targets a time_variables entry looked up at the call',
    text='For all six element classes and every subset of optional data: each advertised key receives exactly one sample per '
         'recorded instant, of the element\'s own attribute, whose setter enforces the kind; derived variables are computed whenever '
         'they are recorded; reset empties every list with a fresh list. Known finding: WormWheel bending stress depends on the '
         'mate after construction.', design='4/C17', engine='sa.sx + sa.solver_ir + sa.extract.truth_table')

CHECKS['C18'] = dict(
    technique='static unrolling of Powertrain.snapshot (constant zip lists, guarded work lists) into its column writes with '
              'their controlling tests (control dependence), variable/unit/data pairing by AST dataflow, interp1d call shape; '
              'abstract evaluation of the export utility\'s column statements per variable (label string, cell as a canonical '
              'term over the generic sample with symbolic unit factors), of the snapshot admission test and of the predeclared '
              'column list; AST rule for the forwarding call; dataflow of the exported file path (given path plus constant suffix, element name unchanged)',
    text='Every snapshot column is written under the membership test of its own variable only, converted and labelled with its '
         'own unit parameter, filled from its own recorded list, interpolated linearly with abscissae and query in seconds, and '
         'snapshot keeps no cached state; export pairs label, conversion unit and data per variable, writes the time column in '
         'time_unit without index (every sample converted on its own), and the powertrain-level export forwards each unit to the '
         'same-named parameter; every instant of the simulated interval, first and last included, is admitted; the frame is created '
         'with exactly the labels the writes use. '
         'Numeric interpolation results are not decided.', design='4/C18', engine='ast + sa.sx')

CHECKS['C07'] = dict(
    technique='units-of-measure analysis with symbolic unit factors: every evaluable function of the package (329) and every '
              'value of the solver IR is evaluated in SI-magnitude space; a stored/returned/compared/passed term that still '
              'depends on the factor of an object\'s own unit is a violation; AST rule against converted raw numbers as '
              'exact-match keys; fail-closed census of all .value reads; exact unit tables and to() (shared with C05); no value- or unit-based __hash__ on quantities (dict/set keys)',
    text='Necessary condition for unit-independence, decided for all inputs and all unit assignments at once (units are '
         'symbols): no raw magnitude whose unit is not pinned reaches a result, decision, lookup key or recorded value anywhere '
         'outside the units package; with C05/C06 (quantity operators are unit-blind) this is the complete list of ways an '
         'input\'s unit can leak. Rounding at decision thresholds is excluded by the property.',
    design='4/C07', engine='sa.sx + sa.solver_ir')

LINTS = ('; AST lints over the modules the property lives in, run before anything is evaluated, for state Python keeps outside '
         'the modelled objects: mutable defaults that are changed, late-binding closures, memoisation over object state, self-storing '
         'descriptors, private-name stores outside the class (no mangling), functions closing over self stored on the object, super() of the '
         'dynamic class, exact-class tests, merged names in tables of time variables, class-level mutable containers filled by methods, solver '
         'containers accumulated in place; functions under an unknown decorator fail closed; a mismatch against an un-evaluated value is undecided')
EXTRA = {
    'C01': '; early exits of the propagation loops; Powertrain.reset re-read (fresh list per variable); C10 ratio rules and the C06 triples met re-read',
    'C02': '; loop-carried values substituted in the driving rule; C08 laws, reset and C06 triples re-read',
    'C03': '; value-order lint (sort/sorted pairs element data by value); C12 continuation rule and reset re-read',
    'C05': '; comparison predicates decided on sign-partitioned evaluation points of the SI difference around the tolerance (tolerance-absorption rule); duplicate table keys; private-copy stores of constructors',
    'C06': '; per-kind negation rule with dispatch inside the units package; accepted pairs may raise only TypeError / ZeroDivisionError for division / ValueError for a sign-constrained result kind; operand-purity rule',
    'C08': '; boundary tests census incl. truth-arithmetic forms; linear-combination infeasibility of guard pairs',
    'C09': '; worm table rows; role-without-link states excluded from the flag tables',
    'C10': '; raw truth values handed to bool setters (numpy operands); (in)equalities whose two sides were both converted to the same unit',
    'C11': '; identity tests between numbers; round(x, n) and opaque pure numeric helpers as uninterpreted functions',
    'C12': '; try/finally evaluated (final block on every exit); identity tests; C11 grid/count rules re-read for the continuation',
    'C13': '; C10 effects of all relation functions and the who-may-write census of the worm flag re-read; C03 integration rule and C12 continuation rule re-read',
    'C14': '; itertools.pairwise and numpy.clip modelled; the controller applied at an instant is the argument of this call in every context',
    'C15': '; value semantics of and/or; role filters on the efficiency product; reduce/prod over generators as the accumulating loop; C14 arbitration rules re-read',
    'C16': '; C05 comparison/table/to() rules of the compared kinds and sub-kinds re-read',
    'C17': '; every recording instant computes the same derived quantities; who-may-write census of the histories and of the time axis; the pwm sample is the duty cycle itself',
    'C18': '; export utility decided by abstract evaluation per variable kind; a class whose block is skipped as a whole',
    'C19': '; raising paths of to() must not have stored; the constructor duty-cycle store is a constant in range or goes through the setter',
    'C20': '; flag read through the getter; frozen pure getters; C10 atomicity of the links; never-mated worm gears in the concrete chains; a rejected chain leaves its elements untouched',
}
for _pid, _c in CHECKS.items():
    _c['technique'] = _c['technique'] + EXTRA.get(_pid, '') + LINTS

NOT_APPLICABLE = {
    'C04': 'limit statement (error = O(dt) as dt -> 0) against an analytic oracle; no sound static argument in reach '
           'bounds a global discretisation error. Its code-shape ingredients (consistent first-order integrator, torque '
           'evaluated at the current state, inertia reduction, linear motor law) are decided under C02/C03/C08.',
}


def main():
    props = [json.loads(l) for l in (ROOT / 'properties.jsonl').read_text().splitlines() if l.strip()]
    checks = []
    na = []
    for p in props:
        pid = p['id']
        if pid in CHECKS:
            c = CHECKS[pid]
            checks.append({
                'property_id': pid,
                'quick_cmd': f'python3 checks/run.py {pid} --tier quick',
                'thorough_cmd': f'python3 checks/run.py {pid} --tier thorough',
                'evidence_file': f'/verif/evidence/{pid}.json',
                'replay_cmd_template': f'python3 checks/run.py {pid} --replay {{path}}',
                'engine': c.get('engine', 'sa'),
                'level_claimed': {'category': 'other', 'text': c['text'], 'design_ref': c['design']},
                'level_note': TRUSTED + ' ' + c.get('note', ''),
                'technique': c['technique'],
            })
        else:
            na.append({'property_id': pid, 'reason': NOT_APPLICABLE.get(
                pid, 'check not yet built in this commit (framework under construction); planned rule in DESIGN.md section 4')})
    man = {
        'version': 1,
        'setup_cmd': 'python3 -m compileall -q sa checks selftest',
        'hooks': {
            'guard': 'GEARPY_VERIF',
            'enable': 'none needed: the checks are static, read /repo sources as text and never import gearpy; '
                      'no instrumentation of gearpy exists',
            'baseline_off_cmd': 'cd /repo && /venv/bin/python -m pytest -ra -q -p no:cacheprovider --timeout=900 '
                                '--continue-on-collection-errors',
            'source_commits': [],
            'add_only': True,
        },
        'engines': [
            {'name': 'srcmodel', 'path': 'sa/srcmodel.py', 'kind_free_text': 'E0 source model: classes, MRO, members, mangling'},
            {'name': 'sx', 'path': 'sa/sx.py', 'kind_free_text': 'E1/E2 gated value numbering to canonical rational terms'},
            {'name': 'algebra', 'path': 'sa/algebra.py', 'kind_free_text': 'canonical rational functions, function atoms'},
            {'name': 'units', 'path': 'sa/units.py', 'kind_free_text': 'E3 unit tables over Q[pi], SI oracle in sa/spec/si.py'},
        ],
        'checks': checks,
        'notes': 'Technique family: static analysis only (stdlib ast). Exit 0 holds / 1 VIOLATION / 2 ANALYSIS-ERROR. '
                 'Known findings: known_findings.json. See DESIGN.md.',
        'not_applicable': na,
    }
    (ROOT / 'MANIFEST.json').write_text(json.dumps(man, indent=1) + '\n')
    print(f'{len(checks)} checks, {len(na)} not applicable')


if __name__ == '__main__':
    main()
