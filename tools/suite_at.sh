#!/bin/bash
# usage: tools/suite_at.sh <commit> <logname>  -- runs the unedited suite on a scratch worktree of <commit>
c="$1"; name="$2"; wt=/tmp/suite_$name
git -C /repo worktree remove --force $wt 2>/dev/null
git -C /repo worktree add -q --detach $wt $c || exit 2
cd $wt && /venv/bin/python -m pytest -q -p no:cacheprovider -n 8 tests > /tmp/suite_$name.log 2>&1
echo "exit=$?" >> /tmp/suite_$name.log
cd / && git -C /repo worktree remove --force $wt
tail -2 /tmp/suite_$name.log
