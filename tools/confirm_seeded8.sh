#!/bin/bash
# usage: tools/confirm_seeded8.sh C16 o  -- round-8 confirmation (base: /repo HEAD 35ab50f, delivery in /tmp/wt_out8/<pid>/a):
# demo passes clean, fails with the patch, full suite passes with the patch.  Writes /verif/seeded/<pid><letter>/.
pid="$1"; letter="$2"; PIN=35ab50f; src=${SRC8:-/tmp/wt_out8}/$pid/a; id=$pid$letter
[ -f "$src/patch.diff" ] || { echo "no patch for $pid"; exit 2; }
wt=/tmp/confirm_$id
git -C /repo worktree remove --force $wt 2>/dev/null
git -C /repo worktree add -q --detach $wt $PIN || exit 2
cd $wt
out=/verif/seeded/$id; mkdir -p $out
PYTHONPATH=$wt /venv/bin/python $src/demo.py > $out/demo_without.log 2>&1; wo=$?
git apply $src/patch.diff || { echo "patch does not apply"; cd /; git -C /repo worktree remove --force $wt; exit 3; }
PYTHONPATH=$wt /venv/bin/python $src/demo.py > $out/demo_with.log 2>&1; wi=$?
/venv/bin/python -m pytest -q -p no:cacheprovider -n 8 tests > $out/suite.log 2>&1; st=$?
summary=$(tail -1 $out/suite.log)
cp $src/patch.diff $src/demo.py $out/; cp $src/notes.md $out/ 2>/dev/null
tail -3 $out/suite.log > $out/suite_tail.log; rm -f $out/suite.log
cd /; git -C /repo worktree remove --force $wt
python3 - "$pid" "$id" "$wo" "$wi" "$st" "$summary" "$PIN" <<'PY'
import json,sys
pid,sid,wo,wi,st,summary,pin=sys.argv[1:8]
out=f'/verif/seeded/{sid}'
meta={'id':sid,'property':pid,'round':8,'base_commit':pin,'demo_exit_without_patch':int(wo),'demo_exit_with_patch':int(wi),
 'suite_exit_with_patch':int(st),'suite_summary':summary,
 'confirmed': int(wo)==0 and int(wi)!=0 and int(st)==0,
 'ran':['scratch worktree of '+pin,'python demo.py (clean) -> exit %s'%wo,'git apply patch.diff','python demo.py (patched) -> exit %s'%wi,'python -m pytest -q -n 8 tests (patched) -> %s'%summary]}
json.dump(meta,open(out+'/meta.json','w'),indent=1)
print(sid, 'CONFIRMED' if meta['confirmed'] else 'NOT-CONFIRMED', wo, wi, st, summary)
PY
