#!/usr/bin/env python3
"""Runs the registered quick check of the seeded change's property (and optionally others) against every
seeded change under /verif/seeded: applies patch_head.diff (a port to the repaired tree) if present, else
patch.diff, to /repo, runs the check, restores /repo.  Writes the outcome into meta.json ('detection')."""
import json, pathlib, subprocess, sys
ROOT = pathlib.Path('/verif/seeded')
only = sys.argv[1:]
rows = []
for d in sorted(ROOT.iterdir()):
    if not d.is_dir() or (only and d.name not in only):
        continue
    meta = json.loads((d / 'meta.json').read_text()) if (d / 'meta.json').exists() else {'id': d.name, 'property': d.name[:3]}
    patch = d / 'patch_head.diff' if (d / 'patch_head.diff').exists() else d / 'patch.diff'
    if 'needs_to_manifest' not in meta and (d / 'notes.md').exists():
        import re
        txt = (d / 'notes.md').read_text()
        m = re.search(r'(?is)(needs?[^\n]*manifest[^\n]*\n.*?)(\n#|\n\*\*|\Z)', txt)
        meta['needs_to_manifest'] = (m.group(1) if m else txt)[:900].strip()
        meta['breaks'] = txt[:400].strip()
    pid = meta['property']
    st = subprocess.run(['git', '-C', '/repo', 'status', '--short'], capture_output=True, text=True).stdout.strip()
    if st:
        print('REPO NOT CLEAN', st); sys.exit(2)
    ap = subprocess.run(['git', '-C', '/repo', 'apply', str(patch)], capture_output=True, text=True)
    if ap.returncode != 0:
        meta['detection'] = {'applies_to_head': False, 'note': 'patch targets code rewritten by a fix: commit; see notes'}
        rows.append((d.name, 'NO-APPLY', ''))
    else:
        r = subprocess.run(['python3', 'checks/run.py', pid, '--tier', 'quick'], cwd='/verif', capture_output=True, text=True)
        keys = sorted({l.strip().split(' [')[0].replace('VIOLATION ', '') for l in r.stdout.splitlines() if l.startswith('  VIOLATION')})
        meta['detection'] = {'applies_to_head': True, 'patch_used': patch.name, 'check': f'python3 checks/run.py {pid} --tier quick',
                             'exit': r.returncode, 'detected': r.returncode == 1, 'reported': keys[:6]}
        rows.append((d.name, 'DETECTED' if r.returncode == 1 else f'MISSED(exit {r.returncode})', '; '.join(keys[:2])[:150]))
        subprocess.run(['git', '-C', '/repo', 'checkout', '--', '.'], check=True)
    (d / 'meta.json').write_text(json.dumps(meta, indent=1))
subprocess.run(['git', '-C', '/verif', 'checkout', '--', 'evidence'], capture_output=True)
for r in rows:
    print('%-6s %-18s %s' % r)
