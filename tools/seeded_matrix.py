#!/usr/bin/env python3
"""Writes /verif/seeded/MATRIX.md: one row per kept seeded change (what it touches, what it needs to manifest,
how it was confirmed, which rule of which check reports it)."""
import json
import pathlib
import re

ROOT = pathlib.Path('/verif/seeded')
rows = []
for d in sorted(ROOT.iterdir()):
    if not d.is_dir() or not (d / 'meta.json').exists():
        continue
    m = json.loads((d / 'meta.json').read_text())
    patch = (d / 'patch.diff').read_text() if (d / 'patch.diff').exists() else ''
    files = sorted(set(re.findall(r'^\+\+\+ b/(\S+)', patch, re.M)))
    det = m.get('detection', {})
    needs = (m.get('needs_to_manifest') or '').replace('\n', ' ')
    needs = re.sub(r'\s+', ' ', needs)[:160]
    rows.append((m.get('id', d.name), m.get('property', d.name[:3]), m.get('base_commit', '?'),
                 ', '.join(f.replace('gearpy/', '') for f in files),
                 'yes' if m.get('confirmed') else 'NO',
                 ('DETECTED' if det.get('detected') else ('not applicable to HEAD' if det.get('applies_to_head') is False else f'MISSED (exit {det.get("exit")})')),
                 '; '.join(det.get('reported', [])[:2]), needs))
out = ['# Seeded changes and the checks that report them', '',
       'Each change was produced by an independent sub-agent that saw only the property text, passes the full unedited suite and',
       'fails its own demo (confirmed in a scratch worktree of the base commit; see each `meta.json`).  `patch_head.diff` is the port',
       'to the repaired tree where the original no longer applies.  Detection = `python3 checks/run.py <property> --tier quick` with the',
       'change applied to /repo (exit 1 and the rule keys below), restored afterwards.', '',
       '| id | property | base | files | confirmed | quick check | first rule keys | needs to manifest |', '|---|---|---|---|---|---|---|---|']
for r in rows:
    out.append('| ' + ' | '.join(str(x).replace('|', '\\|') for x in r) + ' |')
det = sum(1 for r in rows if r[5] == 'DETECTED')
out += ['', f'{len(rows)} changes kept, {det} detected by the check of their own property, '
            f'{sum(1 for r in rows if r[5].startswith("not applicable"))} no longer applicable to the repaired tree.']
(ROOT / 'MATRIX.md').write_text('\n'.join(out) + '\n')
print(out[-1])
