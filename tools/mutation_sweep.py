#!/usr/bin/env python3
"""Systematic AST-mutation sweep (development tool, not a registered check).

Generates single-site mutants of the property-anchored gearpy modules (operator swaps, comparison
changes, constant perturbations, and/or swaps, statement deletions, adjacent-statement swaps, vocabulary
attribute swaps), runs the checks relevant to the mutated file on each mutant in memory, and writes
which rule keys fire.  Survivors (no check fires) are listed for triage: either equivalent/irrelevant
to the 20 properties, or a gap in the rules.

    python3 tools/mutation_sweep.py [--files solver,relations] [--limit N] [--out /tmp/sweep.json]
"""
from __future__ import annotations

import argparse
import ast
import copy
import json
import multiprocessing as mp
import pathlib
import sys
import time

sys.path.insert(0, str(pathlib.Path(__file__).resolve().parent.parent))
from sa.core import load_sources  # noqa: E402

FILES = {
    'solver': ('gearpy/solver.py', ['C01', 'C02', 'C03', 'C07', 'C11', 'C12', 'C13', 'C14', 'C16', 'C17']),
    'relations': ('gearpy/utils/relations.py', ['C10', 'C07']),
    'dc_motor': ('gearpy/mechanical_objects/dc_motor.py', ['C08', 'C02', 'C19', 'C14', 'C17', 'C07', 'C15']),
    'base': ('gearpy/mechanical_objects/mechanical_object_base.py', ['C09', 'C17', 'C19', 'C10', 'C01', 'C02', 'C07']),
    'spur': ('gearpy/mechanical_objects/spur_gear.py', ['C09', 'C17', 'C07']),
    'helical': ('gearpy/mechanical_objects/helical_gear.py', ['C09', 'C19', 'C17', 'C07']),
    'wheel': ('gearpy/mechanical_objects/worm_wheel.py', ['C09', 'C17', 'C19', 'C07']),
    'worm': ('gearpy/mechanical_objects/worm_gear.py', ['C09', 'C10', 'C17', 'C19', 'C07']),
    'powertrain': ('gearpy/powertrain.py', ['C20', 'C12', 'C18', 'C17', 'C13']),
    'pwm_control': ('gearpy/motor_control/pwm_control.py', ['C14']),
    'rules_const': ('gearpy/motor_control/rules/constant_pwm.py', ['C15']),
    'rules_reach': ('gearpy/motor_control/rules/reach_angular_position.py', ['C15', 'C07']),
    'rules_limit': ('gearpy/motor_control/rules/start_limit_current.py', ['C15', 'C07']),
    'rules_prop': ('gearpy/motor_control/rules/start_proportional_to_angular_position.py', ['C15', 'C07']),
    'rules_utils': ('gearpy/motor_control/rules/utils.py', ['C15', 'C07']),
    'timer': ('gearpy/sensors/timer.py', ['C15']),
    'encoder': ('gearpy/sensors/absolute_rotary_encoder.py', ['C16', 'C15']),
    'tacho': ('gearpy/sensors/tachometer.py', ['C16']),
    'ampero': ('gearpy/sensors/amperometer.py', ['C16']),
    'stop': ('gearpy/utils/stop_condition/stop_condition.py', ['C16']),
    'operator': ('gearpy/utils/stop_condition/operator.py', ['C16']),
    'export': ('gearpy/utils/export.py', ['C18', 'C17']),
    'unit_base': ('gearpy/units/unit_base.py', ['C05', 'C06', 'C19']),
    'units': ('gearpy/units/units.py', ['C05', 'C06', 'C19', 'C07']),
}
SKIP_FUNCS = {'plot', '__repr__', '__format__'}
VOCAB_SWAPS = [('angular_speed', 'angular_position'), ('drives', 'driven_by'), ('load_torque', 'driving_torque'),
               ('master_gear_ratio', 'master_gear_efficiency'), ('n_teeth', 'n_starts'), ('sin', 'cos')]
BIN = {ast.Add: ast.Sub, ast.Sub: ast.Add, ast.Mult: ast.Div, ast.Div: ast.Mult}
CMP = {ast.Lt: [ast.LtE, ast.Gt], ast.LtE: [ast.Lt, ast.GtE], ast.Gt: [ast.GtE, ast.Lt], ast.GtE: [ast.Gt, ast.LtE],
       ast.Eq: [ast.NotEq], ast.NotEq: [ast.Eq], ast.Is: [ast.IsNot], ast.IsNot: [ast.Is], ast.In: [ast.NotIn], ast.NotIn: [ast.In]}


def is_docstring(stmt):
    return isinstance(stmt, ast.Expr) and isinstance(stmt.value, ast.Constant) and isinstance(stmt.value.value, str)


def in_message(node, parents):
    """inside a raise ...(message) / f-string: not behaviour"""
    p = parents.get(id(node))
    while p is not None:
        if isinstance(p, (ast.Raise, ast.JoinedStr)):
            return True
        p = parents.get(id(p))
    return False


def sites(tree):
    """[(description, mutate(tree_copy_node_lookup) )] - returns list of (desc, path, kind, payload)"""
    out = []
    parents = {}
    for n in ast.walk(tree):
        for c in ast.iter_child_nodes(n):
            parents[id(c)] = n
    func_of = {}
    for f in ast.walk(tree):
        if isinstance(f, ast.FunctionDef):
            for n in ast.walk(f):
                func_of.setdefault(id(n), f.name)
    idx = 0
    for n in ast.walk(tree):
        n._mid = idx
        idx += 1
    for n in ast.walk(tree):
        fn = func_of.get(id(n))
        if fn in SKIP_FUNCS or fn is None and not isinstance(n, (ast.Dict,)):
            if not isinstance(parents.get(id(n)), ast.Dict):
                continue
        if in_message(n, parents):
            continue
        ln = getattr(n, 'lineno', 0)
        if isinstance(n, ast.BinOp) and type(n.op) in BIN:
            out.append((f'{fn}:{ln} binop {type(n.op).__name__}->{BIN[type(n.op)].__name__}', n._mid, 'binop', None))
        elif isinstance(n, ast.Compare) and len(n.ops) == 1 and type(n.ops[0]) in CMP:
            for k, new in enumerate(CMP[type(n.ops[0])]):
                out.append((f'{fn}:{ln} cmp {type(n.ops[0]).__name__}->{new.__name__}', n._mid, 'cmp', k))
        elif isinstance(n, ast.BoolOp):
            out.append((f'{fn}:{ln} boolop swap', n._mid, 'boolop', None))
        elif isinstance(n, ast.UnaryOp) and isinstance(n.op, ast.Not):
            out.append((f'{fn}:{ln} drop-not', n._mid, 'dropnot', None))
        elif isinstance(n, ast.Constant) and isinstance(n.value, (int, float)) and not isinstance(n.value, bool):
            p = parents.get(id(n))
            if isinstance(p, ast.Expr):
                continue
            out.append((f'{fn}:{ln} const {n.value!r} perturbed', n._mid, 'const', None))
        elif isinstance(n, ast.Constant) and isinstance(n.value, bool):
            out.append((f'{fn}:{ln} bool {n.value} flipped', n._mid, 'bool', None))
        elif isinstance(n, ast.Attribute):
            for a, b in VOCAB_SWAPS:
                if n.attr == a:
                    out.append((f'{fn}:{ln} attr {a}->{b}', n._mid, 'attr', b))
                elif n.attr == b:
                    out.append((f'{fn}:{ln} attr {b}->{a}', n._mid, 'attr', a))
        if isinstance(n, (ast.FunctionDef, ast.If, ast.For, ast.While)) and (isinstance(n, ast.FunctionDef) and n.name not in SKIP_FUNCS or fn):
            body = n.body
            for i, s in enumerate(body):
                if is_docstring(s) or isinstance(s, (ast.FunctionDef, ast.ClassDef, ast.Pass)):
                    continue
                if isinstance(s, ast.Raise):
                    continue
                if len(body) > 1 or not isinstance(n, ast.FunctionDef):
                    out.append((f'{fn or n.name}:{s.lineno} delete `{ast.unparse(s)[:50]}`', n._mid, 'delete', i))
                if i + 1 < len(body) and not is_docstring(body[i + 1]) and not isinstance(s, ast.Return) \
                        and isinstance(s, (ast.Assign, ast.AugAssign, ast.Expr)) and isinstance(body[i + 1], (ast.Assign, ast.AugAssign, ast.Expr)):
                    out.append((f'{fn or n.name}:{s.lineno} swap-with-next `{ast.unparse(s)[:40]}`', n._mid, 'swap', i))
    return out


def apply(tree, mid, kind, payload):
    t = copy.deepcopy(tree)
    idx = 0
    target = None
    for n in ast.walk(t):
        if idx == mid:
            target = n
            break
        idx += 1
    n = target
    if kind == 'binop':
        n.op = BIN[type(n.op)]()
    elif kind == 'cmp':
        n.ops = [CMP[type(n.ops[0])][payload]()]
    elif kind == 'boolop':
        n.op = ast.Or() if isinstance(n.op, ast.And) else ast.And()
    elif kind == 'dropnot':
        # replace `not x` by `x`: done by editing in the parent is complex; use double negation trick
        n.op = ast.UAdd()
        n.operand = ast.Compare(left=ast.Call(ast.Name('bool', ast.Load()), [n.operand], []), ops=[ast.Eq()], comparators=[ast.Constant(True)])
        return None
    elif kind == 'const':
        v = n.value
        n.value = (v + 1) if isinstance(v, int) else (v * 10 if v != 0 else 1.0)
    elif kind == 'bool':
        n.value = not n.value
    elif kind == 'attr':
        n.attr = payload
    elif kind == 'delete':
        del n.body[payload]
        if not n.body:
            n.body.append(ast.Pass())
    elif kind == 'swap':
        n.body[payload], n.body[payload + 1] = n.body[payload + 1], n.body[payload]
    ast.fix_missing_locations(t)
    try:
        return ast.unparse(t)
    except Exception:
        return None


_SRC = None
_KNOWN = None


def _init(src, known):
    global _SRC, _KNOWN
    _SRC, _KNOWN = src, known


def run_one(job):
    path, props, desc, text = job
    from checks.run import run_property
    src = dict(_SRC)
    src[path] = text
    fired = {}
    errors = {}
    for pid in props:
        try:
            rep = run_property(pid, src)
        except Exception as e:
            errors[pid] = f'{type(e).__name__}: {e}'[:120]
            continue
        keys = [k for k in rep.violation_keys() if k not in _KNOWN]
        cannot = [c.key for c in rep.by_status('CANNOT-DECIDE')]
        if keys:
            fired[pid] = keys[:3]
        elif cannot:
            errors[pid] = 'CANNOT ' + cannot[0][:100]
    return desc, path, fired, errors


def main():
    ap = argparse.ArgumentParser()
    ap.add_argument('--files', default=','.join(FILES))
    ap.add_argument('--limit', type=int, default=0)
    ap.add_argument('--out', default='/tmp/sweep.json')
    ap.add_argument('--jobs', type=int, default=14)
    a = ap.parse_args()
    src = load_sources()
    known = {k['key'] for k in json.loads((pathlib.Path(__file__).resolve().parent.parent / 'known_findings.json').read_text())['findings']
             if k['status'] == 'known'}
    jobs = []
    for name in a.files.split(','):
        path, props = FILES[name]
        tree = ast.parse(src[path])
        ss = sites(tree)
        if a.limit:
            step = max(1, len(ss) // a.limit)
            ss = ss[::step][:a.limit]
        for desc, mid, kind, payload in ss:
            text = apply(tree, mid, kind, payload)
            if text is None or text == ast.unparse(tree):
                continue
            jobs.append((path, props, f'{name}:{desc}', text))
    print(f'{len(jobs)} mutants', flush=True)
    t0 = time.time()
    with mp.Pool(a.jobs, initializer=_init, initargs=(src, known)) as pool:
        res = pool.map(run_one, jobs, chunksize=4)
    killed = [r for r in res if r[2]]
    undecided = [r for r in res if not r[2] and r[3]]
    surv = [r for r in res if not r[2] and not r[3]]
    out = {'total': len(res), 'killed': len(killed), 'cannot_or_error_only': len(undecided), 'survivors': len(surv),
           'wall_s': round(time.time() - t0, 1),
           'survivor_list': [(r[0], r[1]) for r in surv], 'undecided_list': [(r[0], r[3]) for r in undecided],
           'killed_list': [(r[0], r[2]) for r in killed]}
    pathlib.Path(a.out).write_text(json.dumps(out, indent=1))
    print(json.dumps({k: v for k, v in out.items() if not k.endswith('_list')}))


if __name__ == '__main__':
    main()
