#!/usr/bin/env python3
"""Development tool: applies each package-wide behaviour-preserving rewrite of selftest/generic.py to the sources of /repo (in
memory) and runs every check on the result; any violation or cannot-decide that the unchanged tree does not have is a defect of
the machinery.  usage: python3 tools/generic_sweep.py [transform ...]"""
import multiprocessing as mp
import os
import sys
sys.path.insert(0, os.path.dirname(os.path.dirname(os.path.abspath(__file__))))
from sa.core import load_sources          # noqa: E402
from selftest import generic              # noqa: E402

PIDS = ['C01', 'C02', 'C03', 'C05', 'C06', 'C07', 'C08', 'C09', 'C10', 'C11', 'C12', 'C13', 'C14', 'C15', 'C16', 'C17', 'C18', 'C19', 'C20']


def one(job):
    name, pid = job
    from checks.run import run_property
    os.environ['VERIF_TIER'] = 'quick'
    src = load_sources()
    base = run_property(pid, src)
    try:
        rep = run_property(pid, generic.apply(name, src))
    except Exception as e:
        return name, pid, [f'CRASH {type(e).__name__}: {e}'], []
    bk = set(base.violation_keys())
    bc = {c.key for c in base.by_status('CANNOT-DECIDE')}
    new = sorted(set(rep.violation_keys()) - bk)
    cannot = sorted({f'{c.key}: {c.detail[:120]}' for c in rep.by_status('CANNOT-DECIDE') if c.key not in bc})
    return name, pid, new, cannot


if __name__ == '__main__':
    names = sys.argv[1:] or list(generic.TRANSFORMS)
    jobs = [(n, p) for n in names for p in PIDS]
    with mp.Pool(14) as pool:
        for name, pid, new, cannot in pool.imap_unordered(one, jobs):
            if new or cannot:
                print(f'{name:16s} {pid}  new={new[:3]} cannot={cannot[:2]}')
    print('done')
