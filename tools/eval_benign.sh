#!/bin/bash
# usage: tools/eval_benign.sh [ids...]  - applies each behaviour-preserving refactoring under /verif/benign to /repo, runs EVERY
# registered quick check, restores /repo; a non-zero exit of any check on such a variant is a defect of the machinery.
cd /verif
ids="$@"; [ -z "$ids" ] && ids=$(ls benign)
fail=0
for id in $ids; do
  f=/verif/benign/$id/patch_head.diff; [ -f $f ] || f=/verif/benign/$id/patch.diff; [ -f $f ] || continue
  if ! git -C /repo apply --check $f 2>/dev/null; then echo "$id NOAPPLY (base moved)"; continue; fi
  git -C /repo apply $f
  bad=$(printf '%s\n' C01 C02 C03 C05 C06 C07 C08 C09 C10 C11 C12 C13 C14 C15 C16 C17 C18 C19 C20 | \
        xargs -P 16 -I{} sh -c 'timeout 300 python3 checks/run.py {} --tier quick >/dev/null 2>&1; rc=$?; [ $rc -ne 0 ] && echo " {}($rc)"' | sort | tr -d '\n')
  if [ -f /verif/benign/$id/undecided ] && ! echo "$bad" | grep -q "(1)"; then echo "$id -> undecided as recorded (exit 2 only):$bad"; else
  echo "$id ->${bad:- all exit 0}"; [ -n "$bad" ] && fail=1; fi
  git -C /repo checkout -- .
done
git -C /verif checkout -- evidence 2>/dev/null
exit $fail
