#!/usr/bin/env python3
"""Rewrites the battery counts in DESIGN.md 10.4 from the SELFTEST lines of the thorough outputs given as arguments."""
import re, sys
rows = {}
for f in sys.argv[1:]:
    for l in open(f):
        m = re.search(r'SELFTEST property=(C\d\d) variants=\d+ killed=(\d+) missed=(\d+) benign_silent=(\d+) benign_alarmed=(\d+)', l)
        if m:
            rows[m.group(1)] = f'{m.group(1)} {m.group(2)}/{m.group(4)}' + ('' if m.group(3) == '0' and m.group(5) == '0' else ' (!)')
txt = ', '.join(rows[k] for k in sorted(rows))
p = '/verif/DESIGN.md'
s = open(p).read()
s2 = re.sub(r'(\(mutants killed / benign silent, no misses, no false alarms\): ).*?\.\n', lambda m: m.group(1) + txt + '.\n', s, count=1, flags=re.S)
open(p, 'w').write(s2)
print(txt)
