#!/bin/bash
# usage: tools/try_patch.sh <patch.diff> <PID> [<PID> ...]   -- applies the patch to /repo, runs the quick checks, reverts
patch="$1"; shift
cd /repo || exit 2
if ! git apply --check "$patch" 2>/dev/null; then
  if git apply --3way --check "$patch" 2>/dev/null; then echo "(3way)"; else echo "PATCH-DOES-NOT-APPLY $patch"; exit 3; fi
fi
git apply "$patch" || exit 3
cd /verif
for p in "$@"; do
  python3 checks/run.py "$p" --tier quick 2>&1 | grep -v "^KNOWN-FINDING" | cut -c1-260 | tail -6
done
git -C /repo checkout -- . && git -C /verif checkout -- evidence 2>/dev/null
