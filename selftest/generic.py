"""Package-wide behaviour-preserving AST rewrites, used as automatic benign variants of every battery (and by the
development tool tools/generic_sweep.py).  Each rewrite is applied to every function of every module of the package;
each one preserves the value, the exceptions and the order of evaluation of everything that can have an effect:

  swap-if-else          `if c: A else: B`            -> `if not c: B else: A`
  flatten-else          `if c: ...; return/raise  else: B`  -> the same without the `else:` (B follows the if)
  not-is-none           `x is not None`              -> `not x is None`
  de-morgan             `not (a and b)`              -> `not a or not b`   (and the dual)
  ternary-to-if         `x = a if c else b`          -> `if c: x = a` / `else: x = b`   (also for `return`)
  split-chained         `a <= b <= c` (b a plain name) -> `a <= b and b <= c`
  explicit-none         bare `return`                -> `return None`
"""
from __future__ import annotations

import ast
import copy


def _ends(body):
    return bool(body) and isinstance(body[-1], (ast.Return, ast.Raise, ast.Continue, ast.Break))


class SwapIfElse(ast.NodeTransformer):
    def visit_If(self, node):
        self.generic_visit(node)
        if node.orelse:
            test = node.test.operand if isinstance(node.test, ast.UnaryOp) and isinstance(node.test.op, ast.Not) \
                else ast.UnaryOp(op=ast.Not(), operand=node.test)
            return ast.copy_location(ast.If(test=test, body=node.orelse, orelse=node.body), node)
        return node


class FlattenElse(ast.NodeTransformer):
    def _block(self, stmts):
        out = []
        for s in stmts:
            if isinstance(s, ast.If) and s.orelse and _ends(s.body):
                out.append(ast.copy_location(ast.If(test=s.test, body=s.body, orelse=[]), s))
                out.extend(self._block(s.orelse))
            else:
                out.append(s)
        return out

    def generic_visit(self, node):
        super().generic_visit(node)
        for f in ('body', 'orelse', 'finalbody'):
            v = getattr(node, f, None)
            if isinstance(v, list) and v and isinstance(v[0], ast.stmt):
                setattr(node, f, self._block(v))
        return node


class NotIsNone(ast.NodeTransformer):
    def visit_Compare(self, node):
        self.generic_visit(node)
        if len(node.ops) == 1 and isinstance(node.ops[0], ast.IsNot):
            return ast.copy_location(ast.UnaryOp(op=ast.Not(), operand=ast.Compare(left=node.left, ops=[ast.Is()],
                                                                                  comparators=node.comparators)), node)
        return node


class DeMorgan(ast.NodeTransformer):
    def visit_UnaryOp(self, node):
        self.generic_visit(node)
        if isinstance(node.op, ast.Not) and isinstance(node.operand, ast.BoolOp):
            dual = ast.Or() if isinstance(node.operand.op, ast.And) else ast.And()
            vals = [v.operand if isinstance(v, ast.UnaryOp) and isinstance(v.op, ast.Not) else ast.UnaryOp(op=ast.Not(), operand=v)
                    for v in node.operand.values]
            return ast.copy_location(ast.BoolOp(op=dual, values=vals), node)
        return node


class TernaryToIf(ast.NodeTransformer):
    def _block(self, stmts):
        out = []
        for s in stmts:
            if isinstance(s, ast.Assign) and isinstance(s.value, ast.IfExp) and len(s.targets) == 1 and isinstance(s.targets[0], ast.Name):
                a = ast.copy_location(ast.Assign(targets=[copy.deepcopy(s.targets[0])], value=s.value.body), s)
                b = ast.copy_location(ast.Assign(targets=[copy.deepcopy(s.targets[0])], value=s.value.orelse), s)
                out.append(ast.copy_location(ast.If(test=s.value.test, body=[a], orelse=[b]), s))
            elif isinstance(s, ast.Return) and isinstance(s.value, ast.IfExp):
                a = ast.copy_location(ast.Return(value=s.value.body), s)
                b = ast.copy_location(ast.Return(value=s.value.orelse), s)
                out.append(ast.copy_location(ast.If(test=s.value.test, body=[a], orelse=[b]), s))
            else:
                out.append(s)
        return out

    def generic_visit(self, node):
        super().generic_visit(node)
        for f in ('body', 'orelse', 'finalbody'):
            v = getattr(node, f, None)
            if isinstance(v, list) and v and isinstance(v[0], ast.stmt):
                setattr(node, f, self._block(v))
        return node


class SplitChained(ast.NodeTransformer):
    def visit_Compare(self, node):
        self.generic_visit(node)
        if len(node.ops) == 2 and isinstance(node.comparators[0], ast.Name):
            mid = node.comparators[0]
            return ast.copy_location(ast.BoolOp(op=ast.And(), values=[
                ast.Compare(left=node.left, ops=[node.ops[0]], comparators=[mid]),
                ast.Compare(left=copy.deepcopy(mid), ops=[node.ops[1]], comparators=[node.comparators[1]])]), node)
        return node


class ExplicitNone(ast.NodeTransformer):
    def visit_Return(self, node):
        if node.value is None:
            return ast.copy_location(ast.Return(value=ast.Constant(value=None)), node)
        return node


TRANSFORMS = {
    'swap-if-else': SwapIfElse, 'flatten-else': FlattenElse, 'not-is-none': NotIsNone, 'de-morgan': DeMorgan,
    'ternary-to-if': TernaryToIf, 'split-chained': SplitChained, 'explicit-none': ExplicitNone,
}


def apply(name, sources):
    out = {}
    for p, t in sources.items():
        if not p.endswith('.py'):
            out[p] = t
            continue
        tree = ast.parse(t)
        tree = TRANSFORMS[name]().visit(tree)
        ast.fix_missing_locations(tree)
        out[p] = ast.unparse(tree)
    return out
