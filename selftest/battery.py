"""Sensitivity battery of the thorough tier: the property's own rules are re-run, entirely in
memory, on single-site variants of the current tree (gearpy is still never executed).

* `mutant`  - a realistic breaking edit; the rules must report a VIOLATION that is not a listed
              known finding of the unmodified tree (the key set must grow);
* `benign`  - a behaviour-preserving rewrite; the rules must report nothing new and must not
              fall back to CANNOT-DECIDE.

A variant whose anchor text is not present in the current tree (the repository moved on) is
recorded as `skipped`, never as a failure.  Battery results describe the *checker*; they are
written to the evidence file and printed as SELFTEST lines, and never change the verdict on
/repo itself."""
from __future__ import annotations

import multiprocessing as mp
import random

from selftest.catalogue import CATALOGUE

_SOURCES = None
_PID = None


def _apply(sources, edits):
    out = dict(sources)
    for e in edits:
        path, old, new = e[0], e[1], e[2]
        nth = e[3] if len(e) > 3 else None
        text = out.get(path)
        if text is None:
            return None
        if nth is None:
            if text.count(old) != 1:
                return None
            out[path] = text.replace(old, new)
        else:
            parts = text.split(old)
            if len(parts) - 1 <= nth:
                return None
            out[path] = old.join(parts[:nth + 1]) + new + old.join(parts[nth + 1:])
    return out


def _reformat(sources):
    import ast
    return {p: (ast.unparse(ast.parse(t)) if p.endswith('.py') else t) for p, t in sources.items()}


def _rename_solver(sources):
    out = dict(sources)
    p = 'gearpy/solver.py'
    if p not in out:
        return None
    for a, b in (('_compute_angular_position_and_speed', '_kinematics'), ('_check_powertrain_is_locked', '_lock_logic'),
                 ('_compute_locked_powertrain_angular_speed_and_acceleration', '_hold'), ('_time_integration', '_step'),
                 ('_compute_load_torque', '_loads'), ('__powertrain_is_locked', '__held'), ('_update_time_variables', '_record'),
                 ('__powertrain_inertia_moment', '__jeq')):
        out[p] = out[p].replace(a, b)
    return out


GENERIC = {'generic:reformat-all-sources (ast.unparse, comments and layout dropped)': _reformat,
           'generic:rename-solver-helpers-and-fields': _rename_solver}


def _rewrite(name):
    def f(sources):
        from selftest import generic
        return generic.apply(name, sources)
    return f


# package-wide behaviour-preserving AST rewrites (selftest/generic.py): every if/else swapped, else-after-return flattened, ...
for _n in ('swap-if-else', 'flatten-else', 'not-is-none', 'de-morgan', 'ternary-to-if', 'split-chained', 'explicit-none'):
    GENERIC[f'generic:rewrite-whole-package[{_n}]'] = _rewrite(_n)


def _run_one(variant):
    from checks.run import run_property
    if variant.get('generic'):
        src = GENERIC[variant['name']](_SOURCES)
    else:
        src = _apply(_SOURCES, variant['edits'])
    if src is None:
        return variant['name'], 'skipped', [], []
    try:
        rep = run_property(_PID, src)
    except Exception as e:  # a crash of the checker on a variant is a checker defect
        return variant['name'], 'crash', [f'{type(e).__name__}: {e}'], []
    cannot = [f'{c.key}: {c.detail}' for c in rep.by_status('CANNOT-DECIDE')]
    return variant['name'], 'ran', rep.violation_keys(), cannot


def _init(sources, pid):
    import os
    os.environ['VERIF_TIER'] = 'quick'      # variants are decided with the quick configuration families
    global _SOURCES, _PID
    _SOURCES, _PID = sources, pid


def run_battery(pid, sources, seed, base_rep):
    variants = list(CATALOGUE.get(pid, []))
    variants += [{'name': n, 'kind': 'benign', 'edits': [], 'generic': True} for n in GENERIC]
    rnd = random.Random(seed)
    rnd.shuffle(variants)
    base_keys = set(base_rep.violation_keys())
    res = {'variants': len(variants), 'mutants_killed': 0, 'mutants_missed': [], 'benign_silent': 0,
           'benign_alarmed': [], 'skipped': [], 'crashed': [], 'samples': []}
    if not variants:
        return res
    by_name = {v['name']: v for v in variants}
    with mp.Pool(min(16, len(variants)), initializer=_init, initargs=(sources, pid)) as pool:
        outs = pool.map(_run_one, variants)
    for name, status, keys, cannot in outs:
        v = by_name[name]
        if status == 'skipped':
            res['skipped'].append(name)
            continue
        if status == 'crash':
            res['crashed'].append({'name': name, 'error': keys})
            print(f'SELFTEST-CRASH property={pid} variant={name} {keys}')
            continue
        new = sorted(set(keys) - base_keys)
        if v['kind'] == 'mutant':
            want = v.get('expect')
            hit = [k for k in new if (want is None or k.startswith(want))]
            if hit:
                res['mutants_killed'] += 1
                if len(res['samples']) < 3:
                    res['samples'].append({'variant': name, 'kind': 'mutant', 'edits': v['edits'], 'reported': hit[:3]})
            else:
                res['mutants_missed'].append({'name': name, 'new_keys': new, 'cannot': cannot[:3]})
                print(f'SELFTEST-MISS property={pid} mutant={name} new_keys={new} cannot={cannot[:2]}')
        else:
            if new or cannot:
                res['benign_alarmed'].append({'name': name, 'new_keys': new, 'cannot': cannot[:3]})
                print(f'SELFTEST-FALSE-ALARM property={pid} benign={name} new_keys={new} cannot={cannot[:2]}')
            else:
                res['benign_silent'] += 1
                if len(res['samples']) < 5 and not any(s['kind'] == 'benign' for s in res['samples']):
                    res['samples'].append({'variant': name, 'kind': 'benign', 'edits': v['edits'], 'reported': []})
    print(f'SELFTEST property={pid} variants={res["variants"]} killed={res["mutants_killed"]} '
          f'missed={len(res["mutants_missed"])} benign_silent={res["benign_silent"]} '
          f'benign_alarmed={len(res["benign_alarmed"])} skipped={len(res["skipped"])}')
    return res
