"""Catalogue of single-site variants of gearpy used by the thorough tier (see battery.py).

Each entry: {'name', 'kind': 'mutant'|'benign', 'edits': [(path, old text, new text)],
'expect': optional rule-key prefix a mutant must trigger}.  `old` must occur exactly once in the
file (otherwise the variant is skipped on that tree)."""

CATALOGUE = {}


def _add(pid, name, kind, path, old, new, expect=None, nth=None):
    edit = (path, old, new) if nth is None else (path, old, new, nth)
    CATALOGUE.setdefault(pid, []).append(
        {'name': name, 'kind': kind, 'edits': [edit], 'expect': expect})


def mutant(pid, name, path, old, new, expect=None, nth=None):
    """`old` must occur exactly once in the file, or `nth` (0-based) selects the occurrence"""
    _add(pid, name, 'mutant', path, old, new, expect, nth)


def benign(pid, name, path, old, new, nth=None):
    _add(pid, name, 'benign', path, old, new, None, nth)


def multi(pid, name, kind, edits, expect=None):
    CATALOGUE.setdefault(pid, []).append({'name': name, 'kind': kind, 'edits': edits, 'expect': expect})


DC = 'gearpy/mechanical_objects/dc_motor.py'

# ------------------------------------------------------------------------------------------ C08
mutant('C08', 'torque-deadzone-lt', DC, 'if abs(self.pwm) <= pwm_min:', 'if abs(self.pwm) < pwm_min:', 'C08.law.torque', nth=0)
mutant('C08', 'current-deadzone-lt', DC, 'if abs(self.pwm) <= pwm_min:', 'if abs(self.pwm) < pwm_min:', 'C08.law.current', nth=1)
mutant('C08', 'torque-neg-sign', DC, """(self.pwm*self.maximum_electric_current +
                        self.no_load_electric_current)""", """(self.pwm*self.maximum_electric_current -
                        self.no_load_electric_current)""", 'C08')
mutant('C08', 'torque-w0-not-scaled', DC, 'no_load_speed = self.pwm*self.no_load_speed', 'no_load_speed = self.no_load_speed', 'C08', nth=0)
mutant('C08', 'torque-nocurrent-plus', DC, """value=(1 - self.angular_speed /
                       self.no_load_speed)*self.maximum_torque.value""", """value=(1 + self.angular_speed /
                       self.no_load_speed)*self.maximum_torque.value""", 'C08.law.torque')
mutant('C08', 'torque-unit-mismatch', DC, """value=(1 - self.angular_speed/no_load_speed)*maximum_torque.value,
            unit=self.maximum_torque.unit""", """value=(1 - self.angular_speed/no_load_speed)*maximum_torque.to('Nm').value,
            unit=self.maximum_torque.unit""", 'C08')
mutant('C08', 'current-uses-Tmax', DC, "(self.driving_torque/maximum_torque) + no_load_electric_current", "(self.driving_torque/self.maximum_torque) + no_load_electric_current", 'C08.law.current')
mutant('C08', 'current-neg-i0-sign', DC, "no_load_electric_current = -self.no_load_electric_current", "no_load_electric_current = self.no_load_electric_current", 'C08')
mutant('C08', 'current-deadzone-formula', DC, "self.pwm/pwm_min*self.no_load_electric_current.to(", "self.pwm*pwm_min*self.no_load_electric_current.to(", 'C08.law.current')
mutant('C08', 'torque-deadzone-nonzero', DC, "self.driving_torque = Torque(0, unit=self.maximum_torque.unit)", "self.driving_torque = Torque(1e-9, unit=self.maximum_torque.unit)", 'C08.law.torque')
mutant('C08', 'torque-pos-threshold', DC, "elif self.pwm > pwm_min:", "elif self.pwm > 0:", None, nth=0)
benign('C08', 'commute-product', DC, 'no_load_speed = self.pwm*self.no_load_speed', 'no_load_speed = self.no_load_speed*self.pwm', nth=0)
benign('C08', 'rename-local', DC, """        pwm_min = self.no_load_electric_current/self.maximum_electric_current \\
            if self.electric_current_is_computable else 0
        if abs(self.pwm) <= pwm_min:
            self.driving_torque = Torque(0, unit=self.maximum_torque.unit)
            return
        elif self.pwm > pwm_min:""", """        dead = self.no_load_electric_current/self.maximum_electric_current
        if abs(self.pwm) <= dead:
            self.driving_torque = Torque(0, unit=self.maximum_torque.unit)
            return
        elif self.pwm > dead:""")
# not benign: `.value` is read in the unit of the leftmost operand, which becomes the no-load current's unit
mutant('C08', 'current-value-read-in-other-unit', DC, """(maximum_electric_current - no_load_electric_current) *
                (self.driving_torque/maximum_torque) + no_load_electric_current""", """no_load_electric_current + (self.driving_torque/maximum_torque) *
                (maximum_electric_current - no_load_electric_current)""", 'C08')
benign('C08', 'threshold-cross-multiplied', DC, 'if abs(self.pwm) <= pwm_min:', 'if abs(self.pwm)*self.maximum_electric_current <= self.no_load_electric_current:', nth=0)
