"""Catalogue of single-site variants of gearpy used by the thorough tier (see battery.py).

Each entry: {'name', 'kind': 'mutant'|'benign', 'edits': [(path, old text, new text)],
'expect': optional rule-key prefix a mutant must trigger}.  `old` must occur exactly once in the
file (otherwise the variant is skipped on that tree)."""

CATALOGUE = {}


def _add(pid, name, kind, path, old, new, expect=None):
    CATALOGUE.setdefault(pid, []).append(
        {'name': name, 'kind': kind, 'edits': [(path, old, new)], 'expect': expect})


def mutant(pid, name, path, old, new, expect=None):
    _add(pid, name, 'mutant', path, old, new, expect)


def benign(pid, name, path, old, new):
    _add(pid, name, 'benign', path, old, new)
