"""Catalogue of single-site variants of gearpy used by the thorough tier (see battery.py).

Each entry: {'name', 'kind': 'mutant'|'benign', 'edits': [(path, old text, new text)],
'expect': optional rule-key prefix a mutant must trigger}.  `old` must occur exactly once in the
file (otherwise the variant is skipped on that tree)."""

CATALOGUE = {}


def _add(pid, name, kind, path, old, new, expect=None, nth=None):
    edit = (path, old, new) if nth is None else (path, old, new, nth)
    CATALOGUE.setdefault(pid, []).append(
        {'name': name, 'kind': kind, 'edits': [edit], 'expect': expect})


def mutant(pid, name, path, old, new, expect=None, nth=None):
    """`old` must occur exactly once in the file, or `nth` (0-based) selects the occurrence"""
    _add(pid, name, 'mutant', path, old, new, expect, nth)


def benign(pid, name, path, old, new, nth=None):
    _add(pid, name, 'benign', path, old, new, None, nth)


def multi(pid, name, kind, edits, expect=None):
    CATALOGUE.setdefault(pid, []).append({'name': name, 'kind': kind, 'edits': edits, 'expect': expect})


DC = 'gearpy/mechanical_objects/dc_motor.py'

# ------------------------------------------------------------------------------------------ C08
mutant('C08', 'torque-deadzone-lt', DC, 'if abs(self.pwm) <= pwm_min:', 'if abs(self.pwm) < pwm_min:', 'C08.law.torque', nth=0)
mutant('C08', 'current-deadzone-lt', DC, 'if abs(self.pwm) <= pwm_min:', 'if abs(self.pwm) < pwm_min:', 'C08.law.current', nth=1)
mutant('C08', 'torque-neg-sign', DC, """(self.pwm*self.maximum_electric_current +
                        self.no_load_electric_current)""", """(self.pwm*self.maximum_electric_current -
                        self.no_load_electric_current)""", 'C08')
mutant('C08', 'torque-w0-not-scaled', DC, 'no_load_speed = self.pwm*self.no_load_speed', 'no_load_speed = self.no_load_speed', 'C08', nth=0)
mutant('C08', 'torque-nocurrent-plus', DC, """value=(1 - self.angular_speed /
                       self.no_load_speed)*self.maximum_torque.value""", """value=(1 + self.angular_speed /
                       self.no_load_speed)*self.maximum_torque.value""", 'C08.law.torque')
mutant('C08', 'torque-unit-mismatch', DC, """value=(1 - self.angular_speed/no_load_speed)*maximum_torque.value,
            unit=self.maximum_torque.unit""", """value=(1 - self.angular_speed/no_load_speed)*maximum_torque.to('Nm').value,
            unit=self.maximum_torque.unit""", 'C08')
mutant('C08', 'current-uses-Tmax', DC, "            load_factor = self.driving_torque/maximum_torque\n", "            load_factor = self.driving_torque/self.maximum_torque\n", 'C08.law.current')
mutant('C08', 'current-neg-i0-sign', DC, "no_load_electric_current = -self.no_load_electric_current", "no_load_electric_current = self.no_load_electric_current", 'C08')
mutant('C08', 'current-deadzone-formula', DC, "self.pwm/pwm_min*self.no_load_electric_current.to(", "self.pwm*pwm_min*self.no_load_electric_current.to(", 'C08.law.current')
mutant('C08', 'torque-deadzone-nonzero', DC, "self.driving_torque = Torque(0, unit=self.maximum_torque.unit)", "self.driving_torque = Torque(1e-9, unit=self.maximum_torque.unit)", 'C08.law.torque')
mutant('C08', 'torque-pos-threshold', DC, "elif self.pwm > pwm_min:", "elif self.pwm > 0:", None, nth=0)
benign('C08', 'commute-product', DC, 'no_load_speed = self.pwm*self.no_load_speed', 'no_load_speed = self.no_load_speed*self.pwm', nth=0)
benign('C08', 'rename-local', DC, """        pwm_min = self.no_load_electric_current/self.maximum_electric_current \\
            if self.electric_current_is_computable else 0
        if abs(self.pwm) <= pwm_min:
            self.driving_torque = Torque(0, unit=self.maximum_torque.unit)
            return
        elif self.pwm > pwm_min:""", """        dead = self.no_load_electric_current/self.maximum_electric_current
        if abs(self.pwm) <= dead:
            self.driving_torque = Torque(0, unit=self.maximum_torque.unit)
            return
        elif self.pwm > dead:""")
# not benign: `.value` is read in the unit of the leftmost operand, which becomes the no-load current's unit
mutant('C08', 'current-value-read-in-other-unit', DC, """(maximum_electric_current - no_load_electric_current) *
                load_factor + no_load_electric_current""", """no_load_electric_current + load_factor *
                (maximum_electric_current - no_load_electric_current)""", 'C08')
# equal over the reals, but a different float predicate from the `elif self.pwm > pwm_min` next to it: at D = fl(i0/imax) about 5% of
# (i0, imax) pairs give fl(D*imax) > i0, the test fails, the elif fails too and a positive D lands in the negative branch (non-zero torque
# inside the dead zone) - the property quantifies over the boundary's floating-point neighbours, so this is a breaking edit
mutant('C08', 'threshold-cross-multiplied', DC, 'if abs(self.pwm) <= pwm_min:', 'if abs(self.pwm)*self.maximum_electric_current <= self.no_load_electric_current:', 'C08.boundary-tests', nth=0)
benign('C08', 'threshold-as-interval', DC, 'if abs(self.pwm) <= pwm_min:', 'if -pwm_min <= self.pwm <= pwm_min:', nth=0)

UN = 'gearpy/units/units.py'
UB = 'gearpy/units/unit_base.py'
TO_BODY = """            target_value = self.__value*self.__UNITS[self.__unit] / \\
                self.__UNITS[target_unit]"""

# ------------------------------------------------------------------------------------------ C05
mutant('C05', 'table-gcm2', UN, "'gcm^2': 1e-7,", "'gcm^2': 1e-6,", 'C05.table')
mutant('C05', 'table-rph-one-60', UN, "'rph': 2*pi/60/60", "'rph': 2*pi/60", 'C05.table')
mutant('C05', 'table-kgfcm', UN, "'kgfcm': 9.80665e-2,", "'kgfcm': 9.80655e-2,", 'C05.table')
mutant('C05', 'table-mNcm', UN, "'mNcm': 1e-5,", "'mNcm': 1e-4,", 'C05.table')
mutant('C05', 'table-arcsec', UN, "'arcsec': pi/180/60/60,", "'arcsec': pi/180/60/6,", 'C05.table')
mutant('C05', 'table-hour', UN, "'hour': 60*60,", "'hour': 60*6,", 'C05.table')
mutant('C05', 'table-GPa', UN, "'GPa': 1e9", "'GPa': 1e8", 'C05.table')
mutant('C05', 'to-inverted-ratio', UN, TO_BODY, """            target_value = self.__value*self.__UNITS[target_unit] / \\
                self.__UNITS[self.__unit]""", 'C05.to', nth=3)
mutant('C05', 'to-inplace-forgets-unit', UN, """            self.__value = target_value
            self.__unit = target_unit
            return self""", """            self.__value = target_value
            return self""", 'C05.to', nth=5)
mutant('C05', 'to-inplace-returns-copy-kind', UN, "return Torque(value=target_value, unit=target_unit)", "return Force(value=target_value, unit='N')", 'C05.to')
mutant('C05', 'to-copy-mutates', UN, """        else:
            return Force(value=target_value, unit=target_unit)""", """        else:
            self.__value = target_value
            return Force(value=target_value, unit=target_unit)""", 'C05.to')
mutant('C05', 'angle-to-stale-copy', UN, """        if inplace:
            self.__value = converted.value
            self.__unit = converted.unit
            return self
        else:
            return Angle(""", """        if inplace:
            self.__unit = converted.unit
            return self
        else:
            return Angle(""", 'C05.to')
mutant('C05', 'eq-tolerance-sign', UB, ") < COMPARISON_TOLERANCE", ") < -COMPARISON_TOLERANCE", 'C05.cmp')
mutant('C05', 'ge-strict', UB, ").value >= -COMPARISON_TOLERANCE", ").value > -COMPARISON_TOLERANCE", 'C05.cmp')
mutant('C05', 'lt-same-unit-le', UB, "return self.value < other.value", "return self.value <= other.value", 'C05.cmp')
mutant('C05', 'gt-no-conversion', UB, """            return self.value - other.to(
                self.unit
            ).value > COMPARISON_TOLERANCE""", """            return self.value - other.value > COMPARISON_TOLERANCE""", 'C05.cmp')
mutant('C05', 'tolerance-huge', UB, "COMPARISON_TOLERANCE = 1e-12", "COMPARISON_TOLERANCE = 1e-2", 'C05.cmp')
mutant('C05', 'ne-compares-units-only', UB, "return self.value != other.value", "return False", 'C05.cmp')
benign('C05', 'to-reassociate', UN, TO_BODY, """            target_value = self.__UNITS[self.__unit]*self.__value / \\
                self.__UNITS[target_unit]""", nth=2)
benign('C05', 'table-equivalent-spelling', UN, "'rph': 2*pi/60/60", "'rph': pi/1800")
benign('C05', 'table-equivalent-decimal', UN, "'kgfcm': 9.80665e-2,", "'kgfcm': 0.0980665,")
benign('C05', 'eq-operands-swapped', UB, """            return fabs(
                self.value - other.to(self.unit).value
            ) < COMPARISON_TOLERANCE""", """            return fabs(
                other.to(self.unit).value - self.value
            ) < COMPARISON_TOLERANCE""")

# ------------------------------------------------------------------------------------------ C06
mutant('C06', 'speed-time-nonSI-unit', UN, """            return AngularPosition(
                value=self.to('rad/s').value*other.to('sec').value,
                unit='rad'
            )""", """            return AngularPosition(
                value=self.to('rad/s').value*other.to('ms').value,
                unit='rad'
            )""", 'C06.si-semantics', nth=0)
mutant('C06', 'torque-inertia-wrong-kind', UN, "return AngularAcceleration(\n                value=self.to('Nm').value/other.to('kgm^2').value,", "return AngularSpeed(\n                value=self.to('Nm').value/other.to('kgm^2').value,", 'C06')
mutant('C06', 'torque-length-swapped', UN, "value=self.to('Nm').value/other.to('m').value,", "value=other.to('m').value/self.to('Nm').value,", 'C06.si-semantics')
mutant('C06', 'ratio-missing-conversion', UN, "return self.__value/other.to(self.__unit).value", "return self.__value/other.value", 'C06.si-semantics', nth=4)
mutant('C06', 'add-missing-conversion', UB, "value=self.value + other.to(self.unit).value,", "value=self.value + other.value,", 'C06.si-semantics')
mutant('C06', 'sub-is-add', UB, "value=self.value - other.to(self.unit).value,", "value=self.value + other.to(self.unit).value,", 'C06.si-semantics')
multi('C06', 'torque-accepts-surface', 'mutant', [
    (UN, "            InertiaMoment | Length | Torque | float | int", "            InertiaMoment | Length | Surface | Torque | float | int"),
    (UN, "        elif isinstance(other, Length):\n            return Force(", "        elif isinstance(other, Length | Surface):\n            return Force(")], 'C06')
mutant('C06', 'force-surface-unit-kPa', UN, "value=self.to('N').value/other.to('m^2').value,\n                unit='Pa'", "value=self.to('N').value/other.to('m^2').value,\n                unit='kPa'", 'C06.si-semantics')
mutant('C06', 'mul-number-wrong-unit', UN, "return Torque(value=self.__value*other, unit=self.__unit)", "return Torque(value=self.__value*other, unit='Nm')", 'C06', nth=0)
mutant('C06', 'length-length-drops-conversion', UN, "value=self.to('m').value*other.to('m').value,", "value=self.to('m').value*other.value,", 'C06.si-semantics')
mutant('C06', 'time-mul-speed-removed', UN, "if not isinstance(other, Time | float | int):", "if not isinstance(other, float | int):", 'C06.required', nth=0)
benign('C06', 'commute-product', UN, "value=self.to('m').value*other.to('m').value,", "value=other.to('m').value*self.to('m').value,")
benign('C06', 'convert-self-instead', UN, "return self.__value/other.to(self.__unit).value", "return self.to(other.unit).value/other.value", nth=4)

MB = 'gearpy/mechanical_objects/mechanical_object_base.py'
HG = 'gearpy/mechanical_objects/helical_gear.py'
WG = 'gearpy/mechanical_objects/worm_gear.py'
WW = 'gearpy/mechanical_objects/worm_wheel.py'
SG = 'gearpy/mechanical_objects/spur_gear.py'

# ------------------------------------------------------------------------------------------ C19
mutant('C19', 'inertia-ctor-allows-zero', UN, "        if value <= 0:", "        if value < 0:", 'C19', nth=0)
mutant('C19', 'length-ctor-allows-zero', UN, "        if value <= 0:", "        if value < 0:", 'C19', nth=2)
mutant('C19', 'angle-ctor-allows-negative', UN, "        if value < 0:", "        if value < -1:", 'C19')
mutant('C19', 'length-inplace-unchecked (pre-fix shape)', UN, """        converted = Length(value=target_value, unit=target_unit)

        if inplace:
            self.__value = converted.value
            self.__unit = converted.unit
            return self
        else:
            return converted""", """        if inplace:
            self.__value = target_value
            self.__unit = target_unit
            return self
        else:
            return Length(value=target_value, unit=target_unit)""", 'C19.store')
mutant('C19', 'timeinterval-inplace-unchecked (pre-fix shape)', UN, """        converted = super().to(target_unit=target_unit, inplace=False)
        converted = TimeInterval(value=converted.value, unit=converted.unit)

        if inplace:
            super().to(target_unit=target_unit, inplace=True)
            self.__value = converted.value""", """        converted = super().to(target_unit=target_unit, inplace=inplace)

        if inplace:
            self.__value = converted.value""", 'C19.store')
mutant('C19', 'sub-translation-misses-zero', UB, "            if self.value - other.to(self.unit).value <= 0:", "            if self.value - other.to(self.unit).value < 0:", 'C19.sub')
mutant('C19', 'motor-speed-allows-zero', DC, "if no_load_speed.value <= 0:", "if no_load_speed.value < 0:", 'C19.params')
mutant('C19', 'motor-i0-equals-imax-accepted', DC, "if no_load_electric_current >= maximum_electric_current:", "if no_load_electric_current > maximum_electric_current:", 'C19.params')
mutant('C19', 'motor-imax-allows-zero', DC, "if maximum_electric_current.value <= 0:", "if maximum_electric_current.value < 0:", 'C19.params')
mutant('C19', 'helix-90-accepted', HG, "if helix_angle >= Angle(90, 'deg'):", "if helix_angle > Angle(90, 'deg'):", 'C19.params')
mutant('C19', 'helix-compared-raw', HG, "if helix_angle >= Angle(90, 'deg'):", "if helix_angle.value >= 90:", 'C19.params')
mutant('C19', 'pwm-setter-and', DC, "if not (-1 <= pwm <= 1):", "if not (-1 <= pwm or pwm <= 1):", 'C19.params')
mutant('C19', 'worm-starts-zero', WG, "if n_starts < 1:", "if n_starts < 0:", 'C19.params')
mutant('C19', 'elastic-modulus-zero', MB, "if elastic_modulus.value <= 0:", "if elastic_modulus.value < 0:", 'C19.params')
mutant('C19', 'value-field-written-by-operator', UN, """        if other <= 0:
            raise ValueError(
                "Cannot perform a multiplication by a negative number or by "
                "zero."
            )

        return InertiaMoment(value=self.__value*other, unit=self.__unit)""", """        self.__value = self.__value*other
        return self""", 'C19', nth=0)
benign('C19', 'motor-validation-reordered', DC, """        if no_load_speed.value <= 0:
            raise ValueError("Parameter 'no_load_speed' must be positive.")

        if maximum_torque.value <= 0:
            raise ValueError("Parameter 'maximum_torque' must be positive.")
""", """        if maximum_torque.value <= 0:
            raise ValueError("Parameter 'maximum_torque' must be positive.")

        if no_load_speed.value <= 0:
            raise ValueError("Parameter 'no_load_speed' must be positive.")
""")
benign('C19', 'length-inplace-explicit-check', UN, """        converted = Length(value=target_value, unit=target_unit)

        if inplace:
            self.__value = converted.value
            self.__unit = converted.unit
            return self
        else:
            return converted""", """        if inplace:
            if target_value <= 0:
                raise ValueError("Parameter 'value' must be positive.")
            self.__value = target_value
            self.__unit = target_unit
            return self
        else:
            return Length(value=target_value, unit=target_unit)""")
benign('C19', 'helix-threshold-in-rad', HG, "if helix_angle >= Angle(90, 'deg'):", "if helix_angle >= Angle(pi/2, 'rad'):")

# ------------------------------------------------------------------------------------------ C09
FORCE_M = "self.tangential_force = \\\n                abs(self.load_torque)/(self.reference_diameter/2)"
mutant('C09', 'spur-force-times-2', SG, "abs(self.load_torque)/(self.reference_diameter/2)", "abs(self.load_torque)/(self.reference_diameter*2)", 'C09.force')
mutant('C09', 'spur-force-roles-swapped', SG, "abs(self.driving_torque)/(self.reference_diameter/2)", "abs(self.load_torque)/(self.reference_diameter/2)", 'C09.force')
mutant('C09', 'helical-force-no-abs', HG, "abs(self.driving_torque)/(self.reference_diameter/2)", "self.driving_torque/(self.reference_diameter/2)", 'C09.force')
mutant('C09', 'wheel-force-role-test', WW, "        if self.mating_role == MatingMaster:\n            self.tangential_force", "        if self.mating_role == MatingSlave:\n            self.tangential_force", 'C09.force')
mutant('C09', 'spur-bending-times-Y', SG, "(self.module*self.face_width)/self.lewis_factor", "(self.module*self.face_width)*self.lewis_factor", 'C09.bending')
mutant('C09', 'helical-virtual-teeth-cos-power', HG, "n_teeth/(BASE_HELIX_ANGLE.cos())**2", "n_teeth/(BASE_HELIX_ANGLE.cos())**3", 'C09.lewis-arg')
mutant('C09', 'helical-base-helix-cos-for-tan', HG, "self.__TRANSVERSE_PRESSURE_ANGLE.cos() *\n                        self.__helix_angle.tan()", "self.__TRANSVERSE_PRESSURE_ANGLE.cos() *\n                        self.__helix_angle.cos()", 'C09')
mutant('C09', 'spur-lewis-wrong-argument', SG, "                    self.n_teeth\n                ).take(0)", "                    self.n_teeth + 1\n                ).take(0)", 'C09.lewis-arg')
mutant('C09', 'wheel-normal-pitch-cos', WW, "self.drives.helix_angle.sin()/self.n_teeth", "self.drives.helix_angle.cos()/self.n_teeth", 'C09.bending')
mutant('C09', 'wheel-effective-width-067', WW, "0.67*self.driven_by.reference_diameter", "0.76*self.driven_by.reference_diameter", 'C09.bending')
mutant('C09', 'spur-hertz-constant', SG, "value=0.262922*sqrt(", "value=0.262292*sqrt(", 'C09.contact')
mutant('C09', 'spur-contact-sin-cos', SG, "self.tangential_force/self.__PRESSURE_ANGLE.cos()", "self.tangential_force/self.__PRESSURE_ANGLE.sin()", 'C09.contact')
mutant('C09', 'helical-contact-drops-cos-beta', HG, "(self.face_width/self.__helix_angle.cos()*inverse_curvature_sum)", "(self.face_width*inverse_curvature_sum)", 'C09.contact')
mutant('C09', 'spur-contact-E-difference', SG, "(self.elastic_modulus + mate_elastic_modulus)", "(self.elastic_modulus - mate_elastic_modulus)", 'C09.contact')
mutant('C09', 'spur-contact-unit-MPa', SG, "contact_pressure.to('Pa').value", "contact_pressure.to('MPa').value", 'C09.contact')
mutant('C09', 'spur-mate-check-deleted', SG, """            if self.drives.elastic_modulus is not None:
                mate_elastic_modulus = self.drives.elastic_modulus
            else:""", """            if True:
                mate_elastic_modulus = self.drives.elastic_modulus
            else:""", 'C09')
mutant('C09', 'flag-bending-or', MB, "return (self.__module is not None) and (self.__face_width is not None)", "return (self.__module is not None) or (self.__face_width is not None)", 'C09.flags')
mutant('C09', 'flag-contact-drops-modulus', MB, "            (self.__face_width is not None) and \\\n            (self.__elastic_modulus is not None)", "            (self.__face_width is not None)", 'C09.flags')
mutant('C09', 'wheel-flag-ignores-worm-diameter', WW, "self.drives.reference_diameter is not None", "True", 'C09.flags')
mutant('C09', 'lewis-bounds-error', MB, "    bounds_error=False\n)", "    bounds_error=True\n)", 'C09.lewis-interp')
mutant('C09', 'lewis-kind-nearest', MB, "    bounds_error=False\n)", "    bounds_error=False,\n    kind='nearest'\n)", 'C09.lewis-interp')
mutant('C09', 'lewis-row-edited', 'gearpy/mechanical_objects/gear_data/lewis_factor_table.csv', "24,0.337", "24,0.373", 'C09.lewis-table')
mutant('C09', 'worm-row-edited', 'gearpy/mechanical_objects/gear_data/worm_gear_and_wheel_data.csv', "25,35,0.15", "25,35,0.175", 'C09.worm-table')
benign('C09', 'force-diameter-halved-first', SG, "abs(self.load_torque)/(self.reference_diameter/2)", "2*abs(self.load_torque)/self.reference_diameter")
benign('C09', 'bending-single-division', HG, "self.tangential_force / \\\n            (self.module*self.face_width)/self.lewis_factor", "self.tangential_force / \\\n            (self.module*self.face_width*self.lewis_factor)")
benign('C09', 'force-elif-to-nested-if', SG, "        elif self.mating_role == MatingSlave:\n            self.tangential_force", "        elif not self.mating_role != MatingSlave:\n            self.tangential_force")

RL = 'gearpy/utils/relations.py'
# ------------------------------------------------------------------------------------------ C10
mutant('C10', 'gear-ratio-inverted', RL, "slave.master_gear_ratio = slave.n_teeth/master.n_teeth", "slave.master_gear_ratio = master.n_teeth/slave.n_teeth", 'C10.effects')
mutant('C10', 'gear-role-swapped', RL, "    master.mating_role = MatingMaster\n    slave.driven_by = master\n    slave.mating_role = MatingSlave\n    slave.master_gear_ratio = slave.n_teeth/master.n_teeth", "    master.mating_role = MatingSlave\n    slave.driven_by = master\n    slave.mating_role = MatingMaster\n    slave.master_gear_ratio = slave.n_teeth/master.n_teeth", 'C10.effects')
mutant('C10', 'gear-link-before-module-check', RL, "    if master.module is not None and slave.module is not None:", "    master.drives = slave\n    if master.module is not None and slave.module is not None:", 'C10.atomic')
mutant('C10', 'gear-module-check-deleted', RL, "        if master.module != slave.module:", "        if False:", 'C10.rejects')
mutant('C10', 'gear-efficiency-upper-only', RL, "    if efficiency > 1 or efficiency < 0:", "    if efficiency > 1:", 'C10')
mutant('C10', 'gear-same-element-check-deleted', RL, "    if master == slave:\n        raise ValueError(\n            \"Parameters 'master' and 'slave' cannot be the same gear.\"", "    if False:\n        raise ValueError(\n            \"Parameters 'master' and 'slave' cannot be the same gear.\"", 'C10.rejects')
mutant('C10', 'gear-helical-spur-accepted', RL, "    else:\n        if hasattr(slave, 'helix_angle'):", "    else:\n        if False:", 'C10.rejects')
mutant('C10', 'worm-ratio-wheel-driving-inverted', RL, "gear_ratio = slave.n_starts/master.n_teeth", "gear_ratio = master.n_teeth/slave.n_starts", 'C10.effects')
mutant('C10', 'worm-efficiency-sign', RL, "            (master.pressure_angle.cos() -\n                friction_coefficient*master.helix_angle.tan()) / \\", "            (master.pressure_angle.cos() +\n                friction_coefficient*master.helix_angle.tan()) / \\", 'C10.effects')
mutant('C10', 'worm-selflocking-on-wheel', RL, "    worm_gear.self_locking = self_locking", "    slave.self_locking = self_locking", 'C10.effects')
mutant('C10', 'worm-selflocking-ge', RL, "        friction_coefficient > worm_gear.pressure_angle.cos() * \\", "        friction_coefficient >= worm_gear.pressure_angle.cos() * \\", 'C10.effects')
mutant('C10', 'worm-selflocking-sin', RL, "        worm_gear.helix_angle.tan()", "        worm_gear.helix_angle.sin()", 'C10.effects')
mutant('C10', 'worm-two-wheels-accepted', RL, "    if isinstance(master, WormWheel) and isinstance(slave, WormWheel):", "    if isinstance(master, WormWheel) and isinstance(slave, WormGear) and False:", 'C10.rejects')
mutant('C10', 'worm-pressure-angle-check-deleted', RL, "    if master.pressure_angle != slave.pressure_angle:", "    if False:", 'C10.rejects')
mutant('C10', 'worm-efficiency-assigned-last (pre-fix shape)', RL, """    slave.master_gear_efficiency = efficiency
    master.drives = slave
    master.mating_role = MatingMaster
    slave.driven_by = master
    slave.mating_role = MatingSlave
    slave.master_gear_ratio = gear_ratio
    worm_gear.self_locking = self_locking
""", """    master.drives = slave
    master.mating_role = MatingMaster
    slave.driven_by = master
    slave.mating_role = MatingSlave
    slave.master_gear_ratio = gear_ratio
    worm_gear.self_locking = self_locking
    slave.master_gear_efficiency = efficiency
""", 'C10.atomic')
mutant('C10', 'joint-motor-slave-accepted', RL, "    if isinstance(slave, MotorBase):", "    if False:", 'C10.rejects')
mutant('C10', 'joint-ratio-not-one', RL, "    slave.master_gear_ratio = 1.0", "    slave.master_gear_ratio = 2.0", 'C10.effects')
mutant('C10', 'joint-no-backlink', RL, "    master.drives = slave\n    slave.driven_by = master\n    slave.master_gear_ratio = 1.0", "    master.drives = slave\n    slave.master_gear_ratio = 1.0", 'C10.effects')
mutant('C10', 'ratio-setter-allows-zero', MB, "        if master_gear_ratio <= 0:", "        if master_gear_ratio < 0:", 'C10.range')
mutant('C10', 'efficiency-setter-no-lower-bound', WG, "        if master_gear_efficiency > 1 or master_gear_efficiency < 0:", "        if master_gear_efficiency > 1:", 'C10.range')
benign('C10', 'gear-validation-reordered', RL, """    if master == slave:
        raise ValueError(
            "Parameters 'master' and 'slave' cannot be the same gear."
        )

    if not isinstance(efficiency, float | int):
        raise TypeError(
            "Parameter 'efficiency' must be a float or an integer."
        )
""", """    if not isinstance(efficiency, float | int):
        raise TypeError(
            "Parameter 'efficiency' must be a float or an integer."
        )

    if master == slave:
        raise ValueError(
            "Parameters 'master' and 'slave' cannot be the same gear."
        )
""")
benign('C10', 'gear-assignments-reordered', RL, "    master.drives = slave\n    master.mating_role = MatingMaster\n    slave.driven_by = master\n    slave.mating_role = MatingSlave\n    slave.master_gear_ratio = slave.n_teeth/master.n_teeth", "    slave.driven_by = master\n    slave.mating_role = MatingSlave\n    master.drives = slave\n    master.mating_role = MatingMaster\n    slave.master_gear_ratio = slave.n_teeth/master.n_teeth")
benign('C10', 'worm-efficiency-explicit-check', RL, "    slave.master_gear_efficiency = efficiency\n    master.drives = slave", "    if efficiency > 1 or efficiency < 0:\n        raise ValueError('Computed efficiency out of range.')\n    master.drives = slave\n    slave.master_gear_efficiency = efficiency")

TM = 'gearpy/sensors/timer.py'
RA = 'gearpy/motor_control/rules/reach_angular_position.py'
RU = 'gearpy/motor_control/rules/utils.py'
SLC = 'gearpy/motor_control/rules/start_limit_current.py'
SPP = 'gearpy/motor_control/rules/start_proportional_to_angular_position.py'
CP = 'gearpy/motor_control/rules/constant_pwm.py'
# ------------------------------------------------------------------------------------------ C15
mutant('C15', 'timer-start-exclusive', TM, "return (current_time >= self.start_time) and \\", "return (current_time > self.start_time) and \\", 'C15.window')
mutant('C15', 'timer-end-exclusive', TM, "((current_time - self.start_time) <= self.duration)", "((current_time - self.start_time) < self.duration)", 'C15.window')
mutant('C15', 'timer-absolute-end', TM, "((current_time - self.start_time) <= self.duration)", "(current_time <= self.duration)", 'C15.window')
mutant('C15', 'constant-previous-instant', CP, "self.__powertrain.time[-1]", "self.__powertrain.time[-2]", 'C15.window')
mutant('C15', 'constant-inverted', CP, "        if self.__timer.is_active(current_time=self.__powertrain.time[-1]):", "        if not self.__timer.is_active(current_time=self.__powertrain.time[-1]):", 'C15.window')
mutant('C15', 'reach-window-strict', RA, "        if angular_position >= braking_starting_angle:", "        if angular_position > braking_starting_angle:", 'C15.value')
mutant('C15', 'reach-start-sign', RA, "            self.__braking_angle + regime_angular_position_error", "            self.__braking_angle - regime_angular_position_error", 'C15.value')
mutant('C15', 'reach-value-from-target', RA, "            return 1 - (angular_position - braking_starting_angle) / \\", "            return 1 - (angular_position - self.__target_angular_position) / \\", 'C15.value')
mutant('C15', 'static-error-times-eta', RU, "            (load_torque/maximum_torque)/powertrain_efficiency", "            (load_torque/maximum_torque)*powertrain_efficiency", 'C15.value')
mutant('C15', 'pwm-min-drops-i0-term', RU, "    ) + no_load_electric_current/maximum_electric_current", "    )", 'C15.value')
mutant('C15', 'pwm-min-current-ratio', RU, "        (maximum_electric_current - no_load_electric_current) /\n        maximum_electric_current", "        (maximum_electric_current + no_load_electric_current) /\n        maximum_electric_current", 'C15.value')
mutant('C15', 'proportional-window', SPP, "        if angular_position <= self.__target_angular_position:", "        if angular_position < self.__target_angular_position:", 'C15.value')
mutant('C15', 'proportional-ramp', SPP, "            return (1 - pwm_min)*angular_position / \\", "            return (1 + pwm_min)*angular_position / \\", 'C15.value')
mutant('C15', 'proportional-ignores-multiplier', SPP, "computed_pwm_min = self.__pwm_min_multiplier*_compute_pwm_min(", "computed_pwm_min = _compute_pwm_min(", 'C15.value')
mutant('C15', 'limit-window-ge', SLC, "        if angular_position <= self.__target_angular_position:", "        if angular_position >= self.__target_angular_position:", 'C15.window')
mutant('C15', 'limit-root-minus', SLC, "                speed_ratio + electric_ratio + np.sqrt(", "                speed_ratio + electric_ratio - np.sqrt(", 'C15')
mutant('C15', 'limit-2i0-to-i0', SLC, "                            2*no_load_electric_current", "                            no_load_electric_current", 'C15')
mutant('C15', 'limit-speed-ratio-inverted', SLC, "        speed_ratio = angular_speed/no_load_speed", "        speed_ratio = no_load_speed/angular_speed", 'C15')
mutant('C15', 'motor-current-law-changed-under-rule', DC, "                load_factor + no_load_electric_current", "                load_factor - no_load_electric_current", 'C15.limit-identity')
benign('C15', 'limit-half-factor', SLC, "            return 1/2*(", "            return 0.5*(")
multi('C15', 'reach-rename', 'benign', [(RA, "regime_angular_position_error", "static_err", 0)] * 2)
benign('C15', 'timer-rewritten-end', TM, "((current_time - self.start_time) <= self.duration)", "(current_time <= self.start_time + self.duration)")

SV = 'gearpy/solver.py'
PT = 'gearpy/powertrain.py'
PIPE = """        self._compute_angular_position_and_speed()
        self._check_powertrain_is_locked()
        if self.__powertrain_is_locked:
            self._compute_locked_powertrain_angular_speed_and_acceleration()
        self._compute_load_torque()
        self._compute_motor_control(motor_control=motor_control)
        self._compute_driving_torque()
        self._compute_torque()
        if not self.__powertrain_is_locked:
            self._compute_angular_acceleration()
        self._compute_force()
        self._compute_stress()
        self._compute_electric_current()
        self._update_time_variables()
"""
# ------------------------------------------------------------------------------------------ C01
mutant('C01', 'speed-ratio-inverted', SV, "            gear_ratio*self.__powertrain.elements[i + 1].angular_speed", "            1/gear_ratio*self.__powertrain.elements[i + 1].angular_speed", 'C01.formula.speed')
mutant('C01', 'ratio-of-upstream-element', SV, "            gear_ratio = self.__powertrain.elements[i + 1].master_gear_ratio\n            self._transmit_angular_position", "            gear_ratio = self.__powertrain.elements[i].master_gear_ratio\n            self._transmit_angular_position", 'C01.formula')
mutant('C01', 'speed-gets-position', SV, "            gear_ratio*self.__powertrain.elements[i + 1].angular_speed", "            gear_ratio*self.__powertrain.elements[i + 1].angular_position", 'C01')
mutant('C01', 'position-sum-not-product', SV, "            gear_ratio*self.__powertrain.elements[i + 1].angular_position", "            gear_ratio + self.__powertrain.elements[i + 1].angular_position", 'C01')
mutant('C01', 'motor-skipped', SV, "        for i in range(len(self.__powertrain.elements) - 2, -1, -1):", "        for i in range(len(self.__powertrain.elements) - 2, 0, -1):", 'C01.coverage', nth=0)
mutant('C01', 'starts-one-too-low', SV, "        for i in range(len(self.__powertrain.elements) - 2, -1, -1):", "        for i in range(len(self.__powertrain.elements) - 3, -1, -1):", 'C01.coverage', nth=1)
mutant('C01', 'ascending-walk', SV, "        for i in range(len(self.__powertrain.elements) - 2, -1, -1):", "        for i in range(0, len(self.__powertrain.elements) - 1):", 'C01.order', nth=0)
mutant('C01', 'acceleration-not-propagated', SV, "            self._transmit_angular_acceleration(gear_ratio=gear_ratio, i=i)", "            pass", 'C01.formula.acceleration')
mutant('C01', 'clamp-skips-motor', SV, "        for element in self.__powertrain.elements:\n            element.angular_speed = NULL_ANGULAR_SPEED", "        for element in self.__powertrain.elements[1:]:\n            element.angular_speed = NULL_ANGULAR_SPEED", 'C01.clamp')
mutant('C01', 'clamp-forgets-acceleration', SV, "            element.angular_speed = NULL_ANGULAR_SPEED\n            element.angular_acceleration = NULL_ANGULAR_ACCELERATION", "            element.angular_speed = NULL_ANGULAR_SPEED", 'C01')
mutant('C01', 'record-before-propagation', SV, PIPE, PIPE.replace("        self._update_time_variables()\n", "").replace("        self._compute_angular_position_and_speed()\n", "        self._update_time_variables()\n        self._compute_angular_position_and_speed()\n"), 'C01.order')
mutant('C01', 'integration-after-propagation', SV, "            self._time_integration(time_discretization=time_discretization)\n            self._compute_powertrain_variables(motor_control=motor_control)", "            self._compute_powertrain_variables(motor_control=motor_control)\n            self._time_integration(time_discretization=time_discretization)", 'C01.order')
mutant('C01', 'recorder-appends-wrong-field', MB, "self.__time_variables['angular speed'].append(self.__angular_speed)", "self.__time_variables['angular speed'].append(self.__angular_position)", 'C01.recorded')
benign('C01', 'product-order', SV, "            gear_ratio*self.__powertrain.elements[i + 1].angular_speed", "            self.__powertrain.elements[i + 1].angular_speed*gear_ratio")
benign('C01', 'reversed-range', SV, "        for i in range(len(self.__powertrain.elements) - 2, -1, -1):", "        for i in reversed(range(len(self.__powertrain.elements) - 1)):", nth=0)
benign('C01', 'inline-helper', SV, "            self._transmit_angular_speed(gear_ratio=gear_ratio, i=i)", "            self.__powertrain.elements[i].angular_speed = gear_ratio*self.__powertrain.elements[i + 1].angular_speed")

# ------------------------------------------------------------------------------------------ C02
mutant('C02', 'driving-divides-efficiency', SV, "                self.__powertrain.elements[i - 1].driving_torque * \\\n                self.__powertrain.elements[i].master_gear_efficiency * \\", "                self.__powertrain.elements[i - 1].driving_torque / \\\n                self.__powertrain.elements[i].master_gear_efficiency * \\", 'C02.driving')
mutant('C02', 'load-efficiency-dropped', SV, "                self.__powertrain.elements[i].load_torque / \\\n                self.__powertrain.elements[i].master_gear_efficiency / \\\n", "                self.__powertrain.elements[i].load_torque / \\\n", 'C02.load')
mutant('C02', 'load-ratio-multiplied', SV, "                self.__powertrain.elements[i].master_gear_efficiency / \\\n                self.__powertrain.elements[i].master_gear_ratio", "                self.__powertrain.elements[i].master_gear_efficiency * \\\n                self.__powertrain.elements[i].master_gear_ratio", 'C02.load')
mutant('C02', 'load-previous-instant-time', SV, "                            time=self.__powertrain.time[-1],", "                            time=self.__powertrain.time[-2],", 'C02.load-call')
mutant('C02', 'load-args-swapped', SV, "                            angular_position=self.__powertrain.elements[i].\n                            angular_position,\n                            angular_speed=self.__powertrain.elements[i].\n                            angular_speed", "                            angular_position=self.__powertrain.elements[i].\n                            angular_speed,\n                            angular_speed=self.__powertrain.elements[i].\n                            angular_position", 'C02.load-call')
mutant('C02', 'load-state-of-driver', SV, "                            angular_speed=self.__powertrain.elements[i].\n                            angular_speed", "                            angular_speed=self.__powertrain.elements[i - 1].\n                            angular_speed", 'C02.load-call')
mutant('C02', 'load-before-clamp', SV, PIPE, PIPE.replace("        self._compute_load_torque()\n", "").replace("        self._check_powertrain_is_locked()\n", "        self._compute_load_torque()\n        self._check_powertrain_is_locked()\n"), 'C02.order')
mutant('C02', 'control-after-driving-torque', SV, "        self._compute_motor_control(motor_control=motor_control)\n        self._compute_driving_torque()\n", "        self._compute_driving_torque()\n        self._compute_motor_control(motor_control=motor_control)\n", 'C02.order')
mutant('C02', 'net-is-sum', SV, "            element.torque = element.driving_torque - element.load_torque", "            element.torque = element.driving_torque + element.load_torque", 'C02.net')
mutant('C02', 'net-skips-motor', SV, "        for element in self.__powertrain.elements:\n            element.torque = ", "        for element in self.__powertrain.elements[1:]:\n            element.torque = ", 'C02.net')
mutant('C02', 'driving-starts-at-2', SV, "        for i in range(1, len(self.__powertrain.elements)):", "        for i in range(2, len(self.__powertrain.elements)):", 'C02.driving')
mutant('C02', 'load-not-typechecked', SV, "                    if not isinstance(external_torque, Torque):", "                    if False:", 'C02.load-call')
mutant('C02', 'load-skips-last', SV, "        for i in range(len(self.__powertrain.elements) - 1, 0, -1):", "        for i in range(len(self.__powertrain.elements) - 2, 0, -1):", 'C02')
mutant('C02', 'net-before-load', SV, "        self._compute_load_torque()\n        self._compute_motor_control(motor_control=motor_control)\n        self._compute_driving_torque()\n        self._compute_torque()\n", "        self._compute_motor_control(motor_control=motor_control)\n        self._compute_driving_torque()\n        self._compute_torque()\n        self._compute_load_torque()\n", 'C02.order')
benign('C02', 'driving-factors-reordered', SV, "                self.__powertrain.elements[i - 1].driving_torque * \\\n                self.__powertrain.elements[i].master_gear_efficiency * \\\n                self.__powertrain.elements[i].master_gear_ratio", "                self.__powertrain.elements[i].master_gear_ratio * \\\n                self.__powertrain.elements[i - 1].driving_torque * \\\n                self.__powertrain.elements[i].master_gear_efficiency")
benign('C02', 'load-single-division', SV, "                self.__powertrain.elements[i].load_torque / \\\n                self.__powertrain.elements[i].master_gear_efficiency / \\\n                self.__powertrain.elements[i].master_gear_ratio", "                self.__powertrain.elements[i].load_torque / \\\n                (self.__powertrain.elements[i].master_gear_efficiency *\n                 self.__powertrain.elements[i].master_gear_ratio)")
benign('C02', 'force-before-acceleration', SV, "        if not self.__powertrain_is_locked:\n            self._compute_angular_acceleration()\n        self._compute_force()\n", "        self._compute_force()\n        if not self.__powertrain_is_locked:\n            self._compute_angular_acceleration()\n")

# ------------------------------------------------------------------------------------------ C03
mutant('C03', 'inertia-ratio-squared', SV, "            self.__powertrain_inertia_moment *= element.master_gear_ratio\n", "            self.__powertrain_inertia_moment *= element.master_gear_ratio**2\n", 'C03.inertia')
mutant('C03', 'inertia-own-term-missing', SV, "            self.__powertrain_inertia_moment += element.inertia_moment\n", "", 'C03.inertia')
mutant('C03', 'inertia-add-then-multiply', SV, "            self.__powertrain_inertia_moment *= element.master_gear_ratio\n            self.__powertrain_inertia_moment += element.inertia_moment\n", "            self.__powertrain_inertia_moment += element.inertia_moment\n            self.__powertrain_inertia_moment *= element.master_gear_ratio\n", 'C03.inertia')
mutant('C03', 'inertia-loop-from-2', SV, "        for element in self.__powertrain.elements[1:]:\n            self.__powertrain_inertia_moment", "        for element in self.__powertrain.elements[2:]:\n            self.__powertrain_inertia_moment", 'C03.inertia')
mutant('C03', 'inertia-starts-from-last', SV, "            self.__powertrain.elements[0].inertia_moment\n        for element", "            self.__powertrain.elements[-1].inertia_moment\n        for element", 'C03.inertia')
mutant('C03', 'inertia-only-fresh', SV, "        self._compute_powertrain_inertia()\n        if self.__powertrain.time:\n            initial_time = self.__powertrain.time[-1]\n        else:\n", "        if self.__powertrain.time:\n            initial_time = self.__powertrain.time[-1]\n        else:\n            self._compute_powertrain_inertia()\n", 'C03.inertia')
mutant('C03', 'position-before-speed', SV, """        self.__powertrain.elements[-1].angular_speed += \\
            self.__powertrain.elements[-1].angular_acceleration * \\
            time_discretization
        self.__powertrain.elements[-1].angular_position += \\
            self.__powertrain.elements[-1].angular_speed*time_discretization""", """        self.__powertrain.elements[-1].angular_position += \\
            self.__powertrain.elements[-1].angular_speed*time_discretization
        self.__powertrain.elements[-1].angular_speed += \\
            self.__powertrain.elements[-1].angular_acceleration * \\
            time_discretization""", 'C03.euler')
mutant('C03', 'speed-update-half-dt', SV, "            self.__powertrain.elements[-1].angular_acceleration * \\\n            time_discretization", "            self.__powertrain.elements[-1].angular_acceleration * \\\n            time_discretization*0.5", 'C03.euler')
mutant('C03', 'integrates-with-duration', SV, "            self._time_integration(time_discretization=time_discretization)", "            self._time_integration(time_discretization=simulation_time)", 'C03.euler')
mutant('C03', 'integrates-motor', SV, "        self.__powertrain.elements[-1].angular_position += \\\n            self.__powertrain.elements[-1].angular_speed*time_discretization", "        self.__powertrain.elements[0].angular_position += \\\n            self.__powertrain.elements[0].angular_speed*time_discretization", 'C03')
mutant('C03', 'acceleration-uses-driving-torque', SV, "            self.__powertrain.elements[-1].torque / \\\n            self.__powertrain_inertia_moment", "            self.__powertrain.elements[-1].driving_torque / \\\n            self.__powertrain_inertia_moment", 'C03.eom')
mutant('C03', 'acceleration-uses-motor-inertia', SV, "            self.__powertrain.elements[-1].torque / \\\n            self.__powertrain_inertia_moment", "            self.__powertrain.elements[-1].torque / \\\n            self.__powertrain.elements[0].inertia_moment", 'C03.eom')
mutant('C03', 'acceleration-while-locked', SV, "        if not self.__powertrain_is_locked:\n            self._compute_angular_acceleration()", "        self._compute_angular_acceleration()", 'C03')
mutant('C03', 'fresh-start-integrates', SV, "            self.__powertrain.update_time(initial_time)\n            self._compute_powertrain_variables(motor_control=motor_control)", "            self.__powertrain.update_time(initial_time)\n            self._time_integration(time_discretization=time_discretization)\n            self._compute_powertrain_variables(motor_control=motor_control)", 'C03.euler')
benign('C03', 'inertia-one-statement', SV, "            self.__powertrain_inertia_moment *= element.master_gear_ratio\n            self.__powertrain_inertia_moment += element.inertia_moment\n", "            self.__powertrain_inertia_moment = element.inertia_moment + \\\n                self.__powertrain_inertia_moment*element.master_gear_ratio\n")
benign('C03', 'explicit-speed-update', SV, "        self.__powertrain.elements[-1].angular_speed += \\\n            self.__powertrain.elements[-1].angular_acceleration * \\\n            time_discretization", "        self.__powertrain.elements[-1].angular_speed = \\\n            self.__powertrain.elements[-1].angular_speed + \\\n            time_discretization*self.__powertrain.elements[-1].angular_acceleration" if False else "        self.__powertrain.elements[-1].angular_speed = \\\n            self.__powertrain.elements[-1].angular_speed + \\\n            self.__powertrain.elements[-1].angular_acceleration * \\\n            time_discretization")

# ------------------------------------------------------------------------------------------ C11
mutant('C11', 'step-count-truncated', SV, "        simulation_steps = round(simulation_time/time_discretization)", "        simulation_steps = int(simulation_time/time_discretization)", 'C11.grid')
mutant('C11', 'step-count-raw-values', SV, "        simulation_steps = round(simulation_time/time_discretization)", "        simulation_steps = round(simulation_time.value/time_discretization.value)", 'C11.grid')
mutant('C11', 'k-from-zero', SV, "        for k in range(1, simulation_steps + 1):", "        for k in range(simulation_steps):", 'C11.grid')
mutant('C11', 'one-step-too-many', SV, "        for k in range(1, simulation_steps + 1):", "        for k in range(1, simulation_steps + 2):", 'C11.grid')
mutant('C11', 'instant-from-raw-values', SV, "                initial_time + k*time_discretization\n", "                Time(value=initial_time.value + k*time_discretization.value, unit=time_discretization.unit)\n", 'C11.grid')
multi('C11', 'float-arange (pre-fix shape)', 'mutant', [
    (SV, "from typing import Optional\n", "from typing import Optional\nimport numpy as np\n"),
    (SV, """        simulation_steps = round(simulation_time/time_discretization)
        for k in range(1, simulation_steps + 1):

            self.__powertrain.update_time(
                initial_time + k*time_discretization
            )""", """        final_time = initial_time + simulation_time + time_discretization
        for k in np.arange(
            initial_time.value + time_discretization.value,
            final_time.value,
            time_discretization.value
        ):

            self.__powertrain.update_time(
                Time(value=float(k), unit=time_discretization.unit)
            )""")], 'C11.grid')
mutant('C11', 'time-zero-missing', SV, "            self.__powertrain.update_time(initial_time)\n", "", 'C11')
mutant('C11', 'continuation-duplicates-start', SV, "            initial_time = self.__powertrain.time[-1]\n", "            initial_time = self.__powertrain.time[-1]\n            self.__powertrain.update_time(initial_time)\n", 'C11.once')
mutant('C11', 'append-after-integration', SV, """            self.__powertrain.update_time(
                initial_time + k*time_discretization
            )
            self._time_integration(time_discretization=time_discretization)""", """            self._time_integration(time_discretization=time_discretization)
            self.__powertrain.update_time(
                initial_time + k*time_discretization
            )""", 'C11.once')
benign('C11', 'int-of-round', SV, "        simulation_steps = round(simulation_time/time_discretization)", "        simulation_steps = int(round(simulation_time/time_discretization))")
benign('C11', 'zero-based-index', SV, "        for k in range(1, simulation_steps + 1):\n\n            self.__powertrain.update_time(\n                initial_time + k*time_discretization\n            )", "        for k in range(simulation_steps):\n\n            self.__powertrain.update_time(\n                initial_time + (k + 1)*time_discretization\n            )")

# ------------------------------------------------------------------------------------------ C12
mutant('C12', 'lock-flag-cleared-every-run', SV, "        self._compute_powertrain_inertia()\n        if self.__powertrain.time:", "        self._compute_powertrain_inertia()\n        self.__powertrain_is_locked = False\n        if self.__powertrain.time:", 'C12.cont')
mutant('C12', 'lock-flag-never-cleared (pre-fix shape)', SV, "            self.__powertrain_is_locked = False\n            self.__powertrain.update_time(initial_time)", "            self.__powertrain.update_time(initial_time)", 'C12.state')
mutant('C12', 'continuation-recomputes-first-instant', SV, "            initial_time = self.__powertrain.time[-1]\n", "            initial_time = self.__powertrain.time[-1]\n            self._compute_powertrain_variables(motor_control=motor_control)\n", 'C12.cont')
mutant('C12', 'continuation-from-first-instant', SV, "            initial_time = self.__powertrain.time[-1]\n", "            initial_time = self.__powertrain.time[0]\n", 'C12.cont')
mutant('C12', 'continuation-raw-start', SV, "                initial_time + k*time_discretization\n", "                Time(value=initial_time.value + k*time_discretization.value, unit=time_discretization.unit)\n", 'C12.unit')
mutant('C12', 'reset-keeps-time', PT, "        self.__time = []\n\n        for element in self.elements:", "        for element in self.elements:", 'C12.reset')
mutant('C12', 'reset-pwm-under-current-guard', PT, "                    ][0]\n                element.pwm = element.time_variables['pwm'][0]", "                    ][0]\n                    element.pwm = element.time_variables['pwm'][0]", 'C12.reset')
mutant('C12', 'reset-speed-from-last-sample', PT, "element.time_variables['angular speed'][0]", "element.time_variables['angular speed'][-1]", 'C12.reset')
mutant('C12', 'reset-torque-keys-swapped', PT, "            element.load_torque = element.time_variables['load torque'][0]", "            element.load_torque = element.time_variables['torque'][0]", 'C12.reset')
mutant('C12', 'reset-shared-list', PT, "            for variable in element.time_variables.keys():\n                element.time_variables[variable] = []", "            element.time_variables.update(dict.fromkeys(element.time_variables, []))", 'C12.reset')
mutant('C12', 'reset-skips-motor', PT, "        self.__time = []\n\n        for element in self.elements:", "        self.__time = []\n\n        for element in self.elements[1:]:", 'C12.reset')
mutant('C12', 'reset-forgets-load-torque', PT, "            element.load_torque = element.time_variables['load torque'][0]\n", "", 'C12.reset')
benign('C12', 'reset-restores-reordered', PT, "            element.torque = element.time_variables['torque'][0]\n            element.driving_torque = element.time_variables[\n                'driving torque'\n            ][0]\n", "            element.driving_torque = element.time_variables[\n                'driving torque'\n            ][0]\n            element.torque = element.time_variables['torque'][0]\n")
benign('C12', 'reset-clear-via-values', PT, "            for variable in element.time_variables.keys():\n                element.time_variables[variable] = []", "            for samples in element.time_variables.values():\n                samples.clear()")

# ------------------------------------------------------------------------------------------ C13
mutant('C13', 'lock-ignores-zero-pwm', SV, "            motor.pwm == 0 or\n", "", 'C13.lock-table')
mutant('C13', 'lock-on-zero-speed', SV, "(motor.pwm > 0 and motor.angular_speed < NULL_ANGULAR_SPEED)", "(motor.pwm > 0 and motor.angular_speed <= NULL_ANGULAR_SPEED)", 'C13.lock-table')
mutant('C13', 'lock-sign-flipped', SV, "(motor.pwm < 0 and motor.angular_speed > NULL_ANGULAR_SPEED)", "(motor.pwm < 0 and motor.angular_speed < NULL_ANGULAR_SPEED)", 'C13.lock-table')
mutant('C13', 'lock-without-self-locking', SV, "        if self.__powertrain.self_locking and (", "        if (", 'C13')
mutant('C13', 'unlock-wrong-direction', SV, "(motor.torque < NULL_TORQUE and motor.pwm < 0)", "(motor.torque < NULL_TORQUE and motor.pwm > 0)", 'C13.lock-table')
mutant('C13', 'unlock-on-zero-torque', SV, "            if (motor.torque > NULL_TORQUE and motor.pwm > 0) or \\", "            if (motor.torque >= NULL_TORQUE and motor.pwm > 0) or \\", 'C13.lock-table')
mutant('C13', 'unlock-uses-driving-torque', SV, "            if (motor.torque > NULL_TORQUE and motor.pwm > 0) or \\", "            if (motor.driving_torque > NULL_TORQUE and motor.pwm > 0) or \\", 'C13.lock-table')
mutant('C13', 'lock-does-not-return', SV, "            self.__powertrain_is_locked = True\n            return\n", "            self.__powertrain_is_locked = True\n", 'C13.lock-table')
mutant('C13', 'clamp-skips-motor', SV, "        for element in self.__powertrain.elements:\n            element.angular_speed = NULL_ANGULAR_SPEED", "        for element in self.__powertrain.elements[1:]:\n            element.angular_speed = NULL_ANGULAR_SPEED", 'C13.clamp')
mutant('C13', 'clamp-after-load', SV, "        if self.__powertrain_is_locked:\n            self._compute_locked_powertrain_angular_speed_and_acceleration()\n        self._compute_load_torque()\n", "        self._compute_load_torque()\n        if self.__powertrain_is_locked:\n            self._compute_locked_powertrain_angular_speed_and_acceleration()\n", 'C13.clamp')
mutant('C13', 'acceleration-while-locked', SV, "        if not self.__powertrain_is_locked:\n            self._compute_angular_acceleration()", "        self._compute_angular_acceleration()", 'C13.clamp')
mutant('C13', 'clamp-when-unlocked', SV, "        if self.__powertrain_is_locked:\n            self._compute_locked_powertrain_angular_speed_and_acceleration()", "        if not self.__powertrain_is_locked:\n            self._compute_locked_powertrain_angular_speed_and_acceleration()", 'C13.clamp')
mutant('C13', 'clamp-before-propagation', SV, "        self._compute_angular_position_and_speed()\n        self._check_powertrain_is_locked()\n        if self.__powertrain_is_locked:\n            self._compute_locked_powertrain_angular_speed_and_acceleration()\n", "        self._check_powertrain_is_locked()\n        if self.__powertrain_is_locked:\n            self._compute_locked_powertrain_angular_speed_and_acceleration()\n        self._compute_angular_position_and_speed()\n", 'C13.clamp')
benign('C13', 'lock-condition-reordered', SV, "(motor.pwm > 0 and motor.angular_speed < NULL_ANGULAR_SPEED) or\n            (motor.pwm < 0 and motor.angular_speed > NULL_ANGULAR_SPEED)", "(motor.pwm < 0 and motor.angular_speed > NULL_ANGULAR_SPEED) or\n            (motor.angular_speed < NULL_ANGULAR_SPEED and motor.pwm > 0)")
benign('C13', 'unlock-flipped-comparison', SV, "            if (motor.torque > NULL_TORQUE and motor.pwm > 0) or \\", "            if (NULL_TORQUE < motor.torque and 0 < motor.pwm) or \\")

PC = 'gearpy/motor_control/pwm_control.py'
# ------------------------------------------------------------------------------------------ C14
mutant('C14', 'conflict-needs-three', PC, "        if applied_rules >= 2:", "        if applied_rules > 2:", 'C14.shape')
mutant('C14', 'default-zero', PC, "            pwm = 1\n", "            pwm = 0\n", 'C14.shape')
mutant('C14', 'no-saturation', PC, "self._saturate_pwm(pwm_value)", "pwm_value", 'C14')
mutant('C14', 'saturation-lower-bound', PC, "return min(max(pwm, -1), 1)", "return min(max(pwm, 0), 1)", 'C14.clip')
mutant('C14', 'saturation-swapped', PC, "return min(max(pwm, -1), 1)", "return max(min(pwm, -1), 1)", 'C14.clip')
mutant('C14', 'assigned-to-last-element', PC, "        self.__powertrain.elements[0].pwm = pwm", "        self.__powertrain.elements[-1].pwm = pwm", 'C14.shape')
mutant('C14', 'count-by-truthiness', PC, "[pwm_value is not None for pwm_value in pwm_values]", "[bool(pwm_value) for pwm_value in pwm_values]", 'C14')
mutant('C14', 'conflict-warns-only', PC, """            raise ValueError(
                "At least two rules are simultaneously applicable. Check PWM "
                "rules conditions."
            )""", """            pwm = 1""", 'C14.shape')
mutant('C14', 'control-after-motor-law', SV, "        self._compute_motor_control(motor_control=motor_control)\n        self._compute_driving_torque()\n", "        self._compute_driving_torque()\n        self._compute_motor_control(motor_control=motor_control)\n", 'C14.once')
mutant('C14', 'control-skipped-while-locked', SV, "        self._compute_motor_control(motor_control=motor_control)\n", "        if not self.__powertrain_is_locked:\n            self._compute_motor_control(motor_control=motor_control)\n", 'C14.once')
mutant('C14', 'control-twice', SV, "        self._compute_motor_control(motor_control=motor_control)\n", "        self._compute_motor_control(motor_control=motor_control)\n        self._compute_motor_control(motor_control=motor_control)\n", 'C14.once')
mutant('C14', 'control-after-record', SV, PIPE, PIPE.replace("        self._compute_motor_control(motor_control=motor_control)\n", "") + "        self._compute_motor_control(motor_control=motor_control)\n", 'C14.once')
mutant('C14', 'pwm-setter-and', DC, "if not (-1 <= pwm <= 1):", "if not (-1 <= pwm or pwm <= 1):", 'C14.range')
mutant('C14', 'pwm-setter-nan-transparent (pre-fix shape)', DC, "if not (-1 <= pwm <= 1):", "if (pwm > 1) or (pwm < -1):", 'C14.range')
benign('C14', 'pwm-setter-isnan-form', DC, "if not (-1 <= pwm <= 1):", "if math.isnan(pwm) or pwm > 1 or pwm < -1:")
_APPLY_OLD = """        pwm_values = [rule.apply() for rule in self.__rules]
        applied_rules = sum(
            [pwm_value is not None for pwm_value in pwm_values]
        )
        if applied_rules >= 2:
            raise ValueError(
                "At least two rules are simultaneously applicable. Check PWM "
                "rules conditions."
            )
        elif applied_rules == 1:
            pwm = [
                self._saturate_pwm(pwm_value)
                for pwm_value in pwm_values if pwm_value is not None
            ][0]
        else:
            pwm = 1
"""
benign('C14', 'apply-rules-as-match', 'gearpy/motor_control/pwm_control.py', _APPLY_OLD, """        proposals = [v for v in (rule.apply() for rule in self.__rules) if v is not None]
        match proposals:
            case []:
                pwm = 1
            case [single]:
                pwm = self._saturate_pwm(single)
            case [_, _, *_]:
                raise ValueError("At least two rules are simultaneously applicable.")
""")
benign('C14', 'apply-rules-as-loop', 'gearpy/motor_control/pwm_control.py', _APPLY_OLD, """        proposals = []
        for rule in self.__rules:
            value = rule.apply()
            if value is not None:
                proposals.append(value)
        if len(proposals) > 1:
            raise ValueError("At least two rules are simultaneously applicable.")
        pwm = self._saturate_pwm(proposals[0]) if proposals else 1
""")
mutant('C14', 'apply-rules-match-exactly-two', 'gearpy/motor_control/pwm_control.py', _APPLY_OLD, """        proposals = [v for v in (rule.apply() for rule in self.__rules) if v is not None]
        pwm = 1
        match proposals:
            case [single]:
                pwm = self._saturate_pwm(single)
            case [_, _]:
                raise ValueError("At least two rules are simultaneously applicable.")
""", 'C14.shape')
mutant('C14', 'saturate-abs-to-plus-one', 'gearpy/motor_control/pwm_control.py', "        return min(max(pwm, -1), 1)\n", "        if abs(pwm) > 1:\n            return 1\n        return pwm\n", 'C14.clip')
benign('C14', 'saturate-if-chain', 'gearpy/motor_control/pwm_control.py', "        return min(max(pwm, -1), 1)\n", "        if pwm > 1:\n            return 1\n        if pwm < -1:\n            return -1\n        return pwm\n")
mutant('C14', 'conflict-swallowed', SV, "        if motor_control is not None:\n            motor_control.apply_rules()", "        if motor_control is not None:\n            try:\n                motor_control.apply_rules()\n            except ValueError:\n                pass", 'C14')
benign('C14', 'count-with-len', PC, "        applied_rules = sum(\n            [pwm_value is not None for pwm_value in pwm_values]\n        )", "        applied_rules = len(\n            [pwm_value for pwm_value in pwm_values if pwm_value is not None]\n        )")
benign('C14', 'saturation-rewritten', PC, "return min(max(pwm, -1), 1)", "return max(-1, min(1, pwm))")
mutant('C13', 'flag-cleared-every-run', SV, "        self._compute_powertrain_inertia()\n        if self.__powertrain.time:", "        self._compute_powertrain_inertia()\n        self.__powertrain_is_locked = False\n        if self.__powertrain.time:", 'C13.only-if')
mutant('C13', 'self-locking-last-worm-wins', PT, "                if element.self_locking:\n                    self.__self_locking = True", "                self.__self_locking = bool(element.self_locking)", 'C13.flag-source')

# ------------------------------------------------------------------------------------------ C20
mutant('C20', 'walk-stops-at-inconsistent-backlink', PT, "            elements.append(elements[-1].drives)\n", "            if elements[-1].drives.driven_by is not elements[-1]:\n                break\n            elements.append(elements[-1].drives)\n", 'C20.walk')
mutant('C20', 'walk-skips-one', PT, "            elements.append(elements[-1].drives)\n", "            elements.append(elements[-1].drives.drives or elements[-1].drives)\n", 'C20.walk')
mutant('C20', 'elements-reversed', PT, "        self.__elements = tuple(elements)", "        self.__elements = tuple(reversed(elements))", 'C20.walk')
mutant('C20', 'elements-stored-as-list', PT, "        self.__elements = tuple(elements)", "        self.__elements = elements", 'C20.walk')
mutant('C20', 'unconnected-motor-accepted', PT, "        if motor.drives is None:", "        if False:", 'C20.rejects')
mutant('C20', 'duplicates-need-three', PT, "            if count > 1:", "            if count > 2:", 'C20.rejects')
mutant('C20', 'self-locking-last-worm-wins', PT, "                if element.self_locking:\n                    self.__self_locking = True", "                self.__self_locking = bool(element.self_locking)", 'C20.locking')
mutant('C20', 'self-locking-scan-skips-first-gear', PT, "        for element in self.elements:\n            if isinstance(element, WormGear):", "        for element in self.elements[2:]:\n            if isinstance(element, WormGear):", 'C20.locking')
mutant('C20', 'self-locking-any-gear', PT, "            if isinstance(element, WormGear):\n                if element.self_locking:", "            if hasattr(element, 'helix_angle'):\n                if True:", 'C20.locking')
mutant('C20', 'self-locking-live-property', PT, "        return self.__self_locking", "        return any(isinstance(e, WormGear) and e.self_locking for e in self.__elements)", 'C20.frozen')
mutant('C20', 'elements-setter-added', PT, "    @property\n    def time(self) -> list[Time]:", "    @elements.setter\n    def elements(self, elements):\n        self.__elements = tuple(elements)\n\n    @property\n    def time(self) -> list[Time]:", 'C20.frozen')

SC = 'gearpy/utils/stop_condition/stop_condition.py'
OPF = 'gearpy/utils/stop_condition/operator.py'
ENC = 'gearpy/sensors/absolute_rotary_encoder.py'
TAC = 'gearpy/sensors/tachometer.py'
AMP = 'gearpy/sensors/amperometer.py'
STEP_TAIL = """            self._compute_powertrain_variables(motor_control=motor_control)
            if stop_condition is not None:
                if stop_condition.check_condition():
                    break
"""
# ------------------------------------------------------------------------------------------ C16
mutant('C16', 'check-before-instant-computed', SV, "            self._time_integration(time_discretization=time_discretization)\n" + STEP_TAIL, "            stop = stop_condition is not None and stop_condition.check_condition()\n            self._time_integration(time_discretization=time_discretization)\n            self._compute_powertrain_variables(motor_control=motor_control)\n            if stop:\n                break\n", 'C16.place')
mutant('C16', 'check-before-record', SV, STEP_TAIL + "\n    def _compute_powertrain_inertia", """            self._compute_powertrain_variables(motor_control=motor_control, stop_condition=stop_condition)
            if self.__stop:
                break

    def _compute_powertrain_inertia""", None) if False else None
mutant('C16', 'never-stops', SV, "                if stop_condition.check_condition():\n                    break", "                if stop_condition.check_condition():\n                    pass", 'C16.place')
mutant('C16', 'stops-when-false', SV, "                if stop_condition.check_condition():\n                    break", "                if not stop_condition.check_condition():\n                    break", 'C16.place')
mutant('C16', 'checked-twice', SV, "                if stop_condition.check_condition():\n                    break", "                if stop_condition.check_condition() and stop_condition.check_condition():\n                    break", 'C16.place')
mutant('C16', 'checked-at-time-zero', SV, "            self.__powertrain.update_time(initial_time)\n            self._compute_powertrain_variables(motor_control=motor_control)\n", "            self.__powertrain.update_time(initial_time)\n            self._compute_powertrain_variables(motor_control=motor_control)\n            if stop_condition is not None and stop_condition.check_condition():\n                return\n", 'C16.place')
mutant('C16', 'record-after-break-check', SV, PIPE + "\n", PIPE.replace("        self._update_time_variables()\n", "") + "\n", 'C16') if False else None
mutant('C16', 'greater-than-includes-equal', OPF, "        return sensor_value > threshold", "        return sensor_value >= threshold", 'C16.ops')
mutant('C16', 'less-than-operands-swapped', OPF, "        return sensor_value < threshold", "        return threshold < sensor_value", 'C16.ops')
mutant('C16', 'equal-is-not-equal', OPF, "        return sensor_value == threshold", "        return sensor_value != threshold", 'C16.ops')
mutant('C16', 'attribute-binding-swapped', SC, "    greater_than = GreaterThan()", "    greater_than = GreaterThanOrEqualTo()", 'C16.ops')
mutant('C16', 'condition-latches', SC, "        return self.operator(\n            sensor_value=self.sensor.get_value(),\n            threshold=self.threshold\n        )", "        if getattr(self, '_fired', False):\n            return True\n        self._fired = self.operator(\n            sensor_value=self.sensor.get_value(),\n            threshold=self.threshold\n        )\n        return self._fired", 'C16.check')
mutant('C16', 'condition-args-swapped', SC, "            sensor_value=self.sensor.get_value(),\n            threshold=self.threshold", "            sensor_value=self.threshold,\n            threshold=self.sensor.get_value()", 'C16.check')
mutant('C16', 'encoder-reads-speed', ENC, "            return self.__target.angular_position\n", "            return self.__target.angular_speed\n", 'C16.sensors')
mutant('C16', 'tachometer-value-not-converted', TAC, "            return self.__target.angular_speed.to(unit).value", "            return self.__target.angular_speed.value", 'C16.sensors')
mutant('C16', 'amperometer-caches', AMP, "            return self.__target.electric_current\n", "            if not hasattr(self, '_last'):\n                self._last = self.__target.electric_current\n            return self._last\n", 'C16.sensors')
benign('C16', 'single-if', SV, "            if stop_condition is not None:\n                if stop_condition.check_condition():\n                    break", "            if stop_condition is not None and stop_condition.check_condition():\n                break")
benign('C16', 'operator-flipped-spelling', OPF, "        return sensor_value > threshold", "        return threshold < sensor_value")

FW = 'gearpy/mechanical_objects/flywheel.py'
EXP = 'gearpy/utils/export.py'
# ------------------------------------------------------------------------------------------ C17
mutant('C17', 'spur-advertises-bending-without-face-width', SG, "            if self.bending_stress_is_computable:\n                self.time_variables['bending stress'] = []", "            if True:\n                self.time_variables['bending stress'] = []", 'C17.guards')
mutant('C17', 'motor-current-key-always', DC, "        if self.electric_current_is_computable:\n            self.__electric_current = None\n            self.time_variables['electric current'] = []", "        self.__electric_current = None\n        self.time_variables['electric current'] = []", 'C17.guards')
mutant('C17', 'worm-force-not-recorded', WG, "        if self.tangential_force_is_computable:\n            self.time_variables['tangential force'].append(", "        if False:\n            self.time_variables['tangential force'].append(", 'C17.guards')
mutant('C17', 'torque-appended-twice', MB, "        self.__time_variables['torque'].append(self.__torque)\n", "        self.__time_variables['torque'].append(self.__torque)\n        self.__time_variables['torque'].append(self.__torque)\n", 'C17.one')
mutant('C17', 'driving-torque-list-gets-load', MB, "        self.__time_variables['driving torque'].append(self.__driving_torque)", "        self.__time_variables['driving torque'].append(self.__load_torque)", 'C17.one')
mutant('C17', 'pwm-recorded-only-with-current', DC, "        if 'pwm' not in self.time_variables.keys():", "        if not self.electric_current_is_computable:\n            pass\n        elif 'pwm' not in self.time_variables.keys():", 'C17.guards')
mutant('C17', 'record-skips-motor', SV, "        for element in self.__powertrain.elements:\n            element.update_time_variables()", "        for element in self.__powertrain.elements[1:]:\n            element.update_time_variables()", 'C17.pairing')
mutant('C17', 'record-only-when-unlocked', SV, "        self._update_time_variables()\n", "        if not self.__powertrain_is_locked:\n            self._update_time_variables()\n", 'C17.pairing')
mutant('C17', 'record-twice', SV, "        self._compute_electric_current()\n        self._update_time_variables()\n", "        self._update_time_variables()\n        self._compute_electric_current()\n        self._update_time_variables()\n", 'C17.pairing')
mutant('C17', 'stress-computed-only-with-contact', SV, "                if element.bending_stress_is_computable:\n                    element.compute_bending_stress()\n                    if element.contact_stress_is_computable:\n                        element.compute_contact_stress()", "                if element.bending_stress_is_computable and element.contact_stress_is_computable:\n                    element.compute_bending_stress()\n                    element.compute_contact_stress()", 'C17.computed')
mutant('C17', 'force-not-computed-for-worm', SV, "            if isinstance(element, GearBase | WormGear):\n                if element.tangential_force_is_computable:", "            if isinstance(element, GearBase):\n                if element.tangential_force_is_computable:", 'C17.computed')
mutant('C17', 'speed-setter-accepts-anything', MB, "        if not isinstance(angular_speed, AngularSpeed):", "        if False:", 'C17.kind')
mutant('C17', 'reset-shared-list', PT, "            for variable in element.time_variables.keys():\n                element.time_variables[variable] = []", "            element.time_variables.update(dict.fromkeys(element.time_variables, []))", 'C17.reset')
mutant('C17', 'export-mapping-misses-current', EXP, "        'electric current': current_unit,\n", "", 'C17.export')
mutant('C17', 'contact-flag-drops-face-width+flat-keys', MB, "return (self.__module is not None) and \\\n            (self.__face_width is not None) and \\\n            (self.__elastic_modulus is not None)", "return (self.__module is not None) and \\\n            (self.__elastic_modulus is not None)", None) if False else None
benign('C17', 'recorder-uses-properties', MB, "        self.__time_variables['torque'].append(self.__torque)\n", "        self.__time_variables['torque'].append(self.torque)\n")
benign('C17', 'worm-recorder-guard-inlined', WG, "        if self.tangential_force_is_computable:\n            self.time_variables['tangential force'].append(", "        if self.reference_diameter is not None:\n            self.time_variables['tangential force'].append(")

# ------------------------------------------------------------------------------------------ C18
mutant('C18', 'pwm-column-unguarded (pre-fix shape)', PT, "                if 'pwm' in variables:\n                    interpolation_function = interp1d(\n                        x=[instant.to('sec').value for instant in self.time],\n                        y=element.time_variables['pwm']\n                    )\n                    data.loc[element.name, 'pwm'] = interpolation_function(\n                        target_time.to('sec').value\n                    ).take(0)", "                interpolation_function = interp1d(\n                    x=[instant.to('sec').value for instant in self.time],\n                    y=element.time_variables['pwm']\n                )\n                data.loc[element.name, 'pwm'] = interpolation_function(\n                    target_time.to('sec').value\n                ).take(0)", 'C18.own-guard')
mutant('C18', 'stress-nested-under-force (pre-fix shape)', PT, """                    unit_list.append(force_unit)
                if isinstance(element, GearBase):
                    if element.bending_stress_is_computable and \\
                            'bending stress' in variables:
                        variable_list.append('bending stress')
                        unit_list.append(stress_unit)
                    if element.contact_stress_is_computable and \\
                            'contact stress' in variables:
                        variable_list.append('contact stress')
                        unit_list.append(stress_unit)
""", """                    unit_list.append(force_unit)
                    if isinstance(element, GearBase):
                        if element.bending_stress_is_computable and \\
                                'bending stress' in variables:
                            variable_list.append('bending stress')
                            unit_list.append(stress_unit)
                            if element.contact_stress_is_computable and \\
                                    'contact stress' in variables:
                                variable_list.append('contact stress')
                                unit_list.append(stress_unit)
""", 'C18.own-guard')
mutant('C18', 'current-under-pwm-selection', PT, "                if 'electric current' in variables:\n                    if element.electric_current_is_computable:", "                if 'electric current' in variables and 'pwm' in variables:\n                    if element.electric_current_is_computable:", 'C18.own-guard')
mutant('C18', 'unit-lists-swapped', PT, "                    torque_unit,\n                    driving_torque_unit,\n                    load_torque_unit\n                ]", "                    torque_unit,\n                    load_torque_unit,\n                    driving_torque_unit\n                ]", 'C18.pairing')
mutant('C18', 'stress-appended-with-force-unit', PT, "                        variable_list.append('bending stress')\n                        unit_list.append(stress_unit)", "                        variable_list.append('bending stress')\n                        unit_list.append(force_unit)", 'C18.pairing')
mutant('C18', 'current-label-unit-fixed', PT, "                            f'electric current ({current_unit})'", "                            f'electric current (A)'", 'C18.pairing')
mutant('C18', 'interp-previous', PT, "                    interpolation_function = interp1d(\n                        x=[instant.to('sec').value for instant in self.time],\n                        y=[\n                            value.to(unit).value\n                            for value in element.time_variables[variable]\n                        ]\n                    )", "                    interpolation_function = interp1d(\n                        x=[instant.to('sec').value for instant in self.time],\n                        y=[\n                            value.to(unit).value\n                            for value in element.time_variables[variable]\n                        ],\n                        kind='previous'\n                    )", 'C18.interp', nth=0)
mutant('C18', 'query-in-ms', PT, "                        interpolation_function(\n                        target_time.to('sec').value\n                    ).take(0)", "                        interpolation_function(\n                        target_time.to('ms').value\n                    ).take(0)", 'C18.interp')
mutant('C18', 'query-raw-value', PT, "                        interpolation_function(\n                        target_time.to('sec').value\n                    ).take(0)", "                        interpolation_function(\n                        target_time.value\n                    ).take(0)", 'C18.interp')
mutant('C18', 'axis-cached-on-self', PT, "        variables = list(set(variables))\n", "        variables = list(set(variables))\n        if getattr(self, '_axis', None) is None or len(self._axis) != len(self.time):\n            self._axis = [instant.to('sec').value for instant in self.time]\n", 'C18.pure', nth=0)
mutant('C18', 'export-load-unit-misrouted', PT, "                load_torque_unit=load_torque_unit,", "                load_torque_unit=torque_unit,", 'C18.export')
mutant('C18', 'export-mapping-driving-uses-torque-unit', EXP, "        'driving torque': driving_torque_unit,", "        'driving torque': torque_unit,", 'C18.export')
mutant('C18', 'export-with-index', EXP, "    data.to_csv(file_path, index=False)", "    data.to_csv(file_path)", 'C18.export')
mutant('C18', 'export-time-raw', EXP, "instant.to(time_unit).value for instant in time_array", "instant.value for instant in time_array", 'C18.export')
benign('C18', 'pwm-guard-merged', PT, "                if 'pwm' in variables:\n                    interpolation_function = interp1d(\n                        x=[instant.to('sec').value for instant in self.time],\n                        y=element.time_variables['pwm']\n                    )", "                if 'pwm' in variables and True:\n                    interpolation_function = interp1d(\n                        x=[instant.to('sec').value for instant in self.time],\n                        y=element.time_variables['pwm']\n                    )")

RUTIL = 'gearpy/motor_control/rules/utils.py'
# ------------------------------------------------------------------------------------------ C07
mutant('C07', 'motor-torque-value-in-Nm', DC, """value=(1 - self.angular_speed/no_load_speed)*maximum_torque.value,
            unit=self.maximum_torque.unit""", """value=(1 - self.angular_speed/no_load_speed)*maximum_torque.to('Nm').value,
            unit=self.maximum_torque.unit""", 'C07.raw')
mutant('C07', 'motor-speed-ratio-raw', DC, "value=(1 - self.angular_speed /\n                       self.no_load_speed)*self.maximum_torque.value", "value=(1 - self.angular_speed.value /\n                       self.no_load_speed.value)*self.maximum_torque.value", 'C07.raw')
mutant('C07', 'contact-stress-raw-moduli', SG, "        equivalent_elastic_modulus = \\\n            2*self.elastic_modulus*(\n                mate_elastic_modulus /\n                (self.elastic_modulus + mate_elastic_modulus)\n            )", "        equivalent_elastic_modulus = Stress(\n            2*self.elastic_modulus.value*mate_elastic_modulus.value /\n            (self.elastic_modulus + mate_elastic_modulus).value,\n            self.elastic_modulus.unit\n        )", 'C07.raw')
mutant('C07', 'helix-limit-compared-raw', WG, "        if helix_angle > maximum_helix_angle:", "        if helix_angle.value > maximum_helix_angle.value:", 'C07.raw')
mutant('C07', 'module-compared-raw', RL, "        if master.module != slave.module:", "        if master.module.value != slave.module.value:", 'C07.raw')
mutant('C07', 'helix-angles-compared-raw', RL, "            if master.helix_angle != slave.helix_angle:", "            if master.helix_angle.value != slave.helix_angle.value:", 'C07.raw')
mutant('C07', 'limit-ratio-raw', SLC, "        electric_ratio = self.__limit_electric_current/maximum_electric_current", "        electric_ratio = self.__limit_electric_current.value/maximum_electric_current.value", 'C07.raw')
mutant('C07', 'static-error-raw-torques', RUTIL, "            (load_torque/maximum_torque)/powertrain_efficiency", "            (load_torque.value/maximum_torque.value)/powertrain_efficiency", 'C07.raw')
mutant('C07', 'instant-from-raw-values', SV, "                initial_time + k*time_discretization\n", "                Time(value=initial_time.value + k*time_discretization.value, unit=time_discretization.unit)\n", 'C07.raw')
mutant('C07', 'inertia-sum-raw', SV, "            self.__powertrain_inertia_moment += element.inertia_moment\n", "            self.__powertrain_inertia_moment = InertiaMoment(\n                self.__powertrain_inertia_moment.value + element.inertia_moment.value,\n                self.__powertrain_inertia_moment.unit)\n", 'C07.raw')
mutant('C07', 'step-count-raw', SV, "        simulation_steps = round(simulation_time/time_discretization)", "        simulation_steps = round(simulation_time.value/time_discretization.value)", 'C07.raw')
mutant('C07', 'pressure-angle-exact-lookup (pre-fix shape)', MB, """            WORM_GEAR_AND_WHEEL_DATA.loc[
                WORM_GEAR_AND_WHEEL_AVAILABLE_PRESSURE_ANGLES.index(
                    pressure_angle
                ),
                'Maximum Helix Angle'
            ]""", """            WORM_GEAR_AND_WHEEL_DATA.set_index('Pressure Angle').loc[
                pressure_angle.to('deg').value,
                'Maximum Helix Angle'
            ]""", 'C07.exact-key')
mutant('C07', 'table-gcm2', UN, "'gcm^2': 1e-7,", "'gcm^2': 1e-6,", 'C07.dep.table')
mutant('C07', 'timer-duration-raw', TM, "((current_time - self.start_time) <= self.duration)", "((current_time - self.start_time).value <= self.duration.value)", 'C07.raw')
benign('C07', 'sign-test-on-raw-value', DC, "        if no_load_speed.value <= 0:", "        if no_load_speed.to('rad/s').value <= 0:")
benign('C07', 'explicit-SI-conversion', SG, "contact_pressure.to('Pa').value", "contact_pressure.to('MPa').value*1e6")

# ---- gaps found by the AST mutation sweep (tools/mutation_sweep.py) and closed
mutant('C13', 'fresh-start-begins-locked', SV, "            self.__powertrain_is_locked = False\n            self.__powertrain.update_time(initial_time)", "            self.__powertrain_is_locked = True\n            self.__powertrain.update_time(initial_time)", 'C13.only-if')
mutant('C13', 'lock-decision-before-propagation', SV, "        self._compute_angular_position_and_speed()\n        self._check_powertrain_is_locked()\n", "        self._check_powertrain_is_locked()\n        self._compute_angular_position_and_speed()\n", 'C13.clamp')
mutant('C01', 'lock-decision-before-propagation', SV, "        self._compute_angular_position_and_speed()\n        self._check_powertrain_is_locked()\n", "        self._check_powertrain_is_locked()\n        self._compute_angular_position_and_speed()\n", 'C01.order')
mutant('C02', 'motor-law-on-wrong-element', SV, "        self.__powertrain.elements[0].compute_torque()", "        self.__powertrain.elements[1].compute_torque()", 'C02.motor')
mutant('C17', 'current-computed-on-wrong-element', SV, "        if self.__powertrain.elements[0].electric_current_is_computable:\n            self.__powertrain.elements[0].compute_electric_current()", "        if self.__powertrain.elements[0].electric_current_is_computable:\n            self.__powertrain.elements[1].compute_electric_current()", 'C17.computed')

# ------------------------------------------------------------------------------------------ forwarding clones (sweep B)
mutant('C02', 'motor-load-setter-forwards-to-driving', DC, 'super(DCMotor, type(self)).load_torque.fset(self, load_torque)', 'super(DCMotor, type(self)).driving_torque.fset(self, load_torque)', 'C02.forwarding')
mutant('C01', 'motor-speed-setter-forwards-to-position', DC, 'super(DCMotor, type(self)).angular_speed.fset(self, angular_speed)', 'super(DCMotor, type(self)).angular_position.fset(self, angular_speed)', 'C01.forwarding')
mutant('C17', 'motor-torque-getter-forwards-to-load', DC, '        return super().torque\n', '        return super().load_torque\n', 'C17.forwarding')
mutant('C14', 'add-rule-does-not-append', 'gearpy/motor_control/pwm_control.py', 'self.__rules.append(rule)', 'self.__rules = [rule]', 'C14.shape')
mutant('C14', 'pwm-initialised-out-of-range', DC, '        self.__pwm = 1\n', '        self.__pwm = 2\n', 'C14.range')
benign('C14', 'pwm-initialised-through-setter', DC, '        self.__pwm = 1\n', '        self.pwm = 1\n')

# ------------------------------------------------------------------------------------------ C20 comprehension forms (round 2)
_SCAN = """        self.__self_locking = False
        for element in self.elements:
            if isinstance(element, WormGear):
                if element.self_locking:
                    self.__self_locking = True
"""
benign('C20', 'scan-as-any', PT, _SCAN, """        self.__self_locking = any(isinstance(element, WormGear) and element.self_locking for element in self.elements)
""")
mutant('C20', 'scan-first-worm-only', PT, _SCAN, """        worm_gear = next((element for element in self.elements if isinstance(element, WormGear)), None)
        self.__self_locking = worm_gear is not None and worm_gear.self_locking is True
""", 'C20.locking')
mutant('C20', 'scan-any-gear', PT, _SCAN, """        self.__self_locking = any(isinstance(element, WormGear) for element in self.elements)
""", 'C20.locking')

# ------------------------------------------------------------------------------------------ C12 hidden state outside the elements (round 2)
mutant('C12', 'rule-remembers-expiry', 'gearpy/motor_control/rules/constant_pwm.py', "        if self.__timer.is_active(current_time=self.__powertrain.time[-1]):\n            return self.__target_pwm_value\n", "        if getattr(self, '_done', False):\n            return None\n        if self.__timer.is_active(current_time=self.__powertrain.time[-1]):\n            return self.__target_pwm_value\n        self._done = self.__powertrain.time[-1] >= self.__timer.start_time\n", 'C12.reset')

# ------------------------------------------------------------------------------------------ C18 export cells (round 2)
_EXPCOL = """            data[f'{variable} ({unit})'] = [
                variable_snapshot.to(unit).value
                for variable_snapshot
                in rotating_object.time_variables[variable]
            ]
"""
mutant('C18', 'export-factor-from-first-sample', EXP, _EXPCOL, """            samples = rotating_object.time_variables[variable]
            factor = 1
            if samples:
                factor = type(samples[0])(1, samples[0].unit).to(unit).value
            data[f'{variable} ({unit})'] = [variable_snapshot.value*factor for variable_snapshot in samples]
""", 'C18.export')
benign('C18', 'export-column-via-local', EXP, _EXPCOL, """            samples = rotating_object.time_variables[variable]
            data[f'{variable} ({unit})'] = [sample.to(unit).value for sample in samples]
""")
mutant('C18', 'export-raw-values', EXP, _EXPCOL, """            data[f'{variable} ({unit})'] = [s.value for s in rotating_object.time_variables[variable]]
""", 'C18.export')

# ------------------------------------------------------------------------------------------ C20 duplicate names, semantic (round 2)
_DUP = """        counts = Counter([element.name for element in elements])
        for name, count in counts.items():
            if count > 1:
                raise NameError(
                    f"Found {count} elements with the same name {name!r}, "
                    f"each element must have a unique name."
                )
"""
benign('C20', 'duplicates-by-set-size', PT, _DUP, """        names = [element.name for element in elements]
        if len(set(names)) != len(names):
            raise NameError("each element must have a unique name.")
""")
benign('C20', 'duplicates-by-seen-set', PT, _DUP, """        seen = set()
        for element in elements:
            if element.name in seen:
                raise NameError("each element must have a unique name.")
            seen.add(element.name)
""")
mutant('C20', 'duplicates-adjacent-only', PT, _DUP, """        names = [element.name for element in elements]
        for first, second in zip(names, names[1:]):
            if first == second:
                raise NameError("each element must have a unique name.")
""", 'C20.rejects')
mutant('C20', 'duplicates-more-than-two', PT, "            if count > 1:\n                raise NameError(", "            if count > 2:\n                raise NameError(", 'C20.rejects')
benign('C20', 'walk-with-cursor', PT, """        elements = [motor]
        while elements[-1].drives is not None:
            elements.append(elements[-1].drives)
""", """        elements = []
        cursor = motor
        while cursor is not None:
            elements.append(cursor)
            cursor = cursor.drives
""")
mutant('C20', 'walk-with-cursor-drops-last', PT, """        elements = [motor]
        while elements[-1].drives is not None:
            elements.append(elements[-1].drives)
""", """        elements = []
        cursor = motor
        while cursor.drives is not None:
            elements.append(cursor)
            cursor = cursor.drives
""", 'C20.walk')

# ------------------------------------------------------------------------------------------ C15 efficiency product over all matings
mutant('C15', 'efficiency-skips-worm-gear:static-error (pre-fix shape)', RUTIL, "        if isinstance(element, SpurGear | WormGear):\n", "        if isinstance(element, SpurGear):\n", 'C15.value', nth=0)
mutant('C15', 'efficiency-skips-worm-gear:pwm-min (pre-fix shape)', RUTIL, "        if isinstance(element, SpurGear | WormGear):\n", "        if isinstance(element, SpurGear):\n", 'C15.value', nth=1)
mutant('C15', 'efficiency-only-helical', RUTIL, "        if isinstance(element, SpurGear | WormGear):\n", "        if isinstance(element, HelicalGear | WormGear):\n", 'C15.value', nth=0)
benign('C15', 'efficiency-filter-by-hasattr', RUTIL, "        if isinstance(element, SpurGear | WormGear):\n", "        if hasattr(element, 'master_gear_efficiency'):\n", nth=0)

# ------------------------------------------------------------------------------------------ C18 admission and initial columns (sweep C)
mutant('C18', 'snapshot-rejects-first-instant', PT, "if (target_time < min(self.time)) or (target_time > max(self.time)):", "if (target_time <= min(self.time)) or (target_time > max(self.time)):", 'C18.range')
mutant('C18', 'snapshot-rejects-last-instant', PT, "if (target_time < min(self.time)) or (target_time > max(self.time)):", "if (target_time < min(self.time)) or (target_time >= max(self.time)):", 'C18.range')
benign('C18', 'snapshot-range-chained', PT, "if (target_time < min(self.time)) or (target_time > max(self.time)):", "if not (min(self.time) <= target_time <= max(self.time)):")
mutant('C18', 'snapshot-initial-columns-inverted', PT, "            if UNITS[variable] != '' else variable for variable in variables", "            if UNITS[variable] == '' else variable for variable in variables", 'C18.pairing')

# ------------------------------------------------------------------------------------------ C19 boundary exactness (sweep C)
mutant('C19', 'minimum-teeth-rejected', MB, "        if n_teeth < MINIMUM_TEETH_NUMBER:", "        if n_teeth <= MINIMUM_TEETH_NUMBER:", 'C19.boundary')
mutant('C19', 'worm-max-helix-rejected', WG, "        if helix_angle > maximum_helix_angle:", "        if helix_angle >= maximum_helix_angle:", 'C19.boundary')
mutant('C19', 'wheel-max-helix-rejected', WW, "        if helix_angle > maximum_helix_angle:", "        if helix_angle >= maximum_helix_angle:", 'C19.boundary')
benign('C19', 'minimum-teeth-negated-form', MB, "        if n_teeth < MINIMUM_TEETH_NUMBER:", "        if not n_teeth >= MINIMUM_TEETH_NUMBER:")

# ------------------------------------------------------------------------------------------ trig methods (sweep D)
mutant('C09', 'angle-cos-forwards-to-sin', UN, "        return super().cos(frequency=frequency)", "        return super().sin(frequency=frequency)", 'C09.trig')
mutant('C10', 'tan-of-degrees', UN, "        return tan(2*pi*frequency*self.to('rad').value)", "        return tan(2*pi*frequency*self.value)", 'C10.trig')
mutant('C09', 'default-frequency-wrong', UN, "    def cos(self, frequency: Optional[float | int] = 1/2/pi) -> float:", "    def cos(self, frequency: Optional[float | int] = 1/2*pi) -> float:", 'C09.trig', nth=0)
mutant('C19', 'angle-zero-rejected', UN, "        if value < 0:\n            raise ValueError(\"Parameter 'value' must be positive or null.\")", "        if value <= 0:\n            raise ValueError(\"Parameter 'value' must be positive or null.\")", 'C19.boundary')

# ------------------------------------------------------------------------------------------ C05 constructors store what they are given (sweep D)
mutant('C05', 'torque-ctor-stores-abs', UN, "        self.__value = value\n        self.__unit = unit\n", "        self.__value = abs(value)\n        self.__unit = unit\n", 'C05.ctor', nth=5)
mutant('C05', 'ctor-drops-unit', UN, "        self.__value = value\n        self.__unit = unit\n", "        self.__value = value\n", 'C05.ctor', nth=3)

# ------------------------------------------------------------------------------------------ C12 pre-run state read at instant 0
mutant('C12', 'control-before-load-torque', SV, "        self._compute_load_torque()\n        self._compute_motor_control(motor_control=motor_control)\n", "        self._compute_motor_control(motor_control=motor_control)\n        self._compute_load_torque()\n", 'C12.reset')

# ------------------------------------------------------------------------------------------ round 3: dependencies and lookups
mutant('C07', 'pressure-angle-compared-other-way-round', WG, "        if pressure_angle not in WORM_GEAR_AND_WHEEL_AVAILABLE_PRESSURE_ANGLES:", "        if not any(pressure_angle == available for available in WORM_GEAR_AND_WHEEL_AVAILABLE_PRESSURE_ANGLES):", 'C07.tolerance-side')
benign('C07', 'pressure-angle-any-constant-left', WG, "        if pressure_angle not in WORM_GEAR_AND_WHEEL_AVAILABLE_PRESSURE_ANGLES:", "        if not any(available == pressure_angle for available in WORM_GEAR_AND_WHEEL_AVAILABLE_PRESSURE_ANGLES):")
mutant('C07', 'lt-uses-ne-predicate', UB, "            return self.value - other.to(\n                self.unit\n            ).value < -COMPARISON_TOLERANCE", "            return fabs(self.value - other.to(self.unit).value) > COMPARISON_TOLERANCE", 'C07.dep.cmp')
mutant('C09', 'lewis-lookup-by-searchsorted', MB, "    return WORM_GEAR_AND_WHEEL_DATA.loc[\n        WORM_GEAR_AND_WHEEL_AVAILABLE_PRESSURE_ANGLES.index(pressure_angle),\n        'Lewis Factor'\n    ]", "    row = WORM_GEAR_AND_WHEEL_DATA['Pressure Angle'].searchsorted(pressure_angle.to('deg').value)\n    return WORM_GEAR_AND_WHEEL_DATA.loc[row, 'Lewis Factor']", 'C09.worm-table.key')
mutant('C11', 'time-interval-radd-wrong-unit', UN, "    def __sub__(self, other: Time | TimeInterval) -> Time | TimeInterval:\n        super().__sub__(other=other)", "    def __radd__(self, other):\n        return Time(value=other.to(self.__unit).value + self.__value, unit=other.unit)\n\n    def __sub__(self, other: Time | TimeInterval) -> Time | TimeInterval:\n        super().__sub__(other=other)", 'C11.dep.arith')
mutant('C03', 'instants-spaced-T-over-n', SV, "initial_time + k*time_discretization", "initial_time + k*(simulation_time/simulation_steps)", 'C03.euler.grid')
mutant('C08', 'current-divides-by-zero-torque (pre-fix shape)', DC, "        if maximum_torque.value == 0:\n            load_factor = 0\n        else:\n            load_factor = self.driving_torque/maximum_torque\n", "        load_factor = self.driving_torque/maximum_torque\n", 'C08.boundary-division')

# ------------------------------------------------------------------------------------------ stepping loop over a pre-computed list of instants (false alarm met while probing)
_STEP = """        for k in range(1, simulation_steps + 1):

            self.__powertrain.update_time(
                initial_time + k*time_discretization
            )
"""
_STEP_LIST = """        instants = [initial_time + k*time_discretization for k in range(1, simulation_steps + 1)]
        for instant in instants:
            self.__powertrain.update_time(instant)
"""
for _pid in ('C01', 'C03', 'C11', 'C16', 'C17'):
    benign(_pid, 'stepping-over-precomputed-instants', SV, _STEP, _STEP_LIST)
mutant('C11', 'precomputed-instants-one-short', SV, _STEP, _STEP_LIST.replace('range(1, simulation_steps + 1)', 'range(1, simulation_steps)'), 'C11')

# ------------------------------------------------------------------------------------------ C15 rules defined on every state
mutant('C15', 'static-error-scales-angle (pre-fix shape)', RUTIL, """        static_error = AngularPosition(
            value=(
                (load_torque/maximum_torque)/powertrain_efficiency
            )*braking_angle.value,
            unit=braking_angle.unit
        )
""", """        static_error = (
            (load_torque/maximum_torque)/powertrain_efficiency
        )*braking_angle
""", 'C15.defined')

# ------------------------------------------------------------------------------------------ C18 snapshot spellings (false alarm met while probing)
_SNAP = """                if variable in variables:
                    interpolation_function = interp1d(
                        x=[instant.to('sec').value for instant in self.time],
                        y=[
                            value.to(unit).value
                            for value in element.time_variables[variable]
                        ]
                    )
                    data.loc[element.name, f'{variable} ({unit})'] = \\
                        interpolation_function(
                        target_time.to('sec').value
                    ).take(0)
"""
benign('C18', 'snapshot-abscissae-and-samples-in-locals', PT, _SNAP, """                if variable in variables:
                    seconds = [instant.to('sec').value for instant in self.time]
                    samples = [value.to(unit).value for value in element.time_variables[variable]]
                    interpolation_function = interp1d(x=seconds, y=samples)
                    data.loc[element.name, f'{variable} ({unit})'] = \\
                        interpolation_function(target_time.to('sec').value).take(0)
""")
benign('C18', 'snapshot-inline-interp-in-ms', PT, _SNAP, """                if variable in variables:
                    data.loc[element.name, f'{variable} ({unit})'] = interp1d(
                        [instant.to('ms').value for instant in self.time],
                        [value.to(unit).value for value in element.time_variables[variable]]
                    )(target_time.to('ms').value).take(0)
""")
mutant('C18', 'snapshot-abscissae-ms-query-sec', PT, _SNAP, """                if variable in variables:
                    data.loc[element.name, f'{variable} ({unit})'] = interp1d(
                        [instant.to('ms').value for instant in self.time],
                        [value.to(unit).value for value in element.time_variables[variable]]
                    )(target_time.to('sec').value).take(0)
""", 'C18.interp')
mutant('C17', 'current-unassigned-in-dead-zone-when-i0-zero', DC, """            if pwm_min == 0:
                self.electric_current = Current(
                    value=0,
                    unit=self.maximum_electric_current.unit
                )
            else:""", """            if pwm_min == 0:
                return
            else:""", 'C17.computed')

# ------------------------------------------------------------------------------------------ stepping loop spelled with a counter
_STEP_FULL = """        for k in range(1, simulation_steps + 1):

            self.__powertrain.update_time(
                initial_time + k*time_discretization
            )
            self._time_integration(time_discretization=time_discretization)
            self._compute_powertrain_variables(motor_control=motor_control)
            if stop_condition is not None:
                if stop_condition.check_condition():
                    break
"""
_STEP_WHILE = """        k = 1
        while k <= simulation_steps:
            self.__powertrain.update_time(initial_time + k*time_discretization)
            self._time_integration(time_discretization=time_discretization)
            self._compute_powertrain_variables(motor_control=motor_control)
            if stop_condition is not None and stop_condition.check_condition():
                break
            k += 1
"""
for _pid in ('C01', 'C03', 'C11', 'C12', 'C16', 'C17'):
    benign(_pid, 'stepping-with-a-counting-while', SV, _STEP_FULL, _STEP_WHILE)
mutant('C11', 'counting-while-one-short', SV, _STEP_FULL, _STEP_WHILE.replace('while k <= simulation_steps', 'while k < simulation_steps'), 'C11.grid')

# ------------------------------------------------------------------------------------------ round-4 rules
mutant('C05', 'interval-to-inplace-stale-unit', UN, "            super().to(target_unit=target_unit, inplace=True)\n            self.__value = converted.value\n            self.__unit = converted.unit\n", "            super().to(target_unit=target_unit, inplace=True)\n            self.__value = converted.value\n", 'C05.to')
mutant('C11', 'interval-to-inplace-stale-unit', UN, "            super().to(target_unit=target_unit, inplace=True)\n            self.__value = converted.value\n            self.__unit = converted.unit\n", "            super().to(target_unit=target_unit, inplace=True)\n            self.__value = converted.value\n", 'C11.dep.arith')
mutant('C07', 'quantities-hashable-by-value', UB, "    def __ne__(self, other: UnitBase) -> None:",
       "    def __hash__(self):\n        return hash((self.__class__.__name__, self.value, self.unit))\n\n    def __ne__(self, other: UnitBase) -> None:", 'C07.hash-key')
mutant('C06', 'inertia-inplace-mul', UN, "class InertiaMoment(UnitBase):", "class InertiaMoment(UnitBase):\n\n    def __imul__(self, other):\n        self.__value = self.__value*other\n        return self\n", 'C06.operands')
mutant('C12', 'inertia-inplace-mul', UN, "class InertiaMoment(UnitBase):", "class InertiaMoment(UnitBase):\n\n    def __imul__(self, other):\n        self.__value = self.__value*other\n        return self\n", 'C12.dep.arith')
mutant('C12', 'reset-early-return', PT, "        self.__time = []\n\n        for element in self.elements:", "        if not self.__time:\n            return\n        self.__time = []\n\n        for element in self.elements:", 'C12.reset')
mutant('C17', 'reset-early-return', PT, "        self.__time = []\n\n        for element in self.elements:", "        if not self.__time:\n            return\n        self.__time = []\n\n        for element in self.elements:", 'C17.reset')
multi('C15', 'rule-keeps-time-list', 'mutant', [
    (CP, "        self.__powertrain = powertrain\n", "        self.__powertrain = powertrain\n        self.__time = powertrain.time\n"),
    (CP, "current_time=self.__powertrain.time[-1]", "current_time=self.__time[-1]")], 'C15.pure')
mutant('C13', 'control-before-lock-decision', SV, "        self._compute_angular_position_and_speed()\n        self._check_powertrain_is_locked()",
       "        self._compute_angular_position_and_speed()\n        self._compute_motor_control(motor_control=motor_control)\n        self._check_powertrain_is_locked()", 'C13.clamp')
multi('C17', 'pwm-samples-in-private-list', 'mutant', [
    (DC, "        self.__pwm = 1\n", "        self.__pwm = 1\n        self.__pwm_samples = []\n"),
    (DC, "        if 'pwm' not in self.time_variables.keys():\n            self.time_variables['pwm'] = [self.pwm]\n        else:\n            self.time_variables['pwm'].append(self.pwm)\n",
     "        self.__pwm_samples.append(self.pwm)\n        self.time_variables.setdefault('pwm', self.__pwm_samples)\n")], 'C17')
mutant('C18', 'export-splitext', EXP, "    if not file_path.endswith('.csv'):\n        file_path += '.csv'\n", "    file_path = os.path.splitext(file_path)[0] + '.csv'\n", 'C18.export')
benign('C18', 'export-suffix-conditional-expression', EXP, "    if not file_path.endswith('.csv'):\n        file_path += '.csv'\n", "    file_path = file_path if file_path.endswith('.csv') else file_path + '.csv'\n")
benign('C15', 'rule-keeps-motor-reference', CP, "        self.__powertrain = powertrain\n", "        self.__powertrain = powertrain\n        self.__elements = powertrain.elements\n")

mutant('C05', 'angle-ctor-forgets-private-value', UN, "        self.__value = value\n        self.__unit = unit\n", "        self.__unit = unit\n", 'C05.ctor', nth=1)
mutant('C06', 'angle-ctor-forgets-private-value', UN, "        self.__value = value\n        self.__unit = unit\n", "        self.__unit = unit\n", 'C06.conv.ctor', nth=1)
mutant('C05', 'to-membership-inverted', UN, "        if target_unit not in self.__UNITS.keys():", "        if target_unit in self.__UNITS.keys():", 'C05.to', nth=0)
mutant('C05', 'to-inplace-by-default', UN, "inplace: bool = False", "inplace: bool = True", 'C05.to', nth=0)
mutant('C06', 'to-inplace-by-default', UN, "inplace: bool = False", "inplace: bool = True", 'C06.conv.to', nth=0)
multi('C12', 'static-error-memoised', 'mutant', [
    (RUTIL, "def _compute_static_error(", "@lru_cache(maxsize=None)\ndef _compute_static_error("),
    (RUTIL, "from gearpy.powertrain import Powertrain", "from functools import lru_cache\nfrom gearpy.powertrain import Powertrain")], 'C12.reset')
multi('C15', 'static-error-memoised', 'mutant', [
    (RUTIL, "def _compute_static_error(", "@lru_cache(maxsize=None)\ndef _compute_static_error("),
    (RUTIL, "from gearpy.powertrain import Powertrain", "from functools import lru_cache\nfrom gearpy.powertrain import Powertrain")], 'C15.pure')

# ------------------------------------------------------------------------------------------ round-5 rules
EQ_OLD = """            return fabs(
                self.value - other.to(self.unit).value
            ) < COMPARISON_TOLERANCE"""
benign('C05', 'eq-as-chained-band-on-difference', UB, EQ_OLD, """            difference = self.value - other.to(self.unit).value
            return -COMPARISON_TOLERANCE < difference < COMPARISON_TOLERANCE""")
benign('C05', 'eq-as-two-returns', UB, EQ_OLD, """            difference = self.value - other.to(self.unit).value
            if difference >= COMPARISON_TOLERANCE:
                return False
            return difference > -COMPARISON_TOLERANCE""")
mutant('C05', 'eq-band-closed-on-one-side', UB, EQ_OLD, """            difference = self.value - other.to(self.unit).value
            return -COMPARISON_TOLERANCE <= difference < COMPARISON_TOLERANCE""", 'C05.cmp')
mutant('C05', 'eq-tolerance-added-to-operand', UB, EQ_OLD, """            return self.value - COMPARISON_TOLERANCE \\
                < other.to(self.unit).value \\
                < self.value + COMPARISON_TOLERANCE""", 'C05.cmp')
mutant('C16', 'eq-tolerance-added-to-operand', UB, EQ_OLD, """            return self.value - COMPARISON_TOLERANCE \\
                < other.to(self.unit).value \\
                < self.value + COMPARISON_TOLERANCE""", 'C16.dep.cmp')
mutant('C08', 'branch-by-truth-arithmetic', DC, "        if abs(self.pwm) <= pwm_min:\n            if pwm_min == 0:", "        if (self.pwm >= -pwm_min) + (self.pwm > pwm_min) == 1:\n            if pwm_min == 0:", 'C08.boundary-tests')
mutant('C11', 'continuation-guard-by-identity', SV, "        if self.__powertrain.time:\n            initial_time = self.__powertrain.time[-1]",
       "        if self.__powertrain.time:\n            if len(self.__powertrain.time) is not len(self.__powertrain.elements[-1].time_variables['angular position']):\n                raise ValueError('not aligned')\n            initial_time = self.__powertrain.time[-1]", 'C11.count')
mutant('C01', 'reset-shares-one-list', PT, "            for variable in element.time_variables.keys():\n                element.time_variables[variable] = []\n",
       "            element.time_variables.update(dict.fromkeys(element.time_variables, []))\n", 'C01.recorded.reset')
mutant('C06', 'interval-times-speed-guarded-on-result', UN, "    def __mul__(self, other: float | int) -> TimeInterval:\n        super().__mul__(other=other)\n\n        if other <= 0:",
       "    def __mul__(self, other):\n        result = super().__mul__(other=other)\n        if not isinstance(result, Time):\n            if result.value <= 0:\n                raise ValueError('negative')\n            return result\n\n        if other <= 0:", 'C06.kind')
mutant('C08', 'zero-torque-guard-tests-another-value', DC, "        if maximum_torque.value == 0:", "        if maximum_torque.value == 1:", 'C08.boundary-division')

# ------------------------------------------------------------------------------------------ round-6 rules
mutant('C06', 'neg-through-multiplication', UB, "        return self.__class__(-self.value, self.unit)", "        return self*(-1)", 'C06.neg')
mutant('C05', 'table-key-written-twice', UN, "        'mNmm': 1e-6,", "        'mNmm': 1e-6,\n        'mNmm': 1e-3,", 'C05.table')
multi('C11', 'time-grid-in-mutable-default', 'mutant', [
    (SV, "    def _compute_powertrain_inertia(self):", "    def _grid(self, items, grid=[]):\n        grid.extend(items)\n        return grid\n\n    def _compute_powertrain_inertia(self):")], 'C11.hidden-state')

# ------------------------------------------------------------------------------------------ round-6 wave-B rules
mutant('C15', 'fallback-before-computed-by-or', SPP, """        if computed_pwm_min != 0:
            pwm_min = computed_pwm_min
        else:
            if self.__pwm_min is None:
                raise ValueError("Missing 'pwm_min' parameter.")
            pwm_min = self.__pwm_min
""", """        pwm_min = self.__pwm_min or computed_pwm_min
        if not pwm_min:
            raise ValueError("Missing 'pwm_min' parameter.")
""", 'C15')
benign('C15', 'computed-before-fallback-by-or', SPP, """        if computed_pwm_min != 0:
            pwm_min = computed_pwm_min
        else:
            if self.__pwm_min is None:
                raise ValueError("Missing 'pwm_min' parameter.")
            pwm_min = self.__pwm_min
""", """        pwm_min = computed_pwm_min or self.__pwm_min
        if pwm_min is None:
            raise ValueError("Missing 'pwm_min' parameter.")
""")
multi('C14', 'conflict-only-between-neighbours', 'mutant', [
    (PC, "from gearpy.powertrain import Powertrain\n", "from itertools import pairwise\nfrom gearpy.powertrain import Powertrain\n"),
    (PC, "        if applied_rules >= 2:", "        if any(first is not None and second is not None for first, second in pairwise(pwm_values)):")], 'C14.shape')
multi('C19', 'constructor-stores-unvalidated-pwm', 'mutant', [
    (DC, "        maximum_electric_current: Optional[Current] = None\n    ):", "        maximum_electric_current: Optional[Current] = None,\n        pwm: float | int = 1\n    ):"),
    (DC, "        self.__pwm = 1\n", "        self.__pwm = pwm\n")], 'C19')
multi('C12', 'fresh-start-flag-cleared-in-module-helper', 'mutant', [
    (SV, "            self.__powertrain_is_locked = False\n            self.__powertrain.update_time(initial_time)\n",
         "            _start(self, initial_time)\n"),
    (SV, "\nclass Solver:", "\ndef _start(solver, initial_time):\n    solver.__powertrain_is_locked = False\n    solver._Solver__powertrain.update_time(initial_time)\n\n\nclass Solver:")], 'C12')
multi('C17', 'recorder-through-closures-kept-on-the-gear', 'mutant', [
    (SG, "        if self.tangential_force_is_computable:\n            self.time_variables['tangential force'] = []\n",
         "        self.__samplers = {}\n        if self.tangential_force_is_computable:\n            self.time_variables['tangential force'] = []\n"
         "            self.__samplers['tangential force'] = lambda: self.tangential_force\n")], 'C17.hidden-state')
mutant('C12', 'pwm-restored-in-finally', SV, """        for k in range(1, simulation_steps + 1):

            self.__powertrain.update_time(
                initial_time + k*time_discretization
            )
            self._time_integration(time_discretization=time_discretization)
            self._compute_powertrain_variables(motor_control=motor_control)
            if stop_condition is not None:
                if stop_condition.check_condition():
                    break
""", """        motor = self.__powertrain.elements[0]
        motor_pwm = motor.pwm
        try:
            for k in range(1, simulation_steps + 1):

                self.__powertrain.update_time(
                    initial_time + k*time_discretization
                )
                self._time_integration(time_discretization=time_discretization)
                self._compute_powertrain_variables(motor_control=motor_control)
                if stop_condition is not None:
                    if stop_condition.check_condition():
                        break
        finally:
            if motor_control is not None:
                motor.pwm = motor_pwm
""", 'C12')
benign('C12', 'stepping-loop-in-try-finally-pass', SV, """        for k in range(1, simulation_steps + 1):

            self.__powertrain.update_time(
                initial_time + k*time_discretization
            )
            self._time_integration(time_discretization=time_discretization)
            self._compute_powertrain_variables(motor_control=motor_control)
            if stop_condition is not None:
                if stop_condition.check_condition():
                    break
""", """        try:
            for k in range(1, simulation_steps + 1):

                self.__powertrain.update_time(
                    initial_time + k*time_discretization
                )
                self._time_integration(time_discretization=time_discretization)
                self._compute_powertrain_variables(motor_control=motor_control)
                if stop_condition is not None:
                    if stop_condition.check_condition():
                        break
        finally:
            pass
""")
SCAN_OLD = """        self.__self_locking = False
        for element in self.elements:
            if isinstance(element, WormGear):
                if element.self_locking:
                    self.__self_locking = True
"""
mutant('C20', 'flag-as-not-all-is-false', PT, SCAN_OLD, """        worm_gears = [element for element in self.elements if isinstance(element, WormGear)]
        self.__self_locking = not all(worm_gear.self_locking is False for worm_gear in worm_gears)
""", 'C20.locking')
benign('C20', 'flag-as-not-all-not-locking', PT, SCAN_OLD, """        worm_gears = [element for element in self.elements if isinstance(element, WormGear)]
        self.__self_locking = not all(not worm_gear.self_locking for worm_gear in worm_gears)
""")
mutant('C13', 'flag-as-not-all-is-false', PT, SCAN_OLD, """        worm_gears = [element for element in self.elements if isinstance(element, WormGear)]
        self.__self_locking = not all(worm_gear.self_locking is False for worm_gear in worm_gears)
""", 'C13.flag-source')
_PWM_COUNT_OLD = """        pwm_values = [rule.apply() for rule in self.__rules]
        applied_rules = sum(
            [pwm_value is not None for pwm_value in pwm_values]
        )
        if applied_rules >= 2:"""
_PWM_PICK_OLD = """        elif applied_rules == 1:
            pwm = [
                self._saturate_pwm(pwm_value)
                for pwm_value in pwm_values if pwm_value is not None
            ][0]"""
_PWM_PICK_NEW = """        elif len(applied_rules) == 1:
            pwm = [
                self._saturate_pwm(pwm_value)
                for pwm_value in applied_rules.values()
            ][0]"""
multi('C14', 'proposals-in-dict-keyed-by-rule-kind', 'mutant', [
    (PC, _PWM_COUNT_OLD, """        pwm_values = {rule.__class__.__name__: rule.apply() for rule in self.__rules}
        applied_rules = {name: value for name, value in pwm_values.items() if value is not None}
        if len(applied_rules) >= 2:"""), (PC, _PWM_PICK_OLD, _PWM_PICK_NEW)], 'C14.shape')
multi('C14', 'proposals-in-dict-keyed-by-position', 'benign', [
    (PC, _PWM_COUNT_OLD, """        pwm_values = {f'{position}:{rule.__class__.__name__}': rule.apply() for position, rule in enumerate(self.__rules)}
        applied_rules = {name: value for name, value in pwm_values.items() if value is not None}
        if len(applied_rules) >= 2:"""), (PC, _PWM_PICK_OLD, _PWM_PICK_NEW)])
_GE_OLD = """            return self.value - other.to(
                self.unit
            ).value >= -COMPARISON_TOLERANCE
"""
multi('C05', 'ge-by-isclose-default-relative-tolerance', 'mutant', [
    (UB, "from math import fabs\n", "from math import fabs, isclose\n"),
    (UB, _GE_OLD, """            other_value = other.to(self.unit).value
            return self.value > other_value or isclose(self.value, other_value, abs_tol=COMPARISON_TOLERANCE)
""")], 'C05.cmp')
multi('C05', 'ge-by-isclose-absolute-only', 'benign', [
    (UB, "from math import fabs\n", "from math import fabs, isclose\n"),
    (UB, _GE_OLD, """            other_value = other.to(self.unit).value
            return self.value > other_value or isclose(self.value, other_value, rel_tol=0.0, abs_tol=COMPARISON_TOLERANCE)
""")])
mutant('C14', 'range-guard-by-abs-greater-lets-nan-in', DC, "        if not (-1 <= pwm <= 1):", "        if abs(pwm) > 1:", 'C14.range')
benign('C14', 'range-guard-by-not-abs-le', DC, "        if not (-1 <= pwm <= 1):", "        if not abs(pwm) <= 1:")
benign('C19', 'range-guard-by-not-abs-le', DC, "        if not (-1 <= pwm <= 1):", "        if not abs(pwm) <= 1:")
multi('C20', 'scan-fused-into-the-chain-walk', 'benign', [
    (PT, "        while elements[-1].drives is not None:\n            elements.append(elements[-1].drives)\n",
         "        self_locking = False\n        element = motor\n        while element.drives is not None:\n            element = element.drives\n"
         "            elements.append(element)\n            if isinstance(element, WormGear) and element.self_locking:\n                self_locking = True\n"),
    (PT, SCAN_OLD, "        self.__self_locking = self_locking\n")])
multi('C20', 'scan-fused-into-the-chain-walk-one-step-behind', 'mutant', [
    (PT, "        while elements[-1].drives is not None:\n            elements.append(elements[-1].drives)\n",
         "        self_locking = False\n        element = motor\n        while element.drives is not None:\n"
         "            if isinstance(element, WormGear) and element.self_locking:\n                self_locking = True\n"
         "            element = element.drives\n            elements.append(element)\n"),
    (PT, SCAN_OLD, "        self.__self_locking = self_locking\n")], 'C20.locking')
_PWM_ALL_OLD = """        applied_rules = sum(
            [pwm_value is not None for pwm_value in pwm_values]
        )
        if applied_rules >= 2:
            raise ValueError(
                "At least two rules are simultaneously applicable. Check PWM "
                "rules conditions."
            )
        elif applied_rules == 1:
            pwm = [
                self._saturate_pwm(pwm_value)
                for pwm_value in pwm_values if pwm_value is not None
            ][0]
        else:
            pwm = 1
"""
benign('C14', 'arbitration-by-consuming-a-generator', PC, _PWM_ALL_OLD, """        applicable = (pwm_value for pwm_value in pwm_values if pwm_value is not None)
        if (single := next(applicable, None)) is None:
            pwm = 1
        elif any(True for _ in applicable):
            raise ValueError("At least two rules are simultaneously applicable. Check PWM rules conditions.")
        else:
            pwm = self._saturate_pwm(single)
""")
mutant('C14', 'arbitration-by-re-reading-a-list', PC, _PWM_ALL_OLD, """        applicable = [pwm_value for pwm_value in pwm_values if pwm_value is not None]
        if (single := next(iter(applicable), None)) is None:
            pwm = 1
        elif any(True for _ in applicable):
            raise ValueError("At least two rules are simultaneously applicable. Check PWM rules conditions.")
        else:
            pwm = self._saturate_pwm(single)
""", 'C14.shape')
multi('C14', 'reraising-handler-off-the-control-path', 'benign', [
    (PC, "        super().add_rule(rule=rule)\n\n        self.__rules.append(rule)\n",
         "        try:\n            super().add_rule(rule=rule)\n        except TypeError:\n            raise\n        else:\n            self.__rules.append(rule)\n")])
_LOCK_SITE = ("        self._check_powertrain_is_locked()\n", "        self.__powertrain_is_locked = self._check_powertrain_is_locked()\n")
_LOCK_SET = ("            self.__powertrain_is_locked = True\n            return\n", "            return True\n")
_LOCK_REL_OLD = """        if motor.torque is not None:
            if (motor.torque > NULL_TORQUE and motor.pwm > 0) or \\
                    (motor.torque < NULL_TORQUE and motor.pwm < 0):
                self.__powertrain_is_locked = False
"""
_LOCK_REL_NEW = """        released = motor.torque is not None and (
            (motor.torque > NULL_TORQUE and motor.pwm > 0) or
            (motor.torque < NULL_TORQUE and motor.pwm < 0)
        )
        return %s
"""
for _pid in ('C13', 'C03'):
    multi(_pid, 'lock-decision-returned-by-conditional-expression', 'benign', [
        (SV,) + _LOCK_SITE, (SV,) + _LOCK_SET, (SV, _LOCK_REL_OLD, _LOCK_REL_NEW % 'False if released else self.__powertrain_is_locked')])
multi('C13', 'lock-decision-returned-with-branches-swapped', 'mutant', [
    (SV,) + _LOCK_SITE, (SV,) + _LOCK_SET, (SV, _LOCK_REL_OLD, _LOCK_REL_NEW % 'self.__powertrain_is_locked if released else False')], 'C13')
_DRV_OLD = """        for i in range(1, len(self.__powertrain.elements)):
            self.__powertrain.elements[i].driving_torque = \\
                self.__powertrain.elements[i - 1].driving_torque * \\
                self.__powertrain.elements[i].master_gear_efficiency * \\
                self.__powertrain.elements[i].master_gear_ratio
"""
_IMP = (SV, "from typing import Optional\n", "from typing import Optional\nfrom itertools import pairwise\n")
multi('C02', 'driving-torque-by-pairwise', 'benign', [_IMP, (SV, _DRV_OLD, """        for driver, driven in pairwise(self.__powertrain.elements):
            driven.driving_torque = driver.driving_torque * driven.master_gear_efficiency * driven.master_gear_ratio
""")])
multi('C02', 'driving-torque-by-pairwise-drivers-efficiency', 'mutant', [_IMP, (SV, _DRV_OLD, """        for driver, driven in pairwise(self.__powertrain.elements):
            driven.driving_torque = driver.driving_torque * driver.master_gear_efficiency * driven.master_gear_ratio
""")], 'C02.driving')
multi('C02', 'driving-torque-by-pairwise-of-the-tail', 'mutant', [_IMP, (SV, _DRV_OLD, """        for driver, driven in pairwise(self.__powertrain.elements[1:]):
            driven.driving_torque = driver.driving_torque * driven.master_gear_efficiency * driven.master_gear_ratio
""")], 'C02')
_EFF_OLD = """    powertrain_efficiency = 1
    for element in powertrain.elements:
        if isinstance(element, SpurGear | WormGear):
            powertrain_efficiency *= element.master_gear_efficiency
"""
_RED_IMP = (RUTIL, "from gearpy.powertrain import Powertrain\n", "from gearpy.powertrain import Powertrain\nfrom functools import reduce\nfrom operator import imul\n")
multi('C15', 'efficiency-product-by-reduce', 'benign', [_RED_IMP, (RUTIL, _EFF_OLD, """    powertrain_efficiency = reduce(imul, (element.master_gear_efficiency for element in powertrain.elements
                                          if isinstance(element, SpurGear | WormGear)), 1)
""", 0)])
multi('C15', 'efficiency-product-by-reduce-spur-only', 'mutant', [_RED_IMP, (RUTIL, _EFF_OLD, """    powertrain_efficiency = reduce(imul, (element.master_gear_efficiency for element in powertrain.elements
                                          if isinstance(element, SpurGear)), 1)
""", 0)], 'C15')
multi('C15', 'efficiency-product-by-reduce-of-ratios', 'mutant', [_RED_IMP, (RUTIL, _EFF_OLD, """    powertrain_efficiency = reduce(imul, (element.master_gear_ratio for element in powertrain.elements
                                          if isinstance(element, SpurGear | WormGear)), 1)
""", 0)], 'C15')
for _pid in ('C19', 'C14'):
    multi(_pid, 'duty-cycle-stored-before-abs-range-check', 'mutant', [
        (DC, "        if not (-1 <= pwm <= 1):", "        self.__pwm = pwm\n\n        if not abs(self.__pwm) <= 1:"),
        (DC, "            )\n\n        self.__pwm = pwm\n", "            )\n")], _pid)
for _pid in ('C12', 'C01', 'C17'):
    benign(_pid, 'reset-update-with-a-fresh-list-per-key', PT, "            for variable in element.time_variables.keys():\n                element.time_variables[variable] = []\n",
           "            element.time_variables.update({variable: [] for variable in element.time_variables})\n")
benign('C16', 'stop-check-bool-is-true', SV, "                if stop_condition.check_condition():\n", "                if bool(stop_condition.check_condition()) is True:\n")
mutant('C16', 'stop-check-result-is-true', SV, "                if stop_condition.check_condition():\n", "                if stop_condition.check_condition() is True:\n", 'C16')
_LOAD_CALL_OLD = """                    external_torque = \\
                        self.__powertrain.elements[i].external_torque(
                            time=self.__powertrain.time[-1],
                            angular_position=self.__powertrain.elements[i].
                            angular_position,
                            angular_speed=self.__powertrain.elements[i].
                            angular_speed
                        )
"""
benign('C02', 'load-call-through-a-keyword-bundle', SV, _LOAD_CALL_OLD, """                    element = self.__powertrain.elements[i]
                    state = {'time': self.__powertrain.time[-1], 'angular_position': element.angular_position,
                             'angular_speed': element.angular_speed}
                    external_torque = element.external_torque(**state)
""")
mutant('C02', 'load-call-through-a-keyword-bundle-crossed', SV, _LOAD_CALL_OLD, """                    element = self.__powertrain.elements[i]
                    state = {'time': self.__powertrain.time[-1], 'angular_position': element.angular_speed,
                             'angular_speed': element.angular_position}
                    external_torque = element.external_torque(**state)
""", 'C02')

# ------------------------------------------------------------------------------------------ round-7 rules
mutant('C18', 'snapshot-gear-block-for-gearbase-or-wormgear', PT, "            if isinstance(element, GearBase | WormGear):", "            if isinstance(element, GearBase or WormGear):", 'C18.own-guard', nth=0)
benign('C18', 'snapshot-gear-block-by-tuple-of-classes', PT, "            if isinstance(element, GearBase | WormGear):", "            if isinstance(element, (GearBase, WormGear)):", nth=0)
mutant('C10', 'pressure-angles-compared-after-conversion', RL, "    if master.pressure_angle != slave.pressure_angle:",
       "    master_pressure_angle = master.pressure_angle.to('deg')\n    slave_pressure_angle = slave.pressure_angle.to('deg')\n    if master_pressure_angle != slave_pressure_angle:", 'C10.rejects')
benign('C10', 'pressure-angles-through-locals', RL, "    if master.pressure_angle != slave.pressure_angle:",
       "    master_pressure_angle = master.pressure_angle\n    slave_pressure_angle = slave.pressure_angle\n    if master_pressure_angle != slave_pressure_angle:")
mutant('C08', 'setter-super-of-the-objects-class', DC, "        super(DCMotor, type(self)).driving_torque.fset(self, driving_torque)", "        super(type(self), type(self)).driving_torque.fset(self, driving_torque)", 'C08.hidden-state')
mutant('C02', 'setter-super-of-the-objects-class', DC, "        super(DCMotor, type(self)).driving_torque.fset(self, driving_torque)", "        super(type(self), type(self)).driving_torque.fset(self, driving_torque)", 'C02')
multi('C20', 'cycle-guard-marks-left-on-rejected-chains', 'mutant', [
    (PT, "        while elements[-1].drives is not None:\n            elements.append(elements[-1].drives)\n",
         "        while elements[-1].drives is not None and not hasattr(elements[-1].drives, '_in_chain'):\n"
         "            elements[-1].drives._in_chain = True\n            elements.append(elements[-1].drives)\n"),
    (PT, "        self.__elements = tuple(elements)\n", "        for element in elements[1:]:\n            del element._in_chain\n\n        self.__elements = tuple(elements)\n")], 'C20.rejects')
multi('C20', 'scan-skipped-unless-a-counter-of-exact-types-has-a-worm', 'mutant', [
    (PT, SCAN_OLD, "        kinds = Counter(type(element) for element in elements)\n        self.__self_locking = kinds[WormGear] > 0 and any(\n"
                   "            element.self_locking for element in elements if isinstance(element, WormGear))\n")], 'C20')
mutant('C15', 'proposals-in-dict-keyed-by-rule-kind', PC, "        pwm_values = [rule.apply() for rule in self.__rules]\n",
       "        pwm_values = list({rule.__class__.__name__: rule.apply() for rule in self.__rules}.values())\n", 'C15.dep.arbitration')
for _pid in ('C07', 'C09'):
    mutant(_pid, 'face-width-cap-chosen-by-raw-numbers', WW, """            effective_face_width = min(
                self.face_width, 0.67*self.drives.reference_diameter
            )""", """            effective_face_width = min(
                self.face_width, 0.67*self.drives.reference_diameter,
                key=lambda width: width.value
            )""", _pid)
    benign(_pid, 'face-width-cap-chosen-by-si-key', WW, """            effective_face_width = min(
                self.face_width, 0.67*self.drives.reference_diameter
            )""", """            effective_face_width = min(
                self.face_width, 0.67*self.drives.reference_diameter,
                key=lambda width: width.to('m').value
            )""")
mutant('C17', 'pwm-sample-rounded', DC, "            self.time_variables['pwm'].append(self.pwm)", "            self.time_variables['pwm'].append(round(self.pwm, 6))", 'C17.one')

# ------------------------------------------------------------------------------------------ refactoring round 5
_EQ_GUARD = """        if not isinstance(other, self.__class__) and \\
                not issubclass(self.__class__, other.__class__):
            raise TypeError(
                f"Cannot compare {self.__class__.__name__} and "
                f"{other.__class__.__name__}."
            )

        if self.unit == other.unit:
            return self.value == other.value
"""
_DECO = """def _comparable_operands_only(comparison):
    @wraps(comparison)
    def guarded_comparison(self, other):
        if not isinstance(other, self.__class__) and \\
                not issubclass(self.__class__, other.__class__):
            raise TypeError(f"Cannot compare {self.__class__.__name__} and {other.__class__.__name__}.")

        return comparison(self, other)

    return guarded_comparison


class UnitBase(ABC):"""
multi('C05', 'eq-type-guard-in-a-decorator', 'benign', [
    (UB, "from math import fabs\n", "from functools import wraps\nfrom math import fabs\n"),
    (UB, "class UnitBase(ABC):", _DECO),
    (UB, "    def __eq__(self, other: UnitBase) -> None:\n" + _EQ_GUARD, "    @_comparable_operands_only\n    def __eq__(self, other: UnitBase) -> None:\n        if self.unit == other.unit:\n            return self.value == other.value\n")])
multi('C05', 'eq-type-guard-in-a-decorator-that-only-checks-isinstance', 'mutant', [
    (UB, "from math import fabs\n", "from functools import wraps\nfrom math import fabs\n"),
    (UB, "class UnitBase(ABC):", _DECO.replace("        if not isinstance(other, self.__class__) and \\\n                not issubclass(self.__class__, other.__class__):", "        if not isinstance(other, UnitBase):")),
    (UB, "    def __eq__(self, other: UnitBase) -> None:\n" + _EQ_GUARD, "    @_comparable_operands_only\n    def __eq__(self, other: UnitBase) -> None:\n        if self.unit == other.unit:\n            return self.value == other.value\n")], 'C05.cmp')
_START_OLD = """        if self.__powertrain.time:
            initial_time = self.__powertrain.time[-1]
        else:
"""
benign('C12', 'start-instant-by-star-pattern', SV, _START_OLD + """            initial_time = Time(value=0, unit=time_discretization.unit)
            self.__powertrain_is_locked = False
            self.__powertrain.update_time(initial_time)
            self._compute_powertrain_variables(motor_control=motor_control)
""", """        match self.__powertrain.time:
            case [*_, last_simulated_instant]:
                initial_time = last_simulated_instant
            case _:
                initial_time = Time(value=0, unit=time_discretization.unit)
                self.__powertrain_is_locked = False
                self.__powertrain.update_time(initial_time)
                self._compute_powertrain_variables(motor_control=motor_control)
""")
mutant('C12', 'start-instant-by-star-pattern-first-element', SV, _START_OLD + """            initial_time = Time(value=0, unit=time_discretization.unit)
            self.__powertrain_is_locked = False
            self.__powertrain.update_time(initial_time)
            self._compute_powertrain_variables(motor_control=motor_control)
""", """        match self.__powertrain.time:
            case [first_simulated_instant, *_]:
                initial_time = first_simulated_instant
            case _:
                initial_time = Time(value=0, unit=time_discretization.unit)
                self.__powertrain_is_locked = False
                self.__powertrain.update_time(initial_time)
                self._compute_powertrain_variables(motor_control=motor_control)
""", 'C12')
_SCAN_POS = """        locking_stage = next(
            (stage for stage, element in enumerate(self.elements[1:]) if isinstance(element, WormGear) and element.self_locking),
            None
        )
        self.__self_locking = %s
"""
benign('C20', 'scan-by-position-tested-against-none', PT, SCAN_OLD, _SCAN_POS % 'locking_stage is not None')
mutant('C20', 'scan-by-position-tested-for-truth', PT, SCAN_OLD, _SCAN_POS % 'bool(locking_stage)', 'C20.locking')
mutant('C13', 'scan-by-position-tested-for-truth', PT, SCAN_OLD, _SCAN_POS % 'bool(locking_stage)', 'C13.flag-source')
_WW_BEND_OLD = """        if self.mating_role == MatingMaster:
            normal_pitch = \\
                pi*self.drives.reference_diameter * \\
                self.drives.helix_angle.sin()/self.n_teeth
            effective_face_width = min(
                self.face_width, 0.67*self.drives.reference_diameter
            )
        elif self.mating_role == MatingSlave:
            normal_pitch = \\
                pi*self.driven_by.reference_diameter * \\
                self.driven_by.helix_angle.sin()/self.n_teeth
            effective_face_width = min(
                self.face_width, 0.67*self.driven_by.reference_diameter
            )
        else:
"""
_WW_BEND_NEW = """        if self.mating_role in [MatingMaster, MatingSlave]:
            is_slave = self.mating_role == MatingSlave
            worm_gear = self.driven_by if is_slave else self.drives
            normal_pitch = \\
                pi*worm_gear.reference_diameter * \\
                worm_gear.helix_angle.sin()/self.n_teeth
            effective_face_width = min(
                self.face_width,
                %s
            )
        else:
"""
benign('C09', 'worm-wheel-bending-roles-merged', WW, _WW_BEND_OLD, _WW_BEND_NEW % '0.67*(self.driven_by.reference_diameter if is_slave else self.drives.reference_diameter)')
mutant('C09', 'worm-wheel-bending-roles-merged-precedence-slip', WW, _WW_BEND_OLD, _WW_BEND_NEW % '0.67*self.driven_by.reference_diameter if is_slave else self.drives.reference_diameter', 'C09.bending')
_WRAP = """def _distinct_elements(function):
    @wraps(function)
    def wrapper(*args, **kargs):
        master, slave = %s
        if master is not None and master is slave:
            raise ValueError("Parameters 'master' and 'slave' cannot be the same gear.")

        return function(*args, **kargs)

    return wrapper


@_distinct_elements
def add_gear_mating("""
_SAME_OLD = """    if master == slave:
        raise ValueError(
            "Parameters 'master' and 'slave' cannot be the same gear."
        )

"""
multi('C10', 'same-element-check-in-a-wrapper-that-reads-keywords-only', 'mutant', [
    (RL, "from gearpy.mechanical_objects import (", "from functools import wraps\nfrom gearpy.mechanical_objects import ("),
    (RL, "def add_gear_mating(", _WRAP % "kargs.get('master'), kargs.get('slave')"),
    (RL, _SAME_OLD, "")], 'C10.rejects')
