"""Reference data tables.

LEWIS: the 20-degree full-depth Lewis form-factor table shipped by gearpy at the pinned commit
(38 rows), frozen here as the reference instance; it was cross-checked by reading against the
published table (Shigley, Table 14-2): at the 24 common teeth numbers the values agree within
0.004.  PUBLISHED holds those published values; the check demands both (row-for-row equality with
the frozen reference, and closeness to the published table), so neither a silent edit of a row nor
a wholesale replacement by another profile's table passes.
WORM: AGMA limits for cylindrical worm gearing: maximum lead (helix) angle and Lewis form factor
per normal pressure angle."""

LEWIS = [(10, 0.201), (11, 0.226), (12, 0.245), (13, 0.264), (14, 0.276), (15, 0.289), (16, 0.295), (17, 0.302),
         (18, 0.308), (19, 0.314), (20, 0.320), (21, 0.325), (22, 0.330), (24, 0.337), (26, 0.344), (28, 0.352),
         (30, 0.358), (32, 0.364), (34, 0.370), (36, 0.377), (38, 0.383), (40, 0.389), (43, 0.394), (45, 0.399),
         (50, 0.408), (55, 0.415), (60, 0.421), (65, 0.425), (70, 0.429), (75, 0.433), (80, 0.436), (90, 0.442),
         (100, 0.446), (150, 0.458), (200, 0.463), (300, 0.471), (400, 0.478), (500, 0.484)]

PUBLISHED = {12: 0.245, 13: 0.261, 14: 0.277, 15: 0.290, 16: 0.296, 17: 0.303, 18: 0.309, 19: 0.314, 20: 0.322,
             21: 0.328, 22: 0.331, 24: 0.337, 26: 0.346, 28: 0.353, 30: 0.359, 34: 0.371, 38: 0.384, 43: 0.397,
             50: 0.409, 60: 0.422, 75: 0.435, 100: 0.447, 150: 0.460, 300: 0.472}

# pressure angle (deg) -> (maximum helix/lead angle (deg), Lewis form factor)
WORM = {14.5: (16, 0.100), 20: (25, 0.125), 25: (35, 0.150), 30: (45, 0.175)}
