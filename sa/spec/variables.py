"""Recorded time variables: name -> quantity kind (None = plain number) and the attribute recorded."""
VARIABLE_KINDS = {
    'angular position': 'AngularPosition', 'angular speed': 'AngularSpeed',
    'angular acceleration': 'AngularAcceleration', 'torque': 'Torque', 'driving torque': 'Torque',
    'load torque': 'Torque', 'tangential force': 'Force', 'bending stress': 'Stress',
    'contact stress': 'Stress', 'electric current': 'Current',
}
VARIABLE_ATTR = {
    'angular position': 'angular_position', 'angular speed': 'angular_speed',
    'angular acceleration': 'angular_acceleration', 'torque': 'torque', 'driving torque': 'driving_torque',
    'load torque': 'load_torque', 'tangential force': 'tangential_force', 'bending stress': 'bending_stress',
    'contact stress': 'contact_stress', 'electric current': 'electric_current', 'pwm': 'pwm',
}
