"""Independent SI oracle for gearpy's unit symbols (written from the SI definitions, not from
gearpy): a small *compositional* grammar, so that a new unit following the grammar is still
decidable and an unparseable symbol is CANNOT-DECIDE.  Exact arithmetic over Q[pi]."""
from __future__ import annotations

import re
from fractions import Fraction as Fr

from ..algebra import Rat

PI = Rat.atom('pi')


def _r(x):
    return Rat.const(Fr(x))


G0 = Fr('9.80665')              # standard gravity, m/s^2 (exact by definition)
LEN = {'m': Fr(1), 'dm': Fr(1, 10), 'cm': Fr(1, 100), 'mm': Fr(1, 1000)}
FORCE = {'N': Fr(1), 'mN': Fr(1, 1000), 'kN': Fr(1000), 'kgf': G0, 'gf': G0 / 1000}
MASS = {'kg': Fr(1), 'g': Fr(1, 1000)}
ANGLE = {'rad': _r(1), 'deg': PI / _r(180), 'arcmin': PI / _r(180 * 60), 'arcsec': PI / _r(180 * 3600),
         'rot': _r(2) * PI}
TIME_DEN = {'s': Fr(1), 'min': Fr(60), 'h': Fr(3600)}
TIME = {'sec': Fr(1), 'min': Fr(60), 'hour': Fr(3600), 'ms': Fr(1, 1000)}
PRESSURE = {'Pa': Fr(1), 'kPa': Fr(10) ** 3, 'MPa': Fr(10) ** 6, 'GPa': Fr(10) ** 9}
CURRENT = {'A': Fr(1), 'mA': Fr(1, 1000), 'uA': Fr(1, 10 ** 6)}

# SI dimension exponents (M, L, T, I); the radian is dimensionless, as in the SI
DIMS = {
    'AngularPosition': (0, 0, 0, 0), 'Angle': (0, 0, 0, 0),
    'AngularSpeed': (0, 0, -1, 0), 'AngularAcceleration': (0, 0, -2, 0),
    'InertiaMoment': (1, 2, 0, 0), 'Torque': (1, 2, -2, 0),
    'Time': (0, 0, 1, 0), 'TimeInterval': (0, 0, 1, 0),
    'Length': (0, 1, 0, 0), 'Surface': (0, 2, 0, 0),
    'Force': (1, 1, -2, 0), 'Stress': (1, -1, -2, 0), 'Current': (0, 0, 0, 1),
}
# sub-kinds carrying a sign constraint; (sub, base)
SUBKINDS = {'Angle': 'AngularPosition', 'TimeInterval': 'Time'}
# sign constraint of each kind: 'pos' (> 0), 'nonneg' (>= 0), None
SIGN = {'Angle': 'nonneg', 'Length': 'pos', 'Surface': 'pos', 'InertiaMoment': 'pos', 'TimeInterval': 'pos'}


def si_factor(kind: str, u: str):
    """SI value of one `u` of quantity kind `kind`, or None if `u` is outside the grammar"""
    kind = SUBKINDS.get(kind, kind)
    try:
        if kind == 'AngularPosition':
            return ANGLE[u]
        if kind == 'AngularSpeed':
            m = re.fullmatch(r'r(p|P)(s|m|h)', u)
            if m:
                return ANGLE['rot'] / _r({'s': 1, 'm': 60, 'h': 3600}[m[2]])
            a, t = u.split('/')
            return ANGLE[a] / _r(TIME_DEN[t])
        if kind == 'AngularAcceleration':
            a, t = u.split('/')
            m = re.fullmatch(r'(s|min|h)\^2', t)
            return ANGLE[a] / _r(TIME_DEN[m[1]] ** 2)
        if kind == 'InertiaMoment':
            m = re.fullmatch(r'(kg|g)(m|dm|cm|mm)\^2', u)
            return _r(MASS[m[1]] * LEN[m[2]] ** 2)
        if kind == 'Torque':
            m = re.fullmatch(r'(kgf|gf|kN|mN|N)(m|dm|cm|mm)', u)
            return _r(FORCE[m[1]] * LEN[m[2]])
        if kind == 'Time':
            return _r(TIME[u])
        if kind == 'Length':
            return _r(LEN[u])
        if kind == 'Surface':
            m = re.fullmatch(r'(m|dm|cm|mm)\^2', u)
            return _r(LEN[m[1]] ** 2)
        if kind == 'Force':
            return _r(FORCE[u])
        if kind == 'Stress':
            return _r(PRESSURE[u])
        if kind == 'Current':
            return _r(CURRENT[u])
    except (KeyError, TypeError, ValueError, AttributeError):
        return None
    return None


def result_kind(left: str, op: str, right: str):
    """Dimensional-analysis oracle of C06 for two quantity kinds (None = not defined -> TypeError).
    Returns a kind name or 'number'."""
    dl, dr = DIMS[left], DIMS[right]
    bl, br = SUBKINDS.get(left, left), SUBKINDS.get(right, right)
    if op in '+-':
        if bl != br:
            return None
        if left == right:
            return left
        return bl            # sub-kind mixed with its base kind: the unconstrained base kind
    if op == '/':
        if bl == br:
            return 'number'
        d = tuple(a - b for a, b in zip(dl, dr))
    else:
        d = tuple(a + b for a, b in zip(dl, dr))
    cands = [k for k, v in DIMS.items() if v == d and k not in SUBKINDS]
    if d == (0, 0, 0, 0):
        # dimensionless product/quotient of different kinds: an angle (speed*time), never a bare number
        return 'AngularPosition' if (bl != br) else 'number'
    if len(cands) == 1:
        return cands[0]
    return None
