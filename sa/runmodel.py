"""Structure of `Solver.run` recovered from the solver IR: run-level paths (fresh start /
continuation), the pre-loop events, the stepping loop and the events of each of its body paths."""
from __future__ import annotations

from dataclasses import dataclass, field

from .core import AnalysisError
from .instant import InstantBuilder, Ev
from .solver_ir import SolverIR, Loop
from .sx import CannotDecide


@dataclass
class BodyPath:
    lp: object              # LoopPath
    events: list


@dataclass
class RunPath:
    fresh: object           # True / False / None (undetermined)
    guards: tuple
    pre: list               # events before the stepping loop
    loop_ev: Ev             # event of the stepping loop
    loop: Loop
    bodies: list            # list[BodyPath]
    post: list
    raw: object


def _has_time_append(effects):
    for e in effects:
        if e[0] == 'append' and e[1].endswith('.time'):
            return True
        if e[0] == 'loop':
            for p in e[1].paths:
                if _has_time_append(p.effects):
                    return True
    return False


class RunModel:
    def __init__(self, model):
        self.model = model
        self.ir = SolverIR(model)
        self.member, outs = self.ir.run_method('Solver', 'run')
        self.builder = InstantBuilder(model, self.ir)
        self.raises = [o for o in outs if o.kind == 'raise']
        self.paths = []
        self.early_exits = []     # completing paths of run() that never reach the stepping loop
        done = [o for o in outs if o.kind in ('fall', 'return')]
        if not done:
            raise AnalysisError('Solver.run has no completing path')
        for o in done:
            effs = list(o.state.effects)
            main_i = None
            for i, e in enumerate(effs):
                if e[0] == 'loop' and any(_has_time_append(p.effects) for p in e[1].paths):
                    main_i = i
            if main_i is None:
                self.early_exits.append((o, self.builder.events(effs)))
                continue
            L = effs[main_i][1]
            if L.kind not in ('index', 'grid'):
                raise AnalysisError(f'the stepping loop of Solver.run iterates over `{getattr(L, "iter_text", "?")}`: an iteration space '
                                    f'outside the recognised idioms (integer range / float grid / pre-computed list of a range)')
            pre = self.builder.events(effs[:main_i])
            post = self.builder.events(effs[main_i + 1:])
            loop_ev = self.builder.loop_event(L, ()) if L.kind == 'index' else Ev('loop', f'loop run:{L.lineno}', L.lineno, loop=L, raw=L)
            if not post:
                # nothing follows the stepping loop on this path: leaving run() from inside the loop is leaving the loop
                for p in L.paths:
                    if p.exit == 'return':
                        p.exit = 'break'
            bodies = [BodyPath(p, self.builder.events(p.effects, tuple(p.guards))) for p in L.paths]
            fresh = None
            for g in o.state.guards:
                if g.kind == 'truth' and isinstance(g.key[0], str) and g.key[0].endswith('.time'):
                    fresh = not g.pol
            self.paths.append(RunPath(fresh, tuple(o.state.guards), pre, loop_ev, L, bodies, post, o))
        if not self.paths:
            raise AnalysisError('the stepping loop of Solver.run (a loop that appends to Powertrain.time) was not found')

    # ---- instants
    def fresh_instant(self, rp: RunPath):
        """events of the t = 0 instant on a fresh-start path: everything after the time append in `pre`"""
        idx = None
        for i, ev in enumerate(rp.pre):
            if ev.kind == 'time':
                idx = i
        if idx is None:
            return None
        return rp.pre[idx:]

    def instants(self):
        """[(context name, run path, events)] - every instant-computing event sequence"""
        out = []
        for k, rp in enumerate(self.paths):
            if rp.fresh:
                fi = self.fresh_instant(rp)
                if fi is not None:
                    out.append((f'fresh-start#{k}', rp, fi))
            for j, b in enumerate(rp.bodies):
                out.append((f'step#{k}.{j}', rp, b.events))
        return out
