"""E1+E2 - gated value numbering: a syntax-directed abstract evaluation of gearpy functions into
*gated canonical terms*.

A function body is walked once per structured path (gearpy's statement repertoire is If / Assign /
AugAssign / Return / Raise / Expr / For / one Try); every path yields its guards (canonical
comparison atoms, None-tests, class tests), its ordered effects (stores into object fields, calls
on objects whose class is not statically exact) and its exit (return value / raised exception /
fall-through).  Arithmetic is interpreted in *magnitude space*: a quantity denotes its SI magnitude
as a canonical rational term (sa.algebra) together with a unit tag; `q.to(u)` changes only the
tag, `q.value` divides by the tag's factor, `K(value=v, unit=u)` multiplies by it - so a formula
is unit-consistent exactly when the symbolic unit factors cancel in its canonical term.
Nothing is executed and no solver is involved: equality of terms is a normal-form comparison."""
from __future__ import annotations

import ast
import copy
from dataclasses import dataclass, field
from fractions import Fraction

from .algebra import Ctx, Poly, Rat, num
from .core import AnalysisError
from .spec.si import DIMS, SUBKINDS, SIGN, result_kind
from .srcmodel import Model, strip_docstring, walk_no_nested
from .units import UnitTables, const_fold

MAX_STATES = 600
_VERSION = [0]
MAX_DEPTH = 14


class CannotDecide(AnalysisError):
    pass


# ------------------------------------------------------------------------------------------ values
class V:
    pass


@dataclass
class U:
    """unit tag: a literal unit symbol of a kind family, or the (unknown) unit of a named value"""
    lit: str = None
    sym: str = None

    def key(self):
        return ('lit', self.lit) if self.lit is not None else ('sym', self.sym)

    def __repr__(self):
        return repr(self.lit) if self.lit is not None else f'unit-of({self.sym})'


@dataclass
class N(V):
    term: Rat
    py: str = None          # 'int' | 'float' | None

    def __repr__(self):
        return f'N({self.term})'


@dataclass
class Q(V):
    kind: str
    term: Rat               # SI magnitude
    unit: U = None

    def __repr__(self):
        return f'Q[{self.kind}]({self.term} in {self.unit})'


@dataclass
class Dyn(V):
    """number-like value of unknown static type (magnitude-space term)"""
    term: Rat

    def __repr__(self):
        return f'Dyn({self.term})'


@dataclass
class Sv(V):
    s: str


@dataclass
class Bv(V):
    b: bool


@dataclass
class NoneV(V):
    pass


@dataclass
class Xv(V):
    """a module-level sentinel `NAME = object()`: identical to itself only"""
    name: str


@dataclass
class Itv(V):
    """iter(seq) / reversed(seq) over an abstract sequence, not yet advanced"""
    seq: 'Seq'
    backwards: bool


@dataclass
class Uv(V):
    unit: U


@dataclass
class Ov(V):
    path: str
    cls: str = None
    exact: bool = False

    def __repr__(self):
        return f'<{self.path}:{self.cls}{"!" if self.exact else ""}>'


@dataclass
class Cv(V):
    name: str
    of: str = None          # 'type(x)' provenance for x.__class__


@dataclass
class Fv(V):
    name: str
    recv: object = None      # for 'bound:<method>': the object the method was read from (a local may keep it: f = obj.m)


@dataclass
class Lv(V):
    """a lambda of module level (no closure): evaluated on its arguments where it is called"""
    node: object
    module: str


@dataclass
class Tv(V):
    items: list
    kind: str = 'list'


@dataclass
class Seq(V):
    """sequence-typed value (list/tuple of a known element type)"""
    path: str
    elem: object = None     # parsed annotation of the elements


@dataclass
class Dv(V):
    """dict literal with constant string keys"""
    items: dict
    counter: bool = False


@dataclass
class Mv(V):
    """image of an abstract sequence under a comprehension: for the generic element `each` of `src`, under the
    guards of a case the element is mapped to the case's value; elements failing the `if` clauses are dropped"""
    src: str
    cases: list            # [(tuple of guards, V)]
    filtered: bool = False


@dataclass
class Qv(V):
    """any(...) / all(...) over the image of an abstract sequence: a quantified statement about its elements"""
    quant: str
    mv: 'Mv'


@dataclass
class Bsym(V):
    """symbolic boolean: disjunction of guard-conjunctions is not needed in gearpy; one guard"""
    guard: 'G'


@dataclass
class Unk(V):
    text: str


# ------------------------------------------------------------------------------------------ guards
@dataclass(frozen=True)
class G:
    kind: str            # 'cmp' | 'isnone' | 'isinstance' | 'eq' | 'truth' | 'hasattr' | 'in' | 'opaque'
    key: tuple
    pol: bool = True
    rat: object = field(default=None, compare=False)   # for 'cmp': the Rat d of `d rel 0`

    def negate(self):
        if self.kind == 'cmp':
            rel = self.key[0]
            d = self.rat
            if rel == '<':
                return make_cmp('<=', -d)
            if rel == '<=':
                return make_cmp('<', -d)
            if rel == '==':
                return make_cmp('!=', d)
            return make_cmp('==', d)
        return G(self.kind, self.key, not self.pol, self.rat)

    def same(self, o):
        if self.kind != o.kind:
            return False
        if self.kind == 'cmp':
            if self.key[0] != o.key[0]:
                return False
            if self.rat.eq(o.rat):
                return True
            return self.key[0] in ('==', '!=') and self.rat.eq(-o.rat)
        return self.key == o.key and self.pol == o.pol

    def opposite(self, o):
        return self.negate().same(o)

    def show(self, ctx=None):
        if self.kind == 'cmp':
            t = ctx.show(self.rat) if ctx else repr(self.rat)
            return f'{t} {self.key[0]} 0'
        return ('' if self.pol else 'not ') + f'{self.kind}{self.key}'


POSITIVE_ATOMS = set()     # configured per analysis: atoms known > 0 (validated by constructors)


def _normalise_sign_free(d: Rat, positive) -> Rat:
    """drop a denominator that is a positive monomial, divide the numerator by its positive
    content, so that equivalent comparisons get equal canonical differences"""
    den = d.d
    n = d.n
    if len(den.t) == 1:
        (mono, c), = den.t.items()
        if all(a in positive or a.startswith('F[') or a == 'pi' for a, _ in mono):
            if c < 0:
                n = -n
            den = Poly.const(1)
    if den.is_const() and n.t:
        # positive content: gcd-free normalisation by the leading coefficient's magnitude and the
        # common positive atoms
        keys = sorted(n.t, key=str)
        lead = abs(n.t[keys[0]])
        common = None
        for k in n.t:
            ks = {a: e for a, e in k if a in positive or a.startswith('F[') or a == 'pi'}
            if common is None:
                common = ks
            else:
                common = {a: min(e, ks[a]) for a, e in common.items() if a in ks}
        common = common or {}
        t = {}
        for k, v in n.t.items():
            dk = dict(k)
            for a, e in common.items():
                dk[a] -= e
            t[tuple(sorted((a, e) for a, e in dk.items() if e))] = v / lead
        n = Poly(t)
    return Rat(n, den)


def make_cmp(rel, d: Rat):
    if rel in ('==', '!=') and not d.d.is_const():
        d = Rat(d.n)        # a quotient that was evaluated vanishes exactly when its numerator does
    d = _normalise_sign_free(d, POSITIVE_ATOMS)
    return G('cmp', (rel, repr(d)), True, d)


def cmp_guard(op, l: Rat, r: Rat) -> G:
    if isinstance(op, ast.Lt):
        return make_cmp('<', l - r)
    if isinstance(op, ast.LtE):
        return make_cmp('<=', l - r)
    if isinstance(op, ast.Gt):
        return make_cmp('<', r - l)
    if isinstance(op, ast.GtE):
        return make_cmp('<=', r - l)
    if isinstance(op, ast.Eq):
        return make_cmp('==', l - r)
    if isinstance(op, ast.NotEq):
        return make_cmp('!=', l - r)
    raise CannotDecide(f'comparison operator {type(op).__name__}')


CLASS_MODEL = None     # set by SX.__init__: the source model, for class-disjointness reasoning on isinstance guards


def isinstance_feasible(guards) -> bool:
    """is there a concrete class of the package satisfying all isinstance guards about each object?"""
    m = CLASS_MODEL
    if m is None:
        return True
    by_obj = {}
    for g in guards:
        if g.kind == 'isinstance' and isinstance(g.key[1], tuple) and g.key[1] and all(c in m.classes for c in g.key[1]):
            by_obj.setdefault(g.key[0], []).append(g)
    for obj, gs in by_obj.items():
        if len(gs) < 2 and all(g.pol for g in gs):
            continue
        ok = False
        for c in m.classes:
            if all((any(m.is_subclass(c, k) for k in g.key[1])) == g.pol for g in gs):
                ok = True
                break
        if not ok:
            return False
    return True


_SIGNS = {'<': {'-'}, '<=': {'-', '0'}, '==': {'0'}, '!=': {'-', '+'}}
_FLIP = {'-': '+', '+': '-', '0': '0'}


def sign_set(h: G, d: Rat):
    """the set of signs of `d` allowed by cmp guard h, or None if h does not talk about +-d"""
    if h.kind != 'cmp':
        return None
    if h.rat.eq(d):
        return set(_SIGNS[h.key[0]])
    if h.rat.eq(-d):
        return {_FLIP[x] for x in _SIGNS[h.key[0]]}
    return None


NONNEG_ATOMS = set()      # atoms a constructor proves >= 0 (set by a check next to POSITIVE_ATOMS; used only by pair_contradiction)


def _definite_sign(p):
    """'pos' / 'nonneg' for a polynomial with coefficients >= 0 over atoms known positive / non-negative, else None"""
    if not p.t:
        return None
    strict = False
    for mono, c in p.t.items():
        if c < 0:
            return None
        if all(a in POSITIVE_ATOMS or a.startswith('F[') or a == 'pi' for a, _ in mono):
            strict = strict or c > 0
        elif not all(a in POSITIVE_ATOMS or a in NONNEG_ATOMS or a.startswith('F[') or a == 'pi' or e % 2 == 0 for a, e in mono):
            return None
    return 'pos' if strict else 'nonneg'


def pair_contradiction(g: G, h: G) -> bool:
    """two order guards d1 (<|<=) 0 and d2 (<|<=) 0 whose positive combination d1 + k*d2 (k > 0 chosen to cancel one
    monomial) is definitely positive cannot hold together - e.g. D + t < 0 and t - D < 0 with t > 0"""
    if g.key[0] not in ('<', '<=') or h.key[0] not in ('<', '<='):
        return False
    a, b = g.rat, h.rat
    if not (a.d.is_const() and b.d.is_const()):
        return False
    ca, cb = a.d.const_value(), b.d.const_value()
    pa = a.n if ca > 0 else -a.n
    pb = b.n if cb > 0 else -b.n
    for mono, c1 in pa.t.items():
        c2 = pb.t.get(mono)
        if c2 is None or (c1 > 0) == (c2 > 0) or not mono:
            continue
        k = -c1 / c2
        sg = _definite_sign(pa + pb * Poly.const(k))
        if sg == 'pos' or (sg == 'nonneg' and '<' in (g.key[0], h.key[0])):
            return True
    return False


def implies(guards, g: G) -> bool:
    """conjunction `guards` syntactically/sign-lattice implies g"""
    st = static_truth(g)
    if st is not None:
        return st
    if g.kind == 'cmp':
        allowed = sign_set(g, g.rat)
        known = {'-', '0', '+'}
        for h in guards:
            hs = sign_set(h, g.rat)
            if hs is not None:
                known &= hs
        return known <= allowed
    return any(h.same(g) for h in guards)


def abs_consequences(ctx, guards):
    """`c*abs(x) + r <= 0` (c > 0) entails `c*x + r <= 0` and `-c*x + r <= 0`: the guards plus these consequences, so that a range
    check written with abs() implies the two-sided range"""
    out = list(guards)
    for h in guards:
        if h.kind != 'cmp' or h.key[0] not in ('<', '<=') or h.rat is None:
            continue
        d = h.rat
        if not d.d.is_const() or d.d.const_value() <= 0:
            continue
        for a, (f, args) in list(ctx.defs.items()):
            if f != 'abs':
                continue
            mono = ((a, 1),)
            c = d.n.t.get(mono)
            if c is None or c <= 0 or any(a in dict(m_) for m_ in d.n.t if m_ != mono):
                continue
            rest = Rat(d.n) - Rat.const(c) * Rat.atom(a)
            x = args[0]
            out.append(make_cmp(h.key[0], Rat.const(c) * x + rest))
            out.append(make_cmp(h.key[0], -(Rat.const(c) * x) + rest))
    return out


def static_truth(g: G):
    """True/False if a cmp guard is decidable on constants, else None"""
    if g.kind == 'cmp' and g.rat.is_const():
        v = g.rat.const_value()
        return {'<': v < 0, '<=': v <= 0, '==': v == 0, '!=': v != 0}[g.key[0]]
    return None


class _SubstName(ast.NodeTransformer):
    def __init__(self, old, new):
        self.old, self.new = old, new

    def visit_Name(self, node):
        return ast.copy_location(ast.Name(id=self.new, ctx=node.ctx), node) if node.id == self.old else node


# ------------------------------------------------------------------------------------------ state
class State:
    __slots__ = ('guards', 'env', 'heap', 'effects', 'notes', 'vers')

    def __init__(self, guards=(), env=None, heap=None, effects=(), notes=(), vers=None):
        self.guards = tuple(guards)
        self.env = dict(env or {})
        self.heap = dict(heap or {})
        self.effects = tuple(effects)
        self.notes = tuple(notes)
        self.vers = dict(vers or {})     # (object path, mangled field) -> version of the unknown value

    def copy(self):
        return State(self.guards, self.env, self.heap, self.effects, self.notes, self.vers)

    def bump(self, path, field):
        """the field may have been written by code that is not tracked: later reads see a new unknown"""
        _VERSION[0] += 1
        self.vers[(path, field)] = _VERSION[0]
        self.heap.pop((path, field), None)

    def with_guard(self, g: G):
        """None if infeasible (contradicts an earlier guard)"""
        st = static_truth(g)
        if st is True:
            return self
        if st is False:
            return None
        if g.kind == 'cmp':
            allowed = sign_set(g, g.rat)
            known = {'-', '0', '+'}
            for h in self.guards:
                if h.kind == 'cmp':
                    hs = sign_set(h, g.rat)
                    if hs is not None:
                        known &= hs
            if not (known & allowed):
                return None
            if known <= allowed:
                return self
            if (POSITIVE_ATOMS or NONNEG_ATOMS) and any(h.kind == 'cmp' and pair_contradiction(g, h) for h in self.guards):
                return None
        else:
            for h in self.guards:
                if h.same(g):
                    return self
                if h.opposite(g):
                    return None
            if g.kind == 'isinstance' and not isinstance_feasible(self.guards + (g,)):
                return None
            if g.kind == 'eq' and len(g.key) == 2:
                # x == A and x == B cannot both hold for two different constants (class names, string literals): a role that is
                # MatingMaster is not MatingSlave
                def _const(t):
                    t = str(t)
                    return (t[:1].isupper() and t.isidentifier()) or (len(t) >= 2 and t[0] == t[-1] and t[0] in '\'"')
                for h in self.guards:
                    if h.kind == 'eq' and h.pol and len(h.key) == 2 and set(h.key) != set(g.key):
                        common = set(h.key) & set(g.key)
                        if len(common) == 1:
                            a_, = set(h.key) - common
                            b_, = set(g.key) - common
                            c_, = common
                            if _const(a_) and _const(b_) and not _const(c_) and a_ != b_:
                                if g.pol:
                                    return None
                                return self
            # None is an instance of no class of the package: `x is None` after a passed `isinstance(x, C)` (and the other way round)
            if g.kind == 'isnone' and g.pol and any(h.kind == 'isinstance' and h.pol and h.key[0] == g.key[0]
                                                     and 'NoneType' not in h.key[1] for h in self.guards):
                return None
            if g.kind == 'isnone' and not g.pol and any(h.kind == 'isinstance' and h.pol and h.key[0] == g.key[0]
                                                         and 'NoneType' not in h.key[1] for h in self.guards):
                return self
            if g.kind == 'isinstance' and g.pol and 'NoneType' not in g.key[1] and any(
                    h.kind == 'isnone' and h.pol and h.key[0] == g.key[0] for h in self.guards):
                return None
        s = self.copy()
        s.guards = self.guards + (g,)
        return s

    def with_effect(self, e):
        s = self.copy()
        s.effects = self.effects + (tuple(e) + (('@g', len(self.guards)),),)
        return s


@dataclass
class Outcome:
    state: State
    kind: str              # 'return' | 'raise' | 'fall'
    value: object = None   # V for return, exception name for raise
    loc: int = 0


# ------------------------------------------------------------------------------------------ types
def parse_annotation(node, model: Model):
    """-> ('q', Kind) | ('obj', Class) | 'num' | 'bool' | 'str' | ('seq', elem) | 'callable' | None"""
    if node is None:
        return None
    if isinstance(node, ast.Constant) and isinstance(node.value, str):
        try:
            node = ast.parse(node.value, mode='eval').body
        except SyntaxError:
            return None
    if isinstance(node, ast.Name):
        if node.id in ('float', 'int'):
            return 'num'
        if node.id == 'bool':
            return 'bool'
        if node.id == 'str':
            return 'str'
        if node.id in model.classes:
            return ('q', node.id) if model.is_quantity(node.id) else ('obj', node.id)
        if node.id == 'Callable':
            return 'callable'
        return None
    if isinstance(node, ast.BinOp) and isinstance(node.op, ast.BitOr):
        parts = [parse_annotation(node.left, model), parse_annotation(node.right, model)]
        parts = [p for p in parts if p is not None and p != 'none']
        if not parts:
            return None
        if all(p == 'num' for p in parts):
            return 'num'
        if len(set(parts)) == 1:
            return parts[0]
        return None
    if isinstance(node, ast.Constant) and node.value is None:
        return 'none'
    if isinstance(node, ast.Subscript):
        base = ast.unparse(node.value)
        if base == 'Optional':
            return parse_annotation(node.slice, model)
        if base in ('list', 'tuple', 'List', 'Tuple'):
            el = node.slice.elts[0] if isinstance(node.slice, ast.Tuple) else node.slice
            return ('seq', parse_annotation(el, model))
        if base == 'Callable':
            return 'callable'
        return None
    return None


class SX:
    """the evaluator.  One instance per comparison universe (shares the algebra Ctx)."""

    def __init__(self, model: Model, tables: UnitTables = None, ctx: Ctx = None):
        global CLASS_MODEL
        CLASS_MODEL = model
        self.model = model
        self.tables = tables or UnitTables(model)
        self.ctx = ctx or Ctx()
        self.opaque_calls = set()          # names of functions / methods never inlined
        self.inline_ctor_guards = False    # inline quantity constructors' own raise-guards
        self.model_setters = False         # stores to objects of inexact class run the possible setters for their raises
        self.track_div_zero = False        # record divisions by a possibly-zero number
        self.loop_handler = None           # callable(sx, for_node, state, frame) -> list[State] | None
        self.eval_comprehensions = False   # evaluate comprehensions / for over concrete lists / match (opt-in)
        self.call_hook = None              # callable(sx, call_node, func_value, args, kwargs, state, frame) -> list[(State,V)] | None
        self.nstates = 0
        self.div_zero_sites = []
        self.fn_transform = None           # callable(FunctionDef) -> FunctionDef: semantic-preserving normalisation before evaluation
        self._fn_cache = {}
        self.div_sites = []                # (BinOp node, denominator term, guards) of every division (track_div_zero)
        self.dispatch_quantity_ops = False # when True: `q * x`, `q + r` ... between quantities are evaluated as calls of their operator methods
        self.identity_compares = []        # (line, text) of `is` / `is not` between two numbers or quantities
        self.arith_log = set()             # (left kind, op, right kind) of every quantity operation interpreted natively
        self.cmp_sides = None              # when a list: (node, op, left term, right term) of every numeric comparison evaluated
        self.guard_sources = {}            # (kind, key) of a guard -> source texts of the tests that produced it
        self.variable_kinds = {}           # recorded-variable name -> quantity kind (typing of time_variables[...])
        self._field_types = {}
        self.trace_calls = []

    # ---- unit factors
    def ufactor(self, kind, u: U) -> Rat:
        if u is None:
            raise CannotDecide('unit of a compound value is not tracked here')
        if u.lit is not None:
            return self.tables.factor(kind, u.lit)
        fam = self.tables.family(kind) or kind
        return Rat.atom(f'F[{fam}:{u.sym}]')

    # ---- typing helpers
    def typed_atom(self, name, ty, path=None):
        """abstract value of an input atom `name` with static type ty"""
        if ty == 'num':
            return N(Rat.atom(name))
        if ty == 'bool':
            return Bsym(G('truth', (name,)))
        if ty == 'str':
            return Unk(name)
        if isinstance(ty, tuple) and ty[0] == 'q':
            return Q(ty[1], Rat.atom(name), U(sym=name))
        if isinstance(ty, tuple) and ty[0] == 'obj':
            return Ov(path or name, ty[1], False)
        if isinstance(ty, tuple) and ty[0] == 'seq':
            return Seq(path or name, ty[1])
        if ty == 'callable':
            return Fv(path or name)
        return Dyn(Rat.atom(name))

    def field_type(self, cls, mangled):
        """static type of a private field from every store `self.__x = <rhs>` in the defining class"""
        key = (cls, mangled)
        if key in self._field_types:
            return self._field_types[key]
        ci = self.model.classes.get(cls)
        tys = []
        if ci:
            for m in ci.all_members():
                ann = {a.arg: a.annotation for a in m.node.args.args if a.annotation is not None}
                for n in ast.walk(m.node):
                    if isinstance(n, ast.Assign) and len(n.targets) == 1:
                        t = n.targets[0]
                        if isinstance(t, ast.Attribute) and isinstance(t.value, ast.Name) and t.value.id == 'self' \
                                and self.model.mangle(cls, t.attr) == mangled:
                            v = n.value
                            if isinstance(v, ast.Name) and v.id in ann:
                                tys.append(parse_annotation(ann[v.id], self.model))
                            elif isinstance(v, ast.Constant) and v.value is None:
                                pass
                            elif isinstance(v, ast.Constant) and isinstance(v.value, (int, float)) \
                                    and not isinstance(v.value, bool):
                                tys.append('num')
                            elif isinstance(v, ast.Call) and isinstance(v.func, ast.Name) \
                                    and self.model.is_quantity(v.func.id):
                                tys.append(('q', v.func.id))
                            else:
                                tys.append(None)
        tys = [t for t in tys if t is not None and t != 'none']
        out = tys[0] if tys and all(t == tys[0] for t in tys) else None
        self._field_types[key] = out
        return out

    def ctor_alias(self, cls, mangled):
        """a private field that __init__ binds once to an attribute chain of a constructor argument which is itself kept in a
        field (`self.__pt = powertrain; self.__elements = powertrain.elements`) reads as that chain through the kept
        field (`self.__pt.elements`) - provided no other method writes it.  Whether the chain's containers are ever
        rebound by their owner is the alias rule's business (sa/aliases).  Returns an expression AST rooted at `self` or None"""
        key = ('alias', cls, mangled)
        if key in self._field_types:
            return self._field_types[key]
        out = None
        ci = self.model.classes.get(cls)
        init = ci.members.get('__init__') if ci else None
        if init is not None:
            stores = [(m, n) for m in ci.all_members() for n in ast.walk(m.node)
                      if isinstance(n, ast.Attribute) and isinstance(n.ctx, ast.Store) and isinstance(n.value, ast.Name) and n.value.id == 'self'
                      and self.model.mangle(cls, n.attr) == mangled]
            assigns = [a for a in walk_no_nested(init.node) if isinstance(a, ast.Assign) and len(a.targets) == 1
                       and isinstance(a.targets[0], ast.Attribute) and isinstance(a.targets[0].value, ast.Name) and a.targets[0].value.id == 'self'
                       and self.model.mangle(cls, a.targets[0].attr) == mangled]
            top = {id(x) for x in init.node.body}
            if len(stores) == 1 and len(assigns) == 1 and id(assigns[0]) in top:
                params = {a.arg for a in init.node.args.args[1:]}
                kept = {}          # param -> field attr (as written) holding it
                locs = {}
                nbind = {}
                for a in walk_no_nested(init.node):
                    if isinstance(a, ast.Assign) and len(a.targets) == 1:
                        t = a.targets[0]
                        if isinstance(t, ast.Attribute) and isinstance(t.value, ast.Name) and t.value.id == 'self' \
                                and isinstance(a.value, ast.Name) and a.value.id in params:
                            kept.setdefault(a.value.id, t.attr)
                        if isinstance(t, ast.Name):
                            nbind[t.id] = nbind.get(t.id, 0) + 1
                            locs[t.id] = a.value
                for a in walk_no_nested(init.node):
                    if isinstance(a, (ast.AugAssign, ast.For)) :
                        tg = a.target
                        for x in ast.walk(tg):
                            if isinstance(x, ast.Name):
                                nbind[x.id] = nbind.get(x.id, 0) + 2

                def rooted(e, depth=0):
                    if depth > 4:
                        return None
                    if isinstance(e, ast.Name):
                        if e.id in params and e.id in kept and nbind.get(e.id, 0) == 0:
                            return ast.Attribute(value=ast.Name(id='self', ctx=ast.Load()), attr=kept[e.id], ctx=ast.Load())
                        if e.id in locs and nbind.get(e.id) == 1 and e.id not in params:
                            return rooted(locs[e.id], depth + 1)
                        return None
                    if isinstance(e, ast.Attribute):
                        b = rooted(e.value, depth)
                        return ast.Attribute(value=b, attr=e.attr, ctx=ast.Load()) if b is not None else None
                    # a fact about a kept argument remembered as a boolean: `self.__has_x = x is not None`
                    if isinstance(e, ast.Compare) and len(e.ops) == 1 and isinstance(e.ops[0], (ast.Is, ast.IsNot)) \
                            and isinstance(e.comparators[0], ast.Constant) and e.comparators[0].value is None:
                        b = rooted(e.left, depth)
                        return ast.Compare(left=b, ops=e.ops, comparators=e.comparators) if b is not None else None
                    if isinstance(e, ast.BoolOp):
                        vs = [rooted(x, depth) for x in e.values]
                        return ast.BoolOp(op=e.op, values=vs) if all(x is not None for x in vs) else None
                    if isinstance(e, ast.UnaryOp) and isinstance(e.op, ast.Not):
                        b = rooted(e.operand, depth)
                        return ast.UnaryOp(op=e.op, operand=b) if b is not None else None
                    return None

                def single_store(attr_written):
                    mg = self.model.mangle(cls, attr_written)
                    return sum(1 for m_ in ci.all_members() for n_ in ast.walk(m_.node)
                               if isinstance(n_, ast.Attribute) and isinstance(n_.ctx, ast.Store) and isinstance(n_.value, ast.Name)
                               and n_.value.id == 'self' and self.model.mangle(cls, n_.attr) == mg) == 1
                v = assigns[0].value
                if not isinstance(v, ast.Name) or v.id not in params:       # a plain kept parameter is an ordinary typed field
                    r = rooted(v)
                    used = {x.attr for x in ast.walk(r) if isinstance(x, ast.Attribute) and isinstance(x.value, ast.Name) and x.value.id == 'self'} \
                        if r is not None else set()
                    if r is not None and not isinstance(r, ast.Name) and not (isinstance(r, ast.Attribute) and isinstance(r.value, ast.Name)) \
                            and all(single_store(a) for a in used):
                        out = ast.fix_missing_locations(ast.copy_location(r, assigns[0]))
        if out is not None:
            # a reference to a container that its owner later rebinds is NOT the live container (sa/aliases): no alias then
            if not hasattr(self.model, '_alias_findings'):
                from .aliases import alias_findings
                self.model._alias_findings = {(c_, f_) for c_, f_, *_ in alias_findings(self.model)[0]}
            if any(c_ == cls and self.model.mangle(cls, f_) == mangled for c_, f_ in self.model._alias_findings):
                out = None
        self._field_types[key] = out
        return out

    def eval_alias(self, al, obj, owner, st, frame):
        """evaluate a constructor alias (an expression rooted at `self`) for the object `obj`"""
        s0 = st.copy()
        s0.env = dict(st.env)
        s0.env['self'] = obj
        res = []
        for r in self.eval_x(al, s0, dict(frame, cls=owner)):
            if isinstance(r, Outcome):
                r.state.env = dict(st.env)
                res.append(r)
            else:
                s1 = r[0].copy()
                s1.env = dict(st.env)
                res.append((s1, r[1]))
        return res

    def member_type(self, cls, name):
        """return annotation of property/method `name` looked up on cls, falling back to the
        agreeing definitions on its subclasses"""
        m = self.model.find_member(cls, name) if cls else None
        if m is not None:
            t = parse_annotation(m.node.returns, self.model)
            if t is not None:
                return t, m
        if cls:
            tys = set()
            anym = None
            for sub in self.model.subclasses(cls, strict=True):
                sm = self.model.find_member(sub, name)
                if sm is not None:
                    anym = sm
                    t = parse_annotation(sm.node.returns, self.model)
                    if t is not None:
                        tys.add(t)
            if len(tys) == 1:
                return tys.pop(), anym
            return None, (m or anym)
        return None, m

    _KNOWN_DECORATORS = ('property', 'staticmethod', 'classmethod', 'abstractmethod', 'wraps', 'override', 'final')

    def _undecorate(self, fn, module):
        """A function under a decorator of the package runs the decorator's wrapper, not (only) its own body.  The one shape that is
        resolved: a module-level `def deco(f): @wraps(f) def inner(<the same parameters>): <prefix>; return f(<the parameters>)`
        followed by `return inner` - the call runs <prefix> and then the body, which is what is evaluated (class context and name
        mangling of the decorated method are kept).  Any other unknown decorator fails closed."""
        decos = []
        for d in getattr(fn, 'decorator_list', ()):
            base = d.func if isinstance(d, ast.Call) else d
            nm = base.id if isinstance(base, ast.Name) else (base.attr if isinstance(base, ast.Attribute) else None)
            if nm in self._KNOWN_DECORATORS or nm in ('setter', 'getter', 'deleter') or (nm and 'cache' in nm):
                continue
            decos.append((d, nm))
        if not decos:
            return fn
        key = ('undecorated', id(fn))
        if key in self._fn_cache:
            return self._fn_cache[key][1]
        generic = self._generic_wrapper_variants(fn, decos) if len(decos) == 1 else None
        if generic is not None:
            self._fn_cache[key] = (fn, generic)
            return generic
        if len(decos) != 1 or not isinstance(decos[0][0], ast.Name) or decos[0][1] not in self.model.functions:
            raise CannotDecide(f'{fn.name} runs under the decorator @{ast.unparse(decos[0][0])[:40]}, which is outside the resolved shapes')
        dmod, dfn = self.model.functions[decos[0][1]]
        body = strip_docstring(dfn.body)
        inner = [b for b in body if isinstance(b, ast.FunctionDef)]
        ok = len(dfn.args.args) == 1 and len(inner) == 1 and len(body) == 2 and isinstance(body[1], ast.Return) \
            and isinstance(body[1].value, ast.Name) and body[1].value.id == inner[0].name
        if ok:
            f_par = dfn.args.args[0].arg
            w = inner[0]
            wbody = strip_docstring(w.body)
            params = [a.arg for a in fn.args.args]
            last = wbody[-1] if wbody else None
            ok = [a.arg for a in w.args.args] == params and not w.args.vararg and not w.args.kwarg and not fn.args.vararg \
                and not fn.args.kwarg and not fn.args.defaults and not w.args.defaults \
                and isinstance(last, ast.Return) and isinstance(last.value, ast.Call) and isinstance(last.value.func, ast.Name) \
                and last.value.func.id == f_par and not last.value.keywords \
                and [getattr(a, 'id', None) for a in last.value.args] == params \
                and not any(isinstance(x, ast.Name) and x.id == f_par for b in wbody[:-1] for x in ast.walk(b)) \
                and not any(isinstance(x, ast.Name) and isinstance(x.ctx, ast.Store) and x.id in params for b in wbody[:-1] for x in ast.walk(b))
        if not ok:
            raise CannotDecide(f'{fn.name} runs under the decorator @{decos[0][1]}, whose wrapper is outside the resolved shape')
        new = copy.copy(fn)
        new.decorator_list = [d for d in fn.decorator_list if d is not decos[0][0]]
        new.body = [copy.deepcopy(b) for b in wbody[:-1]] + list(fn.body)
        self._fn_cache[key] = (fn, new)
        return new

    def _generic_wrapper_variants(self, fn, decos):
        """`@deco` or `@factory(consts)` whose wrapper is `def wrapper(*a, **k): <prefix>; return f(*a, **k)`: two variants of the
        function - prefix (its locals renamed, a / k bound for an all-positional resp. all-keyword call) followed by the body."""
        d, nm = decos[0]
        if nm not in self.model.functions or fn.args.vararg or fn.args.kwarg or fn.args.kwonlyargs or fn.args.posonlyargs:
            return None
        dmod, dfn = self.model.functions[nm]
        binds = []
        if isinstance(d, ast.Call):
            # a decorator factory called with constants
            pars = [a.arg for a in dfn.args.args]
            given = dict(zip(pars, d.args))
            given.update({k.arg: k.value for k in d.keywords if k.arg})
            if not all(isinstance(v, ast.Constant) for v in given.values()):
                return None
            body = strip_docstring(dfn.body)
            inner = [b for b in body if isinstance(b, ast.FunctionDef)]
            if len(inner) != 1 or not (isinstance(body[-1], ast.Return) and isinstance(body[-1].value, ast.Name) and body[-1].value.id == inner[0].name):
                return None
            binds = [ast.Assign(targets=[ast.Name(id=k + '__wrapper', ctx=ast.Store())], value=v) for k, v in given.items()]
            factory_names = set(given)
            dfn = inner[0]
        else:
            factory_names = set()
        body = strip_docstring(dfn.body)
        inner = [b for b in body if isinstance(b, ast.FunctionDef)]
        if len(dfn.args.args) != 1 or len(inner) != 1 or not (isinstance(body[-1], ast.Return) and isinstance(body[-1].value, ast.Name)
                                                              and body[-1].value.id == inner[0].name):
            return None
        f_par, w = dfn.args.args[0].arg, inner[0]
        wbody = strip_docstring(w.body)
        if w.args.args or not w.args.vararg or not w.args.kwarg or not wbody:
            return None
        va, kw = w.args.vararg.arg, w.args.kwarg.arg
        last = wbody[-1]
        ok = isinstance(last, ast.Return) and isinstance(last.value, ast.Call) and isinstance(last.value.func, ast.Name) \
            and last.value.func.id == f_par and len(last.value.args) == 1 and isinstance(last.value.args[0], ast.Starred) \
            and getattr(last.value.args[0].value, 'id', None) == va and len(last.value.keywords) == 1 and last.value.keywords[0].arg is None \
            and getattr(last.value.keywords[0].value, 'id', None) == kw \
            and not any(isinstance(x, ast.Name) and x.id == f_par for b in wbody[:-1] for x in ast.walk(b))
        if not ok:
            return None
        local = {x.id for b in wbody[:-1] for x in ast.walk(b) if isinstance(x, ast.Name) and isinstance(x.ctx, ast.Store)} | {va, kw} | factory_names

        class Ren(ast.NodeTransformer):
            def visit_Name(self, node):
                return ast.copy_location(ast.Name(id=node.id + '__wrapper', ctx=node.ctx), node) if node.id in local else node
        prefix = [Ren().visit(copy.deepcopy(b)) for b in wbody[:-1]]
        params = [a.arg for a in fn.args.args]
        out = []
        for positional in (True, False):
            tup = ast.Tuple(elts=[ast.Name(id=p_, ctx=ast.Load()) for p_ in params] if positional else [], ctx=ast.Load())
            dic = ast.Call(func=ast.Name(id='dict', ctx=ast.Load()), args=[], keywords=[]) if positional else \
                ast.Dict(keys=[ast.Constant(value=p_) for p_ in params], values=[ast.Name(id=p_, ctx=ast.Load()) for p_ in params])
            new = copy.copy(fn)
            new.decorator_list = [x for x in fn.decorator_list if x is not d]
            new.body = [copy.deepcopy(b) for b in binds] + [
                ast.Assign(targets=[ast.Name(id=va + '__wrapper', ctx=ast.Store())], value=tup),
                ast.Assign(targets=[ast.Name(id=kw + '__wrapper', ctx=ast.Store())], value=dic)] + [copy.deepcopy(b) for b in prefix] + list(fn.body)
            for b in new.body:
                ast.copy_location(b, fn) if not hasattr(b, 'lineno') else None
                ast.fix_missing_locations(b)
            out.append(new)
        return out

    # ---- entry points
    def run(self, fn: ast.FunctionDef, module: str, cls: str = None, self_val: V = None, args: dict = None,
            state: State = None, depth=0) -> list:
        """evaluate a function; returns list[Outcome]"""
        if depth > MAX_DEPTH:
            raise CannotDecide(f'inlining depth exceeded at {fn.name}')
        for d in getattr(fn, 'decorator_list', ()):
            if 'cache' in ast.unparse(d):
                # a memoised function answers from an earlier call: evaluating its body says nothing about later calls (fail closed)
                raise CannotDecide(f'{fn.name} is memoised (@{ast.unparse(d)[:40]}): its result may be that of an earlier state')
        fn = self._undecorate(fn, module)
        if isinstance(fn, list):
            # a generic wrapper (*args, **kwargs): the function is reached under both calling conventions, all-positional and
            # all-keyword; the outcomes of both count
            outs_ = []
            for variant in fn:
                outs_.extend(self.run(variant, module, cls, self_val, dict(args or {}), state, depth))
            return outs_
        if self.fn_transform is not None:
            key = id(fn)
            if key not in self._fn_cache:
                self._fn_cache[key] = (fn, self.fn_transform(fn))      # keep fn alive: id() keys
            fn = self._fn_cache[key][1]
        st = state.copy() if state is not None else State()
        caller_env = st.env
        env = {}
        params = [a.arg for a in fn.args.args]
        defaults = fn.args.defaults
        defmap = {}
        for p, d in zip(params[len(params) - len(defaults):], defaults):
            defmap[p] = d
        args = dict(args or {})
        ann = {a.arg: a.annotation for a in fn.args.args}
        for i, p in enumerate(params):
            if i == 0 and p == 'self' and cls is not None and not self._is_static(fn):
                env[p] = self_val if self_val is not None else Ov('self', cls, True)
                continue
            if p in args:
                env[p] = args.pop(p)
            elif p in defmap and depth > 0:
                env[p] = self.const_value(defmap[p])
            else:
                env[p] = self.typed_atom(p, parse_annotation(ann.get(p), self.model), p)
        if fn.args.kwarg is not None:
            env[fn.args.kwarg.arg] = Unk('**' + fn.args.kwarg.arg)
        if args:
            raise CannotDecide(f'unexpected arguments {sorted(args)} for {fn.name}')
        st.env = env
        frame = {'module': module, 'cls': cls, 'fn': fn, 'depth': depth}
        is_gen = any(isinstance(x, (ast.Yield, ast.YieldFrom)) for x in walk_no_nested(fn))
        if is_gen:
            st.env['<yields>'] = Tv([])
        try:
            outs = self.block(strip_docstring(fn.body), [st], frame)
        except CannotDecide:
            # a small pure numeric helper the evaluator cannot follow (a counting while, string formatting ...): its result is an
            # unknown number that depends on its arguments - whatever formula uses it no longer matches a specified term
            pure = depth > 0 and not is_gen and (cls is None or self._is_static(fn)) \
                and parse_annotation(fn.returns, self.model) == 'num' \
                and not any(isinstance(x, ast.Attribute) and isinstance(x.ctx, ast.Store) for x in ast.walk(fn)) \
                and not any(isinstance(x, (ast.Global, ast.Nonlocal)) for x in ast.walk(fn)) \
                and all(isinstance(v, (N, Dyn)) for k, v in env.items())
            if not pure:
                raise
            terms = [env[k].term for k in sorted(env)]
            s1 = st.copy()
            s1.env = caller_env
            return [Outcome(s1, 'return', N(Rat.atom(self.ctx.fatom(f'call:{fn.name}', terms))), fn.lineno)]
        res = []
        for o in outs:
            s = o.state.copy()
            ys = s.env.get('<yields>')
            s.env = caller_env
            if is_gen and o.kind in ('fall', 'return'):
                # a generator function: its value is the (concrete) sequence of what it yields on this path
                res.append(Outcome(s, 'return', Tv(list(ys.items) if isinstance(ys, Tv) else [], 'generator'), o.loc))
            else:
                res.append(Outcome(s, o.kind, o.value, o.loc))
        return res

    @staticmethod
    def _boolish(node):
        """an expression that can only be a truth value (comparison, not, and/or of such, isinstance/hasattr/callable/bool call,
        True/False): `a and b` over such operands is a truth value; over anything else it is one of the operands"""
        if isinstance(node, ast.Compare):
            return True
        if isinstance(node, ast.UnaryOp) and isinstance(node.op, ast.Not):
            return True
        if isinstance(node, ast.BoolOp):
            return all(SX._boolish(v) for v in node.values)
        if isinstance(node, ast.Constant) and isinstance(node.value, bool):
            return True
        if isinstance(node, ast.Call) and isinstance(node.func, ast.Name) and node.func.id in ('isinstance', 'issubclass', 'hasattr', 'callable', 'bool', 'any', 'all'):
            return True
        if isinstance(node, ast.Attribute) and (node.attr.endswith('_is_computable') or node.attr.startswith('is_') or node.attr in ('self_locking',)):
            return True
        if isinstance(node, ast.Call) and isinstance(node.func, ast.Attribute) and (node.func.attr.startswith('is_') or node.func.attr in ('check_condition', 'endswith', 'startswith')):
            return True
        return False

    @staticmethod
    def _is_static(fn):
        return any(isinstance(d, ast.Name) and d.id == 'staticmethod' for d in fn.decorator_list)

    def const_value(self, node) -> V:
        if isinstance(node, ast.Constant):
            v = node.value
            if v is None:
                return NoneV()
            if isinstance(v, bool):
                return Bv(v)
            if isinstance(v, (int, float)):
                return N(num(v), 'int' if isinstance(v, int) else 'float')
            if isinstance(v, str):
                return Sv(v)
        try:
            return N(const_fold(node))
        except AnalysisError:
            return Unk(ast.unparse(node))

    # ---- statements
    def block(self, stmts, states, frame) -> list:
        """returns list[Outcome]; fall-through states are Outcome(kind='fall')"""
        outs = []
        cur = list(states)
        for s in stmts:
            if not cur:
                break
            nxt = []
            for st in cur:
                self.nstates += 1
                if self.nstates > 200000:
                    raise CannotDecide('state budget exceeded')
                for o in self.stmt(s, st, frame):
                    if o.kind == 'fall':
                        nxt.append(o.state)
                    else:
                        outs.append(o)
            if len(nxt) > MAX_STATES:
                raise CannotDecide(f'path explosion in {frame["fn"].name}')
            cur = nxt
        outs.extend(Outcome(st, 'fall') for st in cur)
        return outs

    def stmt(self, s, st: State, frame) -> list:
        if isinstance(s, ast.Pass):
            return [Outcome(st, 'fall')]
        if isinstance(s, ast.Expr) and isinstance(s.value, ast.Yield) and isinstance(st.env.get('<yields>'), Tv):
            res = []
            for r in (self.eval_x(s.value.value, st, frame) if s.value.value is not None else [(st, NoneV())]):
                if isinstance(r, Outcome):
                    res.append(r)
                    continue
                s2 = r[0].copy()
                s2.env['<yields>'] = Tv(list(s2.env['<yields>'].items) + [r[1]])
                res.append(Outcome(s2, 'fall'))
            return res
        if isinstance(s, ast.Expr):
            if isinstance(s.value, ast.Constant):
                return [Outcome(st, 'fall')]
            res = []
            for r in self.eval_x(s.value, st, frame):
                res.append(r if isinstance(r, Outcome) else Outcome(r[0], 'fall'))
            return res
        if isinstance(s, ast.Return):
            if s.value is None:
                return [Outcome(st, 'return', NoneV(), s.lineno)]
            res = []
            for r in self.eval_x(s.value, st, frame):
                res.append(r if isinstance(r, Outcome) else Outcome(r[0], 'return', r[1], s.lineno))
            return res
        if isinstance(s, ast.Raise):
            exc = s.exc
            name = ast.unparse(exc.func) if isinstance(exc, ast.Call) else (ast.unparse(exc) if exc else 're-raise')
            name = self.raised_class(exc, name, st, frame)
            return [Outcome(st, 'raise', name, s.lineno)]
        if isinstance(s, ast.If):
            res = []
            tr, fa, raised = self.branch(s.test, st, frame)
            res.extend(raised)
            if tr:
                res.extend(self.block(s.body, tr, frame))
            if fa:
                res.extend(self.block(s.orelse, fa, frame) if s.orelse else [Outcome(x, 'fall') for x in fa])
            return res
        if isinstance(s, ast.Assign):
            if len(s.targets) != 1:
                raise CannotDecide('chained assignment')
            res = []
            for r in self.eval_x(s.value, st, frame):
                if isinstance(r, Outcome):
                    res.append(r)
                    continue
                res.extend(self.assign(s.targets[0], r[1], r[0], frame, s.lineno))
            return res
        if isinstance(s, ast.AnnAssign) and s.value is not None:
            res = []
            for r in self.eval_x(s.value, st, frame):
                if isinstance(r, Outcome):
                    res.append(r)
                    continue
                res.extend(self.assign(s.target, r[1], r[0], frame, s.lineno))
            return res
        if isinstance(s, ast.AugAssign):
            load = ast.copy_location(_as_load(s.target), s.target)
            expr = ast.copy_location(ast.BinOp(left=load, op=s.op, right=s.value), s)
            ast.fix_missing_locations(expr)
            res = []
            for r in self.eval_x(expr, st, frame):
                if isinstance(r, Outcome):
                    res.append(r)
                    continue
                res.extend(self.assign(s.target, r[1], r[0], frame, s.lineno))
            return res
        if isinstance(s, ast.While) and self.eval_comprehensions:
            return self.while_concrete(s, st, frame)
        if isinstance(s, ast.Match):
            return self.match_stmt(s, st, frame)
        if isinstance(s, ast.For) and (self.eval_comprehensions or isinstance(s.iter, (ast.Tuple, ast.List, ast.Name)) or (
                isinstance(s.iter, ast.Call) and isinstance(s.iter.func, ast.Name) and s.iter.func.id != 'range'
                and (s.iter.func.id in ('zip', 'enumerate', 'reversed', 'list', 'tuple') or s.iter.func.id in self.model.functions))):
            r = self.for_unrolled(s, st, frame)       # a loop over a concrete tuple/list (literal, local or module constant) is unrolled
            if r is not None:
                return r
        if isinstance(s, ast.For):
            if self.loop_handler is not None:
                r = self.loop_handler(self, s, st, frame)
                if r is not None:
                    return [x if isinstance(x, Outcome) else Outcome(x, 'fall') for x in r]
            raise CannotDecide(f'loop at line {s.lineno} in {frame["fn"].name} is outside the recognised idioms')
        if isinstance(s, ast.Delete) and all(isinstance(t, ast.Attribute) for t in s.targets):
            # `del obj.attr`: the attribute is gone (a store of the <deleted> marker, so that the effect is visible to the rules)
            cur = [st]
            outs_ = []
            for t in s.targets:
                nxt = []
                for s_ in cur:
                    for r in self.eval_x(t.value, s_, frame):
                        if isinstance(r, Outcome):
                            outs_.append(r)
                            continue
                        if not isinstance(r[1], Ov):
                            raise CannotDecide(f'del of an attribute of {r[1]!r}')
                        for o in self.store_attr(r[1], t.attr, Unk('<deleted>'), r[0], frame, s.lineno):
                            (nxt if o.kind == 'fall' else outs_).append(o.state if o.kind == 'fall' else o)
                cur = nxt
            return outs_ + [Outcome(s_, 'fall') for s_ in cur]
        if isinstance(s, ast.Break):
            return [Outcome(st, 'break', None, s.lineno)]
        if isinstance(s, ast.Continue):
            return [Outcome(st, 'continue', None, s.lineno)]
        if isinstance(s, ast.Try):
            return self.try_stmt(s, st, frame)
        raise CannotDecide(f'statement kind {type(s).__name__} at line {s.lineno}')

    def try_stmt(self, s: ast.Try, st, frame):
        """body outcomes that raise an exception named by a handler continue in that handler"""
        if s.finalbody:
            # try/finally: the final block runs on EVERY way out of the rest (fall-through, return, break, continue, raise) and then
            # that way out is resumed - unless the final block itself leaves differently
            inner = ast.copy_location(ast.Try(body=s.body, handlers=s.handlers, orelse=s.orelse, finalbody=[]), s)
            outs0 = self.try_stmt(inner, st, frame) if (s.handlers or s.orelse) else self.block(s.body, [st], frame)
            res = []
            for o in outs0:
                for f in self.block(s.finalbody, [o.state], frame):
                    if f.kind == 'fall':
                        res.append(Outcome(f.state, o.kind, o.value, o.loc))
                    else:
                        res.append(f)
            return res
        res = []
        body = self.block(s.body, [st], frame)
        for o in body:
            if o.kind == 'fall' and s.orelse:
                res.extend(self.block(s.orelse, [o.state], frame))      # else: runs when the body completed
                continue
            if o.kind != 'raise':
                res.append(o)
                continue
            handled = False
            for h in s.handlers:
                names = []
                if h.type is None:
                    names = None
                elif isinstance(h.type, ast.Tuple):
                    names = [ast.unparse(e) for e in h.type.elts]
                else:
                    names = [ast.unparse(h.type)]
                if names is None or o.value in names or 'Exception' in names or 'BaseException' in names:
                    sub = o.state.with_effect(('caught', o.value, s.lineno))
                    res.extend(self.block(h.body, [sub], frame))
                    handled = True
                    break
            if not handled:
                res.append(o)
        return res

    def raised_class(self, exc, name, st, frame, depth=0):
        """class name of a raised expression that is not written as `Class(...)`: a helper that builds and returns the
        exception (`raise self.__error(x)`), or a local bound to one"""
        if exc is None or depth > 2:
            return name
        if isinstance(exc, ast.Name):
            v = st.env.get(exc.id)
            if isinstance(v, Unk):
                head = v.text.split('(')[0]
                if head.isidentifier() and head != exc.id:
                    return head
            return name
        if not isinstance(exc, ast.Call):
            return name
        f = exc.func
        if isinstance(f, ast.Name) and (f.id.endswith(('Error', 'Exception', 'Warning')) or f.id in ('StopIteration', 'KeyboardInterrupt')):
            return name
        fn = None
        if isinstance(f, ast.Attribute) and isinstance(f.value, ast.Name) and f.value.id in ('self', 'cls') and frame.get('cls'):
            sv = st.env.get('self')
            m = self.model.find_member(sv.cls if isinstance(sv, Ov) and sv.cls else frame['cls'], f.attr) or \
                self.model.find_member(frame['cls'], f.attr)
            fn = m.node if m is not None and m.kind not in ('property', 'setter') else None
        elif isinstance(f, ast.Name) and f.id in self.model.functions:
            fn = self.model.functions[f.id][1]
        if fn is None:
            return name
        classes = set()
        for r in walk_no_nested(fn):
            if isinstance(r, ast.Return) and r.value is not None:
                if isinstance(r.value, ast.Call) and isinstance(r.value.func, ast.Name):
                    classes.add(r.value.func.id)
                else:
                    return name
        return classes.pop() if len(classes) == 1 else name

    def assign(self, target, value: V, st: State, frame, lineno) -> list:
        if isinstance(target, ast.Name):
            s = st.copy()
            s.env[target.id] = value
            return [Outcome(s, 'fall')]
        if isinstance(target, ast.Attribute):
            res = []
            for r in self.eval_x(target.value, st, frame):
                if isinstance(r, Outcome):
                    res.append(r)
                    continue
                s, obj = r
                res.extend(self.store_attr(obj, target.attr, value, s, frame, lineno))
            return res
        if isinstance(target, ast.Subscript):
            res = []
            for r in self.eval_list([target.value, target.slice], st, frame):
                if isinstance(r, Outcome):
                    res.append(r)
                    continue
                s, (base, idx) = r
                if isinstance(base, Dv) and isinstance(idx, Sv) and isinstance(target.value, ast.Name) and self.eval_comprehensions:
                    s2 = s.copy()
                    items = dict(base.items)
                    items[idx.s] = value
                    s2.env[target.value.id] = Dv(items, base.counter)
                    res.append(Outcome(s2, 'fall'))
                    continue
                res.append(Outcome(s.with_effect(('setitem', self.show(base), self.show(idx), value, lineno, idx)), 'fall'))
            return res
        if isinstance(target, (ast.Tuple, ast.List)) and isinstance(value, Tv) and len(value.items) == len(target.elts):
            cur = [st]
            for t, v in zip(target.elts, value.items):
                nxt = []
                for c in cur:
                    for o in self.assign(t, v, c, frame, lineno):
                        if o.kind == 'fall':
                            nxt.append(o.state)
                cur = nxt
            return [Outcome(c, 'fall') for c in cur]
        if isinstance(target, (ast.Tuple, ast.List)) and sum(isinstance(t, ast.Starred) for t in target.elts) == 1 \
                and isinstance(value, (Seq, Tv)) and all(isinstance(t.value if isinstance(t, ast.Starred) else t, ast.Name) for t in target.elts):
            # first, *rest = seq   /   *init, last = seq
            k = next(i for i, t in enumerate(target.elts) if isinstance(t, ast.Starred))
            after = len(target.elts) - k - 1
            s = st.copy()
            node = ast.parse('x', mode='eval').body
            for i, t in enumerate(target.elts):
                if i < k:
                    s.env[t.id] = self.subscript(value, N(Rat.const(i), 'int'), s, frame, node)
                elif i == k:
                    sl = f'{k if k else ""}:{-after if after else ""}'
                    if isinstance(value, Tv):
                        s.env[t.value.id] = Tv(list(value.items[k:len(value.items) - after]), 'list')
                    else:
                        s.env[t.value.id] = self.subscript(value, Unk('slice:' + sl), s, frame, node)
                else:
                    s.env[t.id] = self.subscript(value, N(Rat.const(i - len(target.elts)), 'int'), s, frame, node)
            return [Outcome(s, 'fall')]
        if isinstance(target, (ast.Tuple, ast.List)) and isinstance(value, (Dyn, Unk)) \
                and all(isinstance(t, ast.Name) for t in target.elts):
            # unpacking a value of unknown shape (a remembered tuple, a call result): its components are unknown numbers
            s = st.copy()
            for i, t in enumerate(target.elts):
                s.env[t.id] = Dyn(Rat.atom(f'{self.show(value)}[{i}]'))
            return [Outcome(s, 'fall')]
        raise CannotDecide(f'assignment target {ast.unparse(target)}')

    def store_attr(self, obj: V, attr, value: V, st: State, frame, lineno) -> list:
        if isinstance(obj, Ov) and obj.exact and obj.cls:
            setter = self.model.find_setter(obj.cls, attr)
            if setter is not None and not (attr.startswith('__') and not attr.endswith('__')):
                pname = setter.node.args.args[1].arg
                outs = self.run(setter.node, setter.module, setter.cls, obj, {pname: value}, st, frame['depth'] + 1)
                return [Outcome(o.state, 'fall') if o.kind in ('fall', 'return') else o for o in outs]
            getter = self.model.find_member(obj.cls, attr)
            if getter is not None and getter.kind == 'property' and not attr.startswith('__'):
                return [Outcome(st, 'raise', 'AttributeError', lineno)]
            mangled = self.model.mangle(frame['cls'] or obj.cls, attr)
            s = st.copy()
            s.heap[(obj.path, mangled)] = value
            s.effects = s.effects + (('store', obj.path, mangled, value, lineno, frame['fn'].name, ('@g', len(s.guards))),)
            return [Outcome(s, 'fall')]
        if isinstance(obj, Ov):
            res = []
            if self.model_setters:
                res.extend(self.setter_raises(obj, attr, value, st, frame, lineno))
            s = st.copy()
            if '[' in obj.path:
                # a store through a symbolic index may alias any other indexed access of the same attribute
                s.heap = {k: v for k, v in s.heap.items() if not (k[1] == attr and '[' in k[0] and k[0] != obj.path)}
            s.heap[(obj.path, attr)] = value
            s.effects = s.effects + (('store', obj.path, attr, value, lineno, frame['fn'].name, ('@g', len(s.guards))),)
            res.append(Outcome(s, 'fall'))
            return res
        raise CannotDecide(f'store to attribute {attr} of {obj!r}')

    def setter_raises(self, obj: Ov, attr, value, st, frame, lineno):
        """raise outcomes of the setters `attr` of every concrete class the object may have, evaluated on
        the actual argument under the current path guards (an obligation discharged by an earlier guard
        becomes infeasible and disappears)"""
        classes = [c for c in self.model.classes if not self.model.is_abstract_class(c)
                   and (obj.cls is None or self.model.is_subclass(c, obj.cls))
                   and self.model.find_setter(c, attr) is not None]
        seen = set()
        out = []
        for c in classes:
            setter = self.model.find_setter(c, attr)
            # follow the forwarding idiom to the defining setter so that clones are evaluated once
            probe = Ov(f'{obj.path}', c, True)
            pname = setter.node.args.args[1].arg
            try:
                outs = self.run(setter.node, setter.module, setter.cls, probe, {pname: value}, st, frame['depth'] + 1)
            except CannotDecide:
                continue
            for o in outs:
                if o.kind != 'raise':
                    continue
                key = (o.value, tuple(g.show() for g in o.state.guards[len(st.guards):]))
                if key in seen:
                    continue
                seen.add(key)
                s2 = o.state.copy()
                s2.heap = dict(st.heap)
                s2.effects = st.effects + (('setter-raise', obj.path, attr, o.value, lineno, c),)
                out.append(Outcome(s2, 'raise', o.value, lineno))
        return out

    # ---- conditions
    def branch(self, test, st: State, frame):
        """-> (true states, false states, raised outcomes)"""
        if isinstance(test, ast.BoolOp):
            if isinstance(test.op, ast.And):
                tr, fa, rs = [st], [], []
                for v in test.values:
                    ntr = []
                    for s in tr:
                        t2, f2, r2 = self.branch(v, s, frame)
                        ntr += t2
                        fa += f2
                        rs += r2
                    tr = ntr
                return tr, fa, rs
            tr, fa, rs = [], [st], []
            for v in test.values:
                nfa = []
                for s in fa:
                    t2, f2, r2 = self.branch(v, s, frame)
                    tr += t2
                    nfa += f2
                    rs += r2
                fa = nfa
            return tr, fa, rs
        if isinstance(test, ast.UnaryOp) and isinstance(test.op, ast.Not):
            tr, fa, rs = self.branch(test.operand, st, frame)
            return fa, tr, rs
        tr, fa, rs = [], [], []
        narrow = None
        if isinstance(test, ast.Call) and isinstance(test.func, ast.Name) and test.func.id == 'isinstance' \
                and len(test.args) == 2 and isinstance(test.args[0], ast.Name):
            narrow = (test.args[0].id, self.class_names(test.args[1], None, st.env))
        for r in self.eval_x(test, st, frame):
            if isinstance(r, Outcome):
                rs.append(r)
                continue
            s, v = r
            t = self.truth(v)
            if t is True:
                if narrow and isinstance(s.env.get(narrow[0]), Q):
                    # a typed value that passed isinstance(x, <quantity class>) is not None from here on
                    nm = self.none_name(s.env[narrow[0]])
                    if nm is not None:
                        s = s.with_guard(G('isnone', (nm,), False)) or s
                tr.append(s)
            elif t is False:
                fa.append(s)
            else:
                self.guard_sources.setdefault((t.kind, t.key), set()).add(test)
                self.guard_sources.setdefault((t.negate().kind, t.negate().key), set()).add(test)
                a = s.with_guard(t)
                b = s.with_guard(t.negate())
                a = self.abs_refine(a) if a is not None else None
                b = self.abs_refine(b) if b is not None else None
                if self.track_div_zero:
                    for x in (a, b):          # the test was taken on this path even when its outcome was already implied
                        if x is not None and x is not s:
                            x.notes = x.notes + (('tested', test),)
                    if a is s or b is s:
                        s2 = s.copy()
                        s2.notes = s.notes + (('tested', test),)
                        a = s2 if a is s else a
                        b = s2 if b is s else b
                if a is not None:
                    if narrow and narrow[1]:
                        a = self.narrow(a, narrow[0], narrow[1])
                    tr.append(a)
                if b is not None:
                    fa.append(b)
        return tr, fa, rs

    def abs_refine(self, s: State):
        """case analysis on |x| atoms occurring in comparison guards: if only one sign of x is consistent with the
        guards, the guards with |x| replaced accordingly are added as derived facts; None if neither is"""
        atoms = sorted({a for g in s.guards if g.kind == 'cmp' for a in g.rat.atoms()
                        if a in self.ctx.defs and self.ctx.defs[a][0] == 'abs'})
        for a in atoms:
            x = self.ctx.defs[a][1][0]
            consistent = []
            for repl, case in ((x, make_cmp('<=', -x)), (-x, make_cmp('<', x))):
                st = State()
                for g in s.guards + (case,):
                    if g.kind == 'cmp' and a in g.rat.atoms():
                        g = make_cmp(g.key[0], self.ctx.reduce(self.ctx.subst(g.rat, {a: repl})))
                    st = st.with_guard(g)
                    if st is None:
                        break
                if st is not None:
                    consistent.append(st)
            if not consistent:
                return None
            if len(consistent) == 1:
                have = {(g.kind, g.key, g.pol) for g in s.guards}
                extra = tuple(g for g in consistent[0].guards if (g.kind, g.key, g.pol) not in have)
                if extra:
                    s = s.copy()
                    s.guards = s.guards + extra
        return s

    def narrow(self, st: State, name, classes):
        """refine the abstract value of local `name` after `isinstance(name, classes)` held"""
        v = st.env.get(name)
        new = None
        if isinstance(v, Ov) and not v.exact and all(c in self.model.classes for c in classes):
            if len(classes) == 1:
                target = classes[0]
            else:
                common = [c for c in self.model.mro(classes[0]) if all(c in self.model.mro(k) for k in classes)]
                target = common[0] if common else None
            if target and (v.cls is None or self.model.is_subclass(target, v.cls)):
                new = Ov(v.path, target, False)
        elif isinstance(v, Dyn) and set(classes) <= {'float', 'int'}:
            new = N(v.term, classes[0] if len(classes) == 1 else None)
        elif isinstance(v, Dyn) and len(classes) == 1 and self.model.is_quantity(classes[0]):
            sym = self.none_name(v)
            new = Q(classes[0], v.term, U(sym=sym) if sym else None)
        if new is None:
            return st
        s = st.copy()
        s.env[name] = new
        if isinstance(v, Ov) and isinstance(new, Ov):
            # the test was about the OBJECT: every other local bound to the same object (`for p, gear in (('master', master), ...)`)
            # sees the narrowed class too
            for k, v2 in list(s.env.items()):
                if k != name and isinstance(v2, Ov) and v2.path == v.path and not v2.exact \
                        and (v2.cls is None or self.model.is_subclass(new.cls, v2.cls)):
                    s.env[k] = Ov(v2.path, new.cls, False)
        elif isinstance(v, Dyn) and not isinstance(new, Dyn):
            for k, v2 in list(s.env.items()):
                if k != name and v2 is v:
                    s.env[k] = new
        return s

    def truth(self, v: V):
        """True | False | G"""
        if isinstance(v, Bv):
            return v.b
        if isinstance(v, NoneV):
            return False
        if isinstance(v, Bsym):
            st = static_truth(v.guard)
            return v.guard if st is None else st
        if isinstance(v, N):
            if v.term.is_const():
                return v.term.const_value() != 0
            return make_cmp('!=', v.term)
        if isinstance(v, Sv):
            return bool(v.s)
        if isinstance(v, Tv):
            return bool(v.items)
        if isinstance(v, Dv):
            return bool(v.items)
        if isinstance(v, (Q,)):
            return True
        if isinstance(v, Ov):
            return G('truth', (v.path,))
        if isinstance(v, Seq):
            return G('truth', (v.path,))
        if isinstance(v, Dyn):
            return G('truth', (repr(v.term),))
        if isinstance(v, Unk):
            return G('truth', (v.text,))
        if isinstance(v, (Cv, Fv)):
            return True
        if isinstance(v, Uv):
            return True if v.unit.lit is None else bool(v.unit.lit)     # a unit name accepted by a table is not ''
        if isinstance(v, (Dv, Mv)):
            return True
        if isinstance(v, Qv):
            return G('truth', (f'{v.quant}({v.mv.src})',))
        raise CannotDecide(f'truth value of {v!r}')

    # ---- expressions (list of (State, V) | Outcome)
    def eval_list(self, nodes, st, frame):
        cur = [(st, [])]
        outs = []
        for n in nodes:
            nxt = []
            for s, vals in cur:
                for r in self.eval_x(n, s, frame):
                    if isinstance(r, Outcome):
                        outs.append(r)
                    else:
                        nxt.append((r[0], vals + [r[1]]))
            cur = nxt
        return outs + cur

    def eval1(self, node, st, frame) -> V:
        """evaluate an expression that must not fork or raise"""
        rs = self.eval_x(node, st, frame)
        if len(rs) != 1 or isinstance(rs[0], Outcome):
            raise CannotDecide(f'expression {ast.unparse(node)[:60]} forks or raises')
        return rs[0][1]

    def eval_x(self, n, st: State, frame) -> list:
        if isinstance(n, ast.Constant):
            return [(st, self.const_value(n))]
        if isinstance(n, ast.Name):
            return [(st, self.name(n.id, st, frame))]
        if isinstance(n, ast.NamedExpr) and isinstance(n.target, ast.Name):
            res = []
            for r in self.eval_x(n.value, st, frame):
                if isinstance(r, Outcome):
                    res.append(r)
                    continue
                s2 = r[0].copy()
                s2.env[n.target.id] = r[1]
                res.append((s2, r[1]))
            return res
        if isinstance(n, ast.JoinedStr) and self.eval_comprehensions:
            # f-string over known pieces: text with <unit-name> placeholders for symbolic units
            cur = [(st, '')]
            for part in n.values:
                nxt = []
                for s_, text in cur:
                    if isinstance(part, ast.Constant):
                        nxt.append((s_, text + str(part.value)))
                        continue
                    for r in self.eval_x(part.value, s_, frame):
                        if isinstance(r, Outcome):
                            return [(st, Unk('<f-string>'))]
                        v = r[1]
                        if isinstance(v, Sv):
                            piece = v.s
                        elif isinstance(v, Uv):
                            piece = v.unit.lit if v.unit.lit is not None else f'<{v.unit.sym}>'
                        elif isinstance(v, Unk):
                            piece = f'<{v.text}>'
                        elif isinstance(v, N) and v.term.is_const() and v.term.const_value().denominator == 1 and v.py == 'int' \
                                and part.format_spec is None and part.conversion == -1:
                            piece = str(int(v.term.const_value()))
                        else:
                            return [(st, Unk('<f-string>'))]
                        nxt.append((r[0], text + piece))
                cur = nxt
            return [(s_, Sv(text)) for s_, text in cur]
        if isinstance(n, ast.JoinedStr):
            return [(st, Unk('<f-string>'))]
        if isinstance(n, ast.Dict) and not n.keys and self.eval_comprehensions:
            return [(st, Dv({}))]          # an empty mapping the function fills key by key (a counting table)
        if isinstance(n, ast.Dict) and n.keys and all(isinstance(k, ast.Constant) and isinstance(k.value, str) for k in n.keys) and (
                self.eval_comprehensions or not any(isinstance(v, (ast.List, ast.Dict, ast.Set, ast.ListComp, ast.DictComp, ast.SetComp,
                                                                    ast.Lambda, ast.Constant)) for v in n.values)):
            # a literal with constant keys (always, when it holds computed values only: an argument bundle, a state record)
            res = []
            for r in self.eval_list(list(n.values), st, frame):
                if isinstance(r, Outcome):
                    res.append(r)
                else:
                    res.append((r[0], Dv({k.value: v for k, v in zip(n.keys, r[1])})))
            return res
        if isinstance(n, ast.Attribute):
            if isinstance(n.value, ast.Call) and isinstance(n.value.func, ast.Name) and n.value.func.id == 'super' \
                    and not n.value.args:
                return self.super_attr(n.attr, st, frame)
            res = []
            for r in self.eval_x(n.value, st, frame):
                if isinstance(r, Outcome):
                    res.append(r)
                else:
                    res.extend(self.load_attr(r[1], n.attr, r[0], frame, n))
            return res
        if isinstance(n, ast.UnaryOp):
            if isinstance(n.op, ast.Not):
                if isinstance(n.operand, ast.Call) and isinstance(n.operand.func, ast.Name) and n.operand.func.id in ('any', 'all') \
                        and n.operand.func.id not in st.env:
                    # De Morgan on a quantified statement about an abstract sequence: not all(v) = any(not v), not any(v) = all(not v)
                    got = self.eval_x(n.operand, st.copy(), frame)
                    if got and all(not isinstance(r, Outcome) and isinstance(r[1], Qv) for r in got):
                        res = []
                        for s, q in got:
                            cases = []
                            for guards, val in q.mv.cases:
                                t = self.truth(val)
                                cases.append((guards, Bv(not t) if isinstance(t, bool) else Bsym(t.negate())))
                            res.append((s, Qv('any' if q.quant == 'all' else 'all', Mv(q.mv.src, cases, q.mv.filtered))))
                        return res
                tr, fa, rs = self.branch(n.operand, st, frame)
                return rs + [(s, Bv(True)) for s in fa] + [(s, Bv(False)) for s in tr]
            res = []
            for r in self.eval_x(n.operand, st, frame):
                if isinstance(r, Outcome):
                    res.append(r)
                    continue
                s, v = r
                if isinstance(n.op, ast.UAdd):
                    res.append((s, v))
                elif isinstance(n.op, ast.USub):
                    res.append((s, self.neg(v)))
                else:
                    raise CannotDecide('unary operator')
            return res
        if isinstance(n, ast.BinOp):
            if isinstance(n.op, ast.BitOr):
                return [(st, Unk(ast.unparse(n)))]
            res = []
            for r in self.eval_list([n.left, n.right], st, frame):
                if isinstance(r, Outcome):
                    res.append(r)
                    continue
                s, (l, rr) = r
                if self.dispatch_quantity_ops and (isinstance(l, Q) or isinstance(rr, Q)):
                    # inside the units package an arithmetic expression on quantities is a call of their own operator methods
                    # (forward first, reflected for a number on the left): evaluated as such, with its guards and raises
                    opname = {ast.Add: 'add', ast.Sub: 'sub', ast.Mult: 'mul', ast.Div: 'truediv'}.get(type(n.op))
                    meth = None
                    if opname and isinstance(l, Q):
                        meth, recv, oth = self.model.find_member(l.kind, f'__{opname}__'), l, rr
                    if opname and meth is None and isinstance(rr, Q):
                        meth, recv, oth = self.model.find_member(rr.kind, f'__r{opname}__'), rr, l
                    if meth is not None and frame['depth'] < MAX_DEPTH - 1:
                        pn = [a.arg for a in meth.node.args.args]
                        saved, self.dispatch_quantity_ops = self.dispatch_quantity_ops, False     # the operator's own body is read natively
                        try:
                            outs = self.run(meth.node, meth.module, meth.cls, recv, {pn[1] if len(pn) > 1 else 'other': oth}, s, frame['depth'] + 1)
                        finally:
                            self.dispatch_quantity_ops = saved
                        for o in outs:
                            res.append((o.state, o.value) if o.kind == 'return' else ((o.state, NoneV()) if o.kind == 'fall' else o))
                        continue
                out = self.binop(n.op, l, rr, s, n)
                if self.inline_ctor_guards and isinstance(out, Q) and out.kind in SIGN and not isinstance(n.op, ast.Div):
                    # the result of arithmetic on a sign-constrained kind is built by that kind's constructor (C19):
                    # the operation raises ValueError when the result violates the constraint
                    ok = make_cmp('<' if SIGN[out.kind] == 'pos' else '<=', -out.term)
                    a, b = s.with_guard(ok), s.with_guard(ok.negate())
                    if b is not None:
                        res.append(Outcome(b.with_effect(('sign-violation', out.kind, ast.unparse(n)[:60], getattr(n, 'lineno', 0))),
                                           'raise', 'ValueError', getattr(n, 'lineno', 0)))
                    if a is not None:
                        res.append((a, out))
                    continue
                res.append(out if isinstance(out, Outcome) else (s, out))
            return res
        if isinstance(n, ast.BoolOp) and (self.eval_comprehensions or not all(self._boolish(v) for v in n.values)):
            # Python value semantics: `a or b` is a when a is truthy, else b (objects, not just truth values)
            is_or = isinstance(n.op, ast.Or)
            res, cur = [], [st]
            for i, vn in enumerate(n.values):
                nxt = []
                for s_ in cur:
                    for r in self.eval_x(vn, s_, frame):
                        if isinstance(r, Outcome):
                            res.append(r)
                            continue
                        s2, val = r
                        if i == len(n.values) - 1:
                            res.append((s2, val))
                            continue
                        t = self.truth(val)
                        if isinstance(t, bool):
                            (res.append((s2, val)) if t == is_or else nxt.append(s2))
                            continue
                        a, b = s2.with_guard(t), s2.with_guard(t.negate())
                        stop, go = (a, b) if is_or else (b, a)
                        if stop is not None:
                            res.append((stop, val))
                        if go is not None:
                            nxt.append(go)
                cur = nxt
            return res
        if isinstance(n, ast.BoolOp):
            tr, fa, rs = self.branch(n, st, frame)
            return rs + [(s, Bv(True)) for s in tr] + [(s, Bv(False)) for s in fa]
        if isinstance(n, ast.Compare):
            return self.compare(n, st, frame)
        if isinstance(n, ast.IfExp):
            tr, fa, rs = self.branch(n.test, st, frame)
            res = list(rs)
            for s in tr:
                res.extend(self.eval_x(n.body, s, frame))
            for s in fa:
                res.extend(self.eval_x(n.orelse, s, frame))
            return res
        if isinstance(n, ast.Call) and self.loop_handler is not None and (got := self._reduction_call(n, st, frame)) is not None:
            return got
        if isinstance(n, ast.Call):
            return self.call(n, st, frame)
        if isinstance(n, (ast.Tuple, ast.List)):
            res = []
            for r in self.eval_list(list(n.elts), st, frame):
                if isinstance(r, Outcome):
                    res.append(r)
                else:
                    res.append((r[0], Tv(r[1], 'tuple' if isinstance(n, ast.Tuple) else 'list')))
            return res
        if isinstance(n, ast.Subscript):
            res = []
            for r in self.eval_list([n.value, n.slice], st, frame):
                if isinstance(r, Outcome):
                    res.append(r)
                    continue
                s, (base, idx) = r
                res.append((s, self.subscript(base, idx, s, frame, n)))
            return res
        if isinstance(n, ast.Slice):
            if self.eval_comprehensions and any(b is not None and not isinstance(b, ast.Constant) and not (
                    isinstance(b, ast.UnaryOp) and isinstance(b.operand, ast.Constant)) for b in (n.lower, n.upper, n.step)):
                # bounds that are expressions over concrete loop counters (`names[position + 1:]`): folded to numbers when they are
                parts = []
                for b in (n.lower, n.upper, n.step):
                    if b is None:
                        parts.append('')
                        continue
                    try:
                        rs = self.eval_x(b, st.copy(), frame)
                    except CannotDecide:
                        rs = []
                    if len(rs) == 1 and not isinstance(rs[0], Outcome) and isinstance(rs[0][1], N) and rs[0][1].term.is_const() \
                            and rs[0][1].term.const_value().denominator == 1:
                        parts.append(str(int(rs[0][1].term.const_value())))
                    else:
                        parts = None
                        break
                if parts is not None:
                    return [(st, Unk('slice:' + ':'.join(parts if n.step is not None else parts[:2])))]
            return [(st, Unk('slice:' + ast.unparse(n)))]
        if isinstance(n, (ast.ListComp, ast.GeneratorExp)) and self.eval_comprehensions:
            got = self.comprehension(n, st, frame)
            if isinstance(n, ast.GeneratorExp):
                # a generator is consumed by what reads it: kept as the list of what it will still yield, marked one-shot (the eager
                # evaluation of its elements is the lazy one as long as they have no effects, which holds for the comparisons met)
                got = [r if isinstance(r, Outcome) or not isinstance(r[1], Tv) else (r[0], Tv(list(r[1].items), 'generator')) for r in got]
            return got
        if isinstance(n, (ast.ListComp, ast.GeneratorExp)) and len(n.generators) == 1 and isinstance(n.generators[0].target, ast.Name):
            # a comprehension over a CONCRETE tuple/list (a literal, a local table) is always evaluated
            try:
                its = self.eval_x(n.generators[0].iter, st, frame)
            except CannotDecide:
                its = []
            if len(its) == 1 and not isinstance(its[0], Outcome) and isinstance(its[0][1], Tv):
                return self.comprehension(n, st, frame)
        if isinstance(n, ast.DictComp) and len(n.generators) == 1 and not n.generators[0].ifs and isinstance(n.generators[0].target, ast.Name):
            try:
                its = self.eval_x(n.generators[0].iter, st, frame)
            except CannotDecide:
                its = []
            if len(its) == 1 and not isinstance(its[0], Outcome) and isinstance(its[0][1], Tv) \
                    and all(isinstance(i, Sv) for i in its[0][1].items):
                s0 = its[0][0]
                d = {}
                ok = True
                for item in its[0][1].items:
                    s2 = s0.copy()
                    s2.env[n.generators[0].target.id] = item
                    ks, vs = self.eval_x(n.key, s2, frame), self.eval_x(n.value, s2, frame)
                    if len(ks) != 1 or len(vs) != 1 or isinstance(ks[0], Outcome) or isinstance(vs[0], Outcome) or not isinstance(ks[0][1], Sv):
                        ok = False
                        break
                    d[ks[0][1].s] = vs[0][1]
                if ok:
                    return [(s0, Dv(d))]
        if isinstance(n, ast.DictComp) and self.eval_comprehensions and len(n.generators) == 1:
            got = self._dict_comprehension(n, st, frame)
            if got is not None:
                return got
        if isinstance(n, (ast.ListComp, ast.GeneratorExp, ast.Dict, ast.Lambda, ast.DictComp, ast.SetComp, ast.Set)):
            return [(st, Unk(ast.unparse(n)[:80]))]
        raise CannotDecide(f'expression kind {type(n).__name__}: {ast.unparse(n)[:60]}')

    def _reduction_call(self, n, st, frame):
        """functools.reduce(operator.mul | imul | add | iadd, <generator over a sequence>, init), math.prod(<generator>) and
        sum(<generator>): the same reduction as the accumulating for-loop - evaluated as that loop (`acc = init; for x in it:
        if cond: acc *= elt`) by the loop handler, so that both spellings give the same canonical atom"""
        f = n.func
        fname = f.id if isinstance(f, ast.Name) else (f.attr if isinstance(f, ast.Attribute) and isinstance(f.value, ast.Name)
                                                       and f.value.id in ('functools', 'math', 'np', 'numpy') else None)
        if fname not in ('reduce', 'prod', 'sum') or n.keywords and any(k.arg not in ('start', 'initial') for k in n.keywords) \
                or fname in self.model.functions:
            return None
        args = list(n.args)
        if fname == 'reduce':
            if len(args) not in (2, 3):
                return None
            opn = args[0]
            oname = opn.id if isinstance(opn, ast.Name) else (opn.attr if isinstance(opn, ast.Attribute) else None)
            if oname in ('mul', 'imul'):
                op = ast.Mult()
            elif oname in ('add', 'iadd'):
                op = ast.Add()
            else:
                return None
            if isinstance(opn, ast.Name) and opn.id in st.env:
                return None
            gen, init = args[1], (args[2] if len(args) == 3 else None)
            if init is None:
                return None
        else:
            if not args or len(args) > 2:
                return None
            op = ast.Mult() if fname == 'prod' else ast.Add()
            gen = args[0]
            init = args[1] if len(args) == 2 else next((k.value for k in n.keywords), None)
            if init is None:
                init = ast.Constant(value=1 if fname == 'prod' else 0)
        if not isinstance(gen, (ast.GeneratorExp, ast.ListComp)) or len(gen.generators) != 1 or gen.generators[0].is_async \
                or not isinstance(gen.generators[0].target, ast.Name):
            return None
        g = gen.generators[0]
        acc = '<reduction>'
        body = [ast.AugAssign(target=ast.Name(id=acc, ctx=ast.Store()), op=op, value=gen.elt)]
        for c in reversed(g.ifs):
            body = [ast.If(test=c, body=body, orelse=[])]
        loop = ast.For(target=g.target, iter=g.iter, body=body, orelse=[])
        ast.copy_location(loop, n)
        ast.fix_missing_locations(loop)
        res = []
        for r in self.eval_x(init, st, frame):
            if isinstance(r, Outcome):
                res.append(r)
                continue
            s0, v0 = r
            s1 = s0.copy()
            s1.env[acc] = v0
            try:
                outs = self.loop_handler(self, loop, s1, frame)
            except CannotDecide:
                return None
            if outs is None:
                return None
            for o in outs:
                s2 = o.copy() if isinstance(o, State) else o.state.copy()
                val = s2.env.pop(acc, None)
                s2.env.pop(g.target.id, None)
                if g.target.id in s0.env:
                    s2.env[g.target.id] = s0.env[g.target.id]
                if val is None:
                    return None
                res.append((s2, val))
        return res

    def _dict_comprehension(self, n, st, frame):
        """{k: v for x in <concrete list>}: the (key, value) pairs are the list comprehension with the same generator; keys are text
        (templates with <...> for unknown pieces).  Two keys that are not provably different may be the same key at run time - the later
        entry then replaces the earlier one - so the evaluation forks: every such pair distinct / every such group collapsed."""
        pairs = ast.copy_location(ast.ListComp(elt=ast.Tuple(elts=[n.key, n.value], ctx=ast.Load()), generators=n.generators), n)
        ast.fix_missing_locations(pairs)
        try:
            rs = self.comprehension(pairs, st, frame)
        except CannotDecide:
            return None
        res = []
        for r in rs:
            if isinstance(r, Outcome):
                res.append(r)
                continue
            s0, tv = r
            if not isinstance(tv, Tv) or not all(isinstance(i, Tv) and len(i.items) == 2 for i in tv.items):
                return None
            keys = []
            for i in tv.items:
                k = i.items[0]
                if isinstance(k, Sv):
                    keys.append(k.s)
                elif isinstance(k, Unk):
                    keys.append(f'<{k.text}>')
                else:
                    return None

            def apart(a, b):
                if '<' not in a and '<' not in b:
                    return a != b
                pa, pb = a.split('<')[0], b.split('<')[0]
                return not (pa.startswith(pb) or pb.startswith(pa))
            maybe = any(keys[i] != keys[j] and not apart(keys[i], keys[j]) for i in range(len(keys)) for j in range(i))
            d = {}
            for k, i in zip(keys, tv.items):
                d[k] = i.items[1]
            res.append((s0, Dv(d)))
            if maybe:
                # the same evaluation with every group of possibly-equal keys collapsed into one entry (first position, last value)
                groups = []
                for k in keys:
                    for g_ in groups:
                        if any(k == x or not apart(k, x) for x in g_):
                            g_.append(k)
                            break
                    else:
                        groups.append([k])
                d2 = {}
                for k, i in zip(keys, tv.items):
                    rep_ = next(g_[0] for g_ in groups if k in g_)
                    d2[rep_] = i.items[1]
                res.append((s0.copy(), Dv(d2)))
        return res

    def comprehension(self, n, st, frame) -> list:
        """[elt for x in it if c]: unrolled over a concrete list; mapped over the generic element of an
        abstract sequence (-> Mv)"""
        if len(n.generators) != 1 or n.generators[0].is_async:
            raise CannotDecide(f'comprehension shape {ast.unparse(n)[:60]}')
        g = n.generators[0]
        if not isinstance(g.target, ast.Name):
            # tuple target over a concrete list: desugared through a fresh name and an unpacking assignment per item
            return self._comprehension_tuple_target(n, st, frame)
        var = g.target.id
        res = []
        for r in self.eval_x(g.iter, st, frame):
            if isinstance(r, Outcome):
                res.append(r)
                continue
            s0, it = r
            saved = s0.env.get(var)

            def restore(s):
                s = s.copy()
                if saved is None:
                    s.env.pop(var, None)
                else:
                    s.env[var] = saved
                return s
            test = None
            if g.ifs:
                test = g.ifs[0] if len(g.ifs) == 1 else ast.copy_location(ast.BoolOp(op=ast.And(), values=list(g.ifs)), n)
            if isinstance(it, Tv):
                cur = [(s0, [])]
                for item in it.items:
                    nxt = []
                    for s, acc in cur:
                        s2 = s.copy()
                        s2.env[var] = item
                        if test is not None:
                            tr, fa, rs = self.branch(test, s2, frame)
                            res.extend(rs)
                        else:
                            tr, fa = [s2], []
                        for sf in fa:
                            nxt.append((sf, acc))
                        for stt in tr:
                            for e in self.eval_x(n.elt, stt, frame):
                                if isinstance(e, Outcome):
                                    res.append(e)
                                else:
                                    nxt.append((e[0], acc + [e[1]]))
                    cur = nxt
                for s, acc in cur:
                    s = restore(s)
                    if it.kind == 'generator' and isinstance(g.iter, ast.Name) and s.env.get(g.iter.id) is it:
                        s.env[g.iter.id] = Tv([], 'generator')
                    res.append((s, Tv(acc)))
                continue
            if isinstance(it, (Seq, Mv)):
                if isinstance(it, Seq):
                    sources = [((), self.typed_atom(f'each({it.path})', it.elem, f'each({it.path})'))]
                    src, filt = it.path, False
                else:
                    sources, src, filt = it.cases, it.src, it.filtered
                cases = []
                for g0, each in sources:
                    s2 = s0.copy()
                    for x in g0:
                        s2 = s2.with_guard(x)
                        if s2 is None:
                            break
                    if s2 is None:
                        continue
                    base = len(s0.guards)
                    s2.env[var] = each
                    if test is not None:
                        tr, fa, rs = self.branch(test, s2, frame)
                        if rs:
                            raise CannotDecide('comprehension condition can raise')
                        filt = True
                    else:
                        tr = [s2]
                    for stt in tr:
                        for e in self.eval_x(n.elt, stt, frame):
                            if isinstance(e, Outcome):
                                raise CannotDecide(f'comprehension element can raise: {ast.unparse(n.elt)[:50]}')
                            cases.append((tuple(e[0].guards[base:]), e[1]))
                res.append((s0, Mv(src, cases, filt)))
                continue
            res.append((s0, Unk(ast.unparse(n)[:80])))
        return res

    def _comprehension_tuple_target(self, n, st, frame):
        g = n.generators[0]
        res = []
        for r in self.eval_x(g.iter, st, frame):
            if isinstance(r, Outcome):
                res.append(r)
                continue
            s0, it = r
            if not isinstance(it, Tv):
                raise CannotDecide(f'comprehension with a tuple target over a non-concrete iterable: {ast.unparse(n)[:60]}')
            saved = dict(s0.env)
            cur = [(s0, [])]
            for item in it.items:
                nxt = []
                for s_, acc in cur:
                    for o in self.assign(g.target, item, s_, frame, getattr(n, 'lineno', 0)):
                        if o.kind != 'fall':
                            res.append(o)
                            continue
                        s2 = o.state
                        if g.ifs:
                            test = g.ifs[0] if len(g.ifs) == 1 else ast.copy_location(ast.BoolOp(op=ast.And(), values=list(g.ifs)), n)
                            tr, fa, rs = self.branch(test, s2, frame)
                            res.extend(rs)
                        else:
                            tr, fa = [s2], []
                        nxt.extend((sf, acc) for sf in fa)
                        for stt in tr:
                            for e in self.eval_x(n.elt, stt, frame):
                                if isinstance(e, Outcome):
                                    res.append(e)
                                else:
                                    nxt.append((e[0], acc + [e[1]]))
                cur = nxt
            for s_, acc in cur:
                s3 = s_.copy()
                for t in ast.walk(g.target):
                    if isinstance(t, ast.Name):
                        if t.id in saved:
                            s3.env[t.id] = saved[t.id]
                        else:
                            s3.env.pop(t.id, None)
                res.append((s3, Tv(acc)))
        return res

    def for_unrolled(self, s: ast.For, st, frame):
        """for x in <concrete list>: unrolled; None when the iterable is not a concrete list"""
        if s.orelse:
            return None
        outs = []
        try:
            its = self.eval_x(s.iter, st, frame)
        except CannotDecide:
            return None
        for r in its:
            if isinstance(r, Outcome):
                outs.append(r)
                continue
            s0, it = r
            if isinstance(it, Dv):
                it = Tv([Sv(k) for k in it.items])
            if not isinstance(it, Tv):
                return None
            if isinstance(s.iter, ast.Name) and it.kind == 'list':
                # a list iterated by name may GROW while it is iterated (`for e in chain: chain.append(e.next)`): the loop
                # visits the items appended by its own body too - iterate by position over the list as each path has it
                work = [(s0, 0)]
                steps = 0
                while work:
                    sc, i = work.pop(0)
                    steps += 1
                    if steps > 256:
                        raise CannotDecide(f'loop over the growing list `{s.iter.id}` does not end within 256 iterations')
                    now = sc.env.get(s.iter.id)
                    items = now.items if isinstance(now, Tv) else it.items
                    if i >= len(items):
                        outs.append(Outcome(sc, 'fall'))
                        continue
                    bound = [o.state for o in self.assign(s.target, items[i], sc, frame, s.lineno) if o.kind == 'fall']
                    for o in self.block(s.body, bound, frame):
                        if o.kind in ('fall', 'continue'):
                            work.append((o.state, i + 1))
                        elif o.kind == 'break':
                            outs.append(Outcome(o.state, 'fall'))
                        else:
                            outs.append(o)
                continue
            cur = [s0]
            for item in it.items:
                nxt = []
                for sc in cur:
                    bound = [o.state for o in self.assign(s.target, item, sc, frame, s.lineno) if o.kind == 'fall']
                    for o in self.block(s.body, bound, frame):
                        if o.kind in ('fall', 'continue'):
                            nxt.append(o.state)
                        elif o.kind == 'break':
                            outs.append(Outcome(o.state, 'fall'))
                        else:
                            outs.append(o)
                cur = nxt
            outs.extend(Outcome(sc, 'fall') for sc in cur)
        return outs

    def while_concrete(self, s: ast.While, st, frame, bound=64):
        """while over concrete data: unrolled as long as the test is decided without a new assumption"""
        if s.orelse:
            raise CannotDecide('while/else')
        outs, cur = [], [st]
        for _ in range(bound):
            nxt = []
            for sc in cur:
                tr, fa, rs = self.branch(s.test, sc, frame)
                outs.extend(rs)
                for x in tr + fa:
                    if len(x.guards) != len(sc.guards):
                        raise CannotDecide(f'while test `{ast.unparse(s.test)[:50]}` is not decided by the concrete data')
                outs.extend(Outcome(x, 'fall') for x in fa)
                for o in (self.block(s.body, tr, frame) if tr else []):
                    if o.kind in ('fall', 'continue'):
                        nxt.append(o.state)
                    elif o.kind == 'break':
                        outs.append(Outcome(o.state, 'fall'))
                    else:
                        outs.append(o)
            cur = nxt
            if not cur:
                return outs
        raise CannotDecide(f'while loop at line {s.lineno} does not terminate within {bound} iterations on the concrete data')

    def match_stmt(self, s: ast.Match, st, frame):
        res = []
        for r in self.eval_x(s.subject, st, frame):
            if isinstance(r, Outcome):
                res.append(r)
                continue
            pending = [r[0]]
            subj = r[1]
            for case in s.cases:
                nxt = []
                # `case C():` / `case C() | D():` on a named subject is isinstance(subject, (C, D)): decided like an if-test
                pat = case.pattern
                if isinstance(pat, ast.MatchSequence) and len(pat.patterns) == 2 and isinstance(subj, Seq) and case.guard is None \
                        and sum(isinstance(q, ast.MatchStar) and q.name in (None, '_') for q in pat.patterns) == 1 \
                        and sum(isinstance(q, ast.MatchAs) and q.pattern is None and q.name is not None for q in pat.patterns) == 1:
                    # `case [*_, last]:` / `case [first, *_]:` on an abstract sequence: it matches when the sequence is not empty and
                    # binds its last / first element
                    last = isinstance(pat.patterns[0], ast.MatchStar)
                    cap = pat.patterns[1 if last else 0].name
                    for sc in pending:
                        g_ = G('truth', (subj.path,))
                        a_, b_ = sc.with_guard(g_), sc.with_guard(g_.negate())
                        if a_ is not None:
                            a_ = a_.copy()
                            a_.env[cap] = self.subscript(subj, N(Rat.const(-1 if last else 0), 'int'), a_, frame, s.subject)
                            res.extend(self.block(case.body, [a_], frame))
                        if b_ is not None:
                            nxt.append(b_)
                    pending = nxt
                    continue
                test = self._pattern_test(s.subject, case.pattern)
                if test is not None:
                    test = ast.copy_location(test, case.pattern)
                    ast.fix_missing_locations(test)
                    for sc in pending:
                        tr, fa, rs = self.branch(test, sc, frame)
                        res.extend(rs)
                        nxt.extend(fa)
                        if case.guard is not None:
                            tr2 = []
                            for t_ in tr:
                                a, b, rs2 = self.branch(case.guard, t_, frame)
                                res.extend(rs2)
                                tr2 += a
                                nxt.extend(b)
                            tr = tr2
                        if tr:
                            res.extend(self.block(case.body, tr, frame))
                    pending = nxt
                    continue
                for sc in pending:
                    m = self.pattern(case.pattern, subj, sc)
                    if m is None:
                        nxt.append(sc)
                        continue
                    if case.guard is not None:
                        tr, fa, rs = self.branch(case.guard, m, frame)
                        res.extend(rs)
                        nxt.extend(fa)
                    else:
                        tr = [m]
                    if tr:
                        res.extend(self.block(case.body, tr, frame))
                pending = nxt
            res.extend(Outcome(sc, 'fall') for sc in pending)
        return res

    @staticmethod
    def _pattern_test(subject, p):
        """the test a class pattern stands for: `case C():` on a name is isinstance(name, C); `case C(), D():` on `a, b` is
        isinstance(a, C) and isinstance(b, D) (a wildcard position tests nothing); None for other patterns"""
        def one(sub, q):
            if isinstance(q, ast.MatchAs) and q.pattern is None and q.name is None:
                return ast.Constant(value=True)
            if isinstance(q, ast.MatchSingleton) and isinstance(sub, (ast.Name, ast.Attribute)):
                # `case None:` / `case True:` compare by identity
                return ast.Compare(left=sub, ops=[ast.Is()], comparators=[ast.Constant(value=q.value)])
            if isinstance(q, ast.MatchValue) and isinstance(q.value, ast.Attribute) and isinstance(sub, (ast.Name, ast.Attribute)):
                # `case module.CONSTANT:` is `subject == module.CONSTANT` (subject on the left)
                return ast.Compare(left=sub, ops=[ast.Eq()], comparators=[q.value])
            classes = SX._class_patterns(q)
            if classes is None or not isinstance(sub, (ast.Name, ast.Attribute)):
                return None
            return ast.Call(func=ast.Name('isinstance', ast.Load()),
                            args=[sub, classes[0] if len(classes) == 1 else ast.Tuple(elts=classes, ctx=ast.Load())], keywords=[])
        if isinstance(subject, ast.Name) or (isinstance(subject, ast.Attribute) and not any(
                isinstance(x, ast.Call) for x in ast.walk(subject))):
            if isinstance(subject, ast.Attribute) and isinstance(p, ast.MatchAs) and p.pattern is None and p.name is None:
                return ast.Constant(value=True)
            t = one(subject, p)
            return t if t is not None and not isinstance(t, ast.Constant) else None
        if isinstance(subject, ast.Tuple):
            if isinstance(p, ast.MatchAs) and p.pattern is None and p.name is None:
                return ast.Constant(value=True)
            if isinstance(p, ast.MatchSequence) and len(p.patterns) == len(subject.elts) and not any(isinstance(q, ast.MatchStar) for q in p.patterns):
                tests = [one(sub, q) for sub, q in zip(subject.elts, p.patterns)]
                if any(t is None for t in tests):
                    return None
                tests = [t for t in tests if not isinstance(t, ast.Constant)]
                if not tests:
                    return ast.Constant(value=True)
                return tests[0] if len(tests) == 1 else ast.BoolOp(op=ast.And(), values=tests)
        return None

    @staticmethod
    def _class_patterns(p):
        """[class expression nodes] when the pattern is `C()` or an or-pattern of such (no sub-patterns), else None"""
        if isinstance(p, ast.MatchClass) and not p.patterns and not p.kwd_patterns:
            return [p.cls]
        if isinstance(p, ast.MatchOr):
            out = []
            for q in p.patterns:
                c = SX._class_patterns(q)
                if c is None:
                    return None
                out += c
            return out
        return None

    def pattern(self, p, v, st):
        """state with the captures bound if the pattern statically matches, None if it statically does not"""
        if isinstance(p, ast.MatchAs):
            if p.pattern is not None:
                st = self.pattern(p.pattern, v, st)
                if st is None:
                    return None
            if p.name is not None:
                st = st.copy()
                st.env[p.name] = v
            return st
        if isinstance(p, ast.MatchOr):
            for q in p.patterns:
                m = self.pattern(q, v, st)
                if m is not None:
                    return m
            return None
        if isinstance(p, ast.MatchSingleton):
            if p.value is None:
                if isinstance(v, NoneV):
                    return st
                if isinstance(v, Q) and self.none_name(v) is not None:
                    return self._undecided(p)          # a typed atom (an Optional field) may be None at run time
                if isinstance(v, (N, Q, Sv, Bv, Tv, Dyn)):
                    return None if not isinstance(v, Dyn) else self._undecided(p)
            if isinstance(v, Bv) and isinstance(p.value, bool):
                return st if v.b is p.value else None
            return self._undecided(p)
        if isinstance(p, ast.MatchValue):
            c = self.const_value(p.value) if isinstance(p.value, ast.Constant) else None
            if isinstance(c, N) and isinstance(v, N) and v.term.is_const():
                return st if v.term.const_value() == c.term.const_value() else None
            if isinstance(c, Sv) and isinstance(v, Sv):
                return st if v.s == c.s else None
            if isinstance(v, (NoneV, Tv)):
                return None
            return self._undecided(p)
        if isinstance(p, ast.MatchSequence):
            if not isinstance(v, Tv):
                if isinstance(v, (NoneV, N, Sv, Bv, Q)):
                    return None
                return self._undecided(p)
            stars = [i for i, q in enumerate(p.patterns) if isinstance(q, ast.MatchStar)]
            items = v.items
            if not stars:
                if len(items) != len(p.patterns):
                    return None
                pairs = list(zip(p.patterns, items))
                star = None
            else:
                k = stars[0]
                tail = len(p.patterns) - k - 1
                if len(items) < k + tail:
                    return None
                pairs = list(zip(p.patterns[:k], items[:k])) + (list(zip(p.patterns[k + 1:], items[len(items) - tail:])) if tail else [])
                star = (p.patterns[k], items[k:len(items) - tail])
            for q, item in pairs:
                st = self.pattern(q, item, st)
                if st is None:
                    return None
            if star and star[0].name:
                st = st.copy()
                st.env[star[0].name] = Tv(list(star[1]))
            return st
        return self._undecided(p)

    @staticmethod
    def _undecided(p):
        raise CannotDecide(f'match pattern {ast.unparse(p)[:50]} on a value that is not statically known')

    def name(self, ident, st, frame) -> V:
        if ident in st.env:
            return st.env[ident]
        if ident in ('True', 'False'):
            return Bv(ident == 'True')
        if ident in self.model.classes:
            return Cv(ident)
        if ident in ('float', 'int', 'str', 'bool', 'list', 'tuple', 'dict', 'Callable'):
            return Cv(ident)
        mod, c = self.model.resolve_const(frame['module'], ident)
        if c is not None:
            return self.module_const(mod, ident, c)
        if ident in self.model.functions:
            return Fv(ident)
        if ident == 'pi':
            return N(Rat.atom('pi'), 'float')
        return Fv(ident)

    def module_const(self, mod, ident, node) -> V:
        if isinstance(node, ast.Call) and isinstance(node.func, ast.Name) and self.model.is_quantity(node.func.id):
            kind = node.func.id
            kw = {k.arg: k.value for k in node.keywords}
            val = kw.get('value', node.args[0] if node.args else None)
            unit = kw.get('unit', node.args[1] if len(node.args) > 1 else None)
            if isinstance(unit, ast.Constant) and isinstance(unit.value, str):
                try:
                    v = const_fold(val)
                except AnalysisError:
                    return Dyn(Rat.atom(ident))
                return Q(kind, v * self.tables.factor(kind, unit.value), U(lit=unit.value))
        if isinstance(node, ast.Constant):
            return self.const_value(node)
        if isinstance(node, ast.Call) and isinstance(node.func, ast.Name) and node.func.id == 'object' and not node.args and not node.keywords:
            return Xv(f'{mod}:{ident}')
        if isinstance(node, ast.Lambda):
            return Lv(node, mod)
        if isinstance(node, ast.Attribute) and isinstance(node.value, ast.Name) and node.value.id == 'operator':
            return Fv('operator.' + node.attr)
        if isinstance(node, ast.Dict) and node.keys and all(isinstance(k, ast.Constant) and isinstance(k.value, str) for k in node.keys):
            # a module-level dispatch table
            return Dv({k.value: self.module_const(mod, f'{ident}[{k.value!r}]', v) for k, v in zip(node.keys, node.values)})
        if isinstance(node, (ast.Tuple, ast.List)):
            # a module-level table: tuple/list of constants, names of other module constants, nested tuples
            items = []
            for e in node.elts:
                if isinstance(e, ast.Name):
                    m2, c2 = self.model.resolve_const(mod, e.id)
                    if c2 is None:
                        return Dyn(Rat.atom(ident))
                    items.append(self.module_const(m2, e.id, c2))
                else:
                    items.append(self.module_const(mod, f'{ident}[{len(items)}]', e))
            return Tv(items, 'tuple' if isinstance(node, ast.Tuple) else 'list')
        try:
            return N(const_fold(node))
        except AnalysisError:
            return Dyn(Rat.atom(ident))

    # ---- attribute access
    def load_attr(self, obj: V, attr: str, st: State, frame, node) -> list:
        if isinstance(obj, Q):
            if attr.startswith('__') and not attr.endswith('__') and not self.private_visible(obj.kind, frame.get('cls'), attr):
                # name mangling: `x.__value` written inside class C reads `_C__value`, which only objects
                # initialised by C's own code carry
                return [Outcome(st, 'raise', 'AttributeError', getattr(node, 'lineno', 0))]
            if attr in ('value',) or attr.endswith('__value'):
                return [(st, N(obj.term / self.ufactor(obj.kind, obj.unit), 'float' if False else None))]
            if attr == 'unit' or attr.endswith('__unit'):
                if obj.unit is None:
                    raise CannotDecide('unit of a compound quantity')
                return [(st, Uv(obj.unit))]
            if attr == '__class__':
                return [(st, Cv(obj.kind))]
            if attr.endswith('__UNITS'):
                return [(st, Unk(f'{frame["cls"] or obj.kind}.__UNITS'))]
            m = self.model.find_member(obj.kind, attr)
            if m is not None and m.kind == 'property':
                outs = self.run(m.node, m.module, m.cls, obj, {}, st, frame['depth'] + 1)
                return [(o.state, o.value) if o.kind == 'return' else ((o.state, NoneV()) if o.kind == 'fall' else o)
                        for o in outs]
            return [(st, Fv(f'bound:{attr}'))]   # bound method; resolved in call()
        if isinstance(obj, Fv) and obj.recv is None and obj.name not in self.model.functions and attr in self.model.classes \
                and not obj.name.startswith(('bound:', 'operator.', 'interp')):
            return [(st, Cv(attr))]           # `module.ClassName` through an imported module object
        if isinstance(obj, Cv):
            if attr == '__name__':
                return [(st, Sv(obj.name))]
            return [(st, Unk(f'{obj.name}.{attr}'))]
        if isinstance(obj, Ov):
            return self.load_obj_attr(obj, attr, st, frame, node)
        if isinstance(obj, Dyn):
            if attr in ('value', 'unit'):
                raise CannotDecide(f'.{attr} of a value of unknown kind: {self.ctx.show(obj.term)[:60]}')
            return [(st, Fv(f'bound:{attr}'))]
        if isinstance(obj, Seq):
            return [(st, Unk(f'{obj.path}.{attr}'))]
        if isinstance(obj, N) and attr == '__class__':
            return [(st, Cv('number'))]
        if isinstance(obj, (Unk, Fv, Sv, Tv, NoneV, N, Bsym, Bv, Uv)):
            return [(st, Unk(f'{self.show(obj)}.{attr}'))]
        raise CannotDecide(f'attribute {attr} of {obj!r}')

    def private_visible(self, kind, cls, attr) -> bool:
        """does an instance of `kind` carry the private attribute `attr` as mangled inside class `cls`?"""
        if not cls or cls not in self.model.classes or kind not in self.model.classes:
            return True
        if cls not in self.model.mro(kind):
            return False
        key = (cls, attr)
        cache = self.__dict__.setdefault('_priv_cache', {})
        if key not in cache:
            ci = self.model.classes[cls]
            cache[key] = any(isinstance(n, ast.Attribute) and isinstance(n.ctx, ast.Store) and n.attr == attr
                             and isinstance(n.value, ast.Name) and n.value.id == 'self'
                             for n in ast.walk(ci.node))
        return cache[key]

    def leaf_exact(self, obj: Ov) -> Ov:
        """an object whose static class is concrete and has no subclasses has exactly that class"""
        if obj.exact or not obj.cls or obj.cls not in self.model.classes:
            return obj
        if self.model.subclasses(obj.cls, strict=True) or self.model.is_abstract_class(obj.cls):
            return obj
        return Ov(obj.path, obj.cls, True)

    def load_obj_attr(self, obj: Ov, attr, st, frame, node):
        obj = self.leaf_exact(obj)
        cls = obj.cls
        if attr == '__class__':
            return [(st, Cv(cls or '?', of=obj.path))]
        private = attr.startswith('__') and not attr.endswith('__')
        if private:
            mangled = self.model.mangle(frame['cls'] or cls, attr)
            if (obj.path, mangled) in st.heap:
                return [(st, st.heap[(obj.path, mangled)])]
            owner = frame['cls'] or cls
            ci = self.model.classes.get(owner)
            # a private property / method of the class the code is written in
            pm = ci.members.get(attr) if ci else None
            if pm is not None and pm.kind == 'property':
                outs = self.run(pm.node, pm.module, pm.cls, obj, {}, st, frame['depth'] + 1)
                return [(o.state, o.value) if o.kind == 'return' else ((o.state, NoneV()) if o.kind == 'fall' else o)
                        for o in outs]
            if pm is not None:
                return [(st, Fv(f'bound:{attr}', obj))]
            # class attribute (e.g. __UNITS)?
            if ci and attr in ci.class_attrs:
                d = ci.class_attrs[attr]
                if not attr.endswith('__UNITS') and isinstance(d, ast.Dict) and d.keys and all(
                        isinstance(k, ast.Constant) and isinstance(k.value, str) for k in d.keys):
                    vals = {k.value: self.const_value(v) for k, v in zip(d.keys, d.values)}
                    if not any(isinstance(v, Unk) for v in vals.values()):
                        return [(st, Dv(vals))]          # a second constant table of the class (string keys, constant values)
                if isinstance(d, (ast.Tuple, ast.List)) and d.elts:
                    vals = [self.const_value(v) for v in d.elts]
                    if not any(isinstance(v, Unk) for v in vals):
                        return [(st, Tv(vals, 'tuple' if isinstance(d, ast.Tuple) else 'list'))]     # class-level tuple of constants
                return [(st, Unk(f'{owner}.{attr}'))]
            al = self.ctor_alias(owner, mangled)
            if al is not None:
                return self.eval_alias(al, obj, owner, st, frame)
            ty = self.field_type(owner, mangled)
            name = f'{obj.path}.{self.canon_field(cls or owner, mangled)}'
            ver = st.vers.get((obj.path, mangled))
            if ver:
                name += f'#{ver}'
            if ty is None:
                pub = self.field_public().get(mangled)
                if pub:
                    ty = self.member_type(cls or owner, pub)[0]
            return [(st, self.typed_atom(name, ty, name))]
        if (obj.path, attr) in st.heap:
            return [(st, st.heap[(obj.path, attr)])]
        if cls and obj.exact:
            m = self.model.find_member(cls, attr)
            if m is not None and m.kind == 'property':
                tf = self.trivial_getter_field(cls, attr)
                if tf is not None:
                    if (obj.path, tf) in st.heap:
                        return [(st, st.heap[(obj.path, tf)])]
                    al = self.ctor_alias(tf[1:].split('__')[0], tf) if (attr not in self.opaque_calls and f'{m.cls}.{attr}' not in self.opaque_calls) else None
                    if al is not None:
                        return self.eval_alias(al, obj, tf[1:].split('__')[0], st, frame)
                    ty = self.member_type(cls, attr)[0]
                    if ty is None:
                        owner = tf[1:].split('__')[0]
                        ty = self.field_type(owner, tf)
                    name = f'{obj.path}.{attr}'
                    return [(st, self.typed_atom(name, ty, name))]
                if f'{m.cls}.{attr}' in self.opaque_calls or attr in self.opaque_calls:
                    ty, _ = self.member_type(cls, attr)
                    return [(st, self.typed_atom(f'{obj.path}.{attr}', ty))]
                outs = self.run(m.node, m.module, m.cls, obj, {}, st, frame['depth'] + 1)
                res = []
                ty = None
                for o in outs:
                    if o.kind == 'return':
                        v = o.value
                        if isinstance(v, Dyn):
                            # refine a value of unknown static type by the getter's return annotation
                            if ty is None:
                                ty = self.member_type(cls, attr)[0] or 'unknown'
                            v = self.cast(v, ty)
                        res.append((o.state, v))
                    elif o.kind == 'fall':
                        res.append((o.state, NoneV()))
                    else:
                        res.append(o)
                return res
            if m is not None:
                return [(st, Fv(f'bound:{attr}', obj))]
            ca_cls, ca = self.model.find_class_attr(cls, attr)
            if ca is not None:
                if isinstance(ca, (ast.Tuple, ast.List)) and ca.elts:
                    vals = [self.const_value(v) for v in ca.elts]
                    if not any(isinstance(v, Unk) for v in vals):
                        return [(st, Tv(vals, 'tuple' if isinstance(ca, ast.Tuple) else 'list'))]
                return [(st, Unk(f'{ca_cls}.{attr}'))]
            name = f'{obj.path}.{attr}'
            return [(st, Dyn(Rat.atom(name)))]
        # static type only: typed atom, named by the private field every possible class resolves the
        # getter to (so that narrowing the class later does not change the atom), else by public name
        ty, m = self.member_type(cls, attr) if cls else (None, None)
        if m is not None and m.kind != 'property':
            return [(st, Fv(f'bound:{attr}', obj))]
        name = f'{obj.path}.{attr}'
        return [(st, self.typed_atom(name, ty, name))]

    def field_public(self):
        """{mangled private field -> public property name} for properties that return the field unchanged"""
        if '_fp' not in self._field_types:
            mp = {}
            for c, ci in self.model.classes.items():
                for m in ci.members.values():
                    if m.kind != 'property':
                        continue
                    body = strip_docstring(m.node.body)
                    if len(body) == 1 and isinstance(body[0], ast.Return) and isinstance(body[0].value, ast.Attribute):
                        v = body[0].value
                        if isinstance(v.value, ast.Name) and v.value.id == 'self' and v.attr.startswith('__') \
                                and not v.attr.endswith('__'):
                            mp.setdefault(self.model.mangle(c, v.attr), m.name)
            self._field_types['_fp'] = mp
        return self._field_types['_fp']

    def canon_field(self, cls, mangled):
        """canonical attribute name of a private field of an object of class cls: the public property that
        returns exactly this field for that class, else the mangled name"""
        pub = self.field_public().get(mangled)
        if pub and cls and self.trivial_getter_field(cls, pub) == mangled:
            return pub
        return mangled

    def trivial_getter_field(self, cls, attr, depth=0):
        """mangled field a property getter returns unchanged (through `return super().attr` chains)"""
        m = self.model.find_member(cls, attr)
        start = None
        for _ in range(12):
            if m is None or m.kind != 'property':
                return None
            body = strip_docstring(m.node.body)
            if len(body) != 1 or not isinstance(body[0], ast.Return) or body[0].value is None:
                return None
            v = body[0].value
            if isinstance(v, ast.Attribute) and isinstance(v.value, ast.Name) and v.value.id == 'self' \
                    and v.attr.startswith('__') and not v.attr.endswith('__'):
                return self.model.mangle(m.cls, v.attr)
            if isinstance(v, ast.Attribute) and isinstance(v.value, ast.Call) and isinstance(v.value.func, ast.Name) \
                    and v.value.func.id == 'super' and not v.value.args and v.attr == attr:
                m = self.model.find_member(cls, attr, start_after=m.cls)
                continue
            return None
        return None

    def common_field(self, cls, attr):
        key = ('cf', cls, attr)
        if key in self._field_types:
            return self._field_types[key]
        cands = [c for c in self.model.subclasses(cls) if not self.model.is_abstract_class(c)
                 and self.model.find_member(c, attr) is not None]
        fields = {self.trivial_getter_field(c, attr) for c in cands}
        out = fields.pop() if len(fields) == 1 else None
        self._field_types[key] = out
        return out

    def cast(self, v: Dyn, ty):
        if ty == 'num':
            return N(v.term)
        if isinstance(ty, tuple) and ty[0] == 'seq':
            return Seq(self.none_name(v) or self.ctx.show(v.term), ty[1])
        if isinstance(ty, tuple) and ty[0] == 'obj':
            return Ov(self.none_name(v) or self.ctx.show(v.term), ty[1], False)
        if isinstance(ty, tuple) and ty[0] == 'q':
            t = v.term
            sym = None
            if len(t.n.t) == 1 and t.d.is_const():
                (mono, c), = t.n.t.items()
                if c == 1 and len(mono) == 1 and mono[0][1] == 1:
                    sym = mono[0][0]
            return Q(ty[1], t, U(sym=sym) if sym else None)
        return v

    # ---- arithmetic
    def neg(self, v):
        if isinstance(v, N):
            return N(-v.term, v.py)
        if isinstance(v, Q):
            return Q(v.kind, -v.term, v.unit)
        if isinstance(v, Dyn):
            return Dyn(-v.term)
        raise CannotDecide(f'negation of {v!r}')

    def binop(self, op, l: V, r: V, st, node):
        opc = {ast.Add: '+', ast.Sub: '-', ast.Mult: '*', ast.Div: '/', ast.Pow: '**'}.get(type(op))
        if opc is None and isinstance(op, (ast.FloorDiv, ast.Mod)) and isinstance(l, (N, Dyn)) and isinstance(r, (N, Dyn)):
            # floor division / remainder of numbers: an opaque function of the operands (exact constants are folded)
            if l.term.is_const() and r.term.is_const() and r.term.const_value() != 0:
                a, b = l.term.const_value(), r.term.const_value()
                return N(Rat.const(a // b if isinstance(op, ast.FloorDiv) else a % b))
            return N(Rat.atom(self.ctx.fatom('call:floordiv' if isinstance(op, ast.FloorDiv) else 'call:mod', (l.term, r.term))))
        if opc is None:
            raise CannotDecide(f'operator {type(op).__name__}')
        if opc == '**':
            if isinstance(r, N) and r.term.is_const() and r.term.const_value().denominator == 1 and isinstance(l, (N, Dyn)):
                t = self.ctx.reduce(l.term ** int(r.term.const_value()))
                return N(t, l.py if isinstance(l, N) else None) if isinstance(l, N) else Dyn(t)
            raise CannotDecide(f'power {ast.unparse(node)[:50]}')
        if isinstance(l, Sv) and isinstance(r, Sv) and opc == '+':
            return Sv(l.s + r.s)
        if isinstance(l, (Unk, Sv)) or isinstance(r, (Unk, Sv)):
            return Unk(ast.unparse(node)[:80])
        if isinstance(l, NoneV) or isinstance(r, NoneV):
            return Outcome(st, 'raise', 'TypeError', node.lineno)
        f = {'+': lambda a, b: a + b, '-': lambda a, b: a - b, '*': lambda a, b: a * b, '/': lambda a, b: a / b}[opc]
        if isinstance(l, Q) or isinstance(r, Q):
            # operator triples interpreted natively: what the dunders really do for them is C06's dispatch model
            self.arith_log.add((l.kind if isinstance(l, Q) else 'number', opc, r.kind if isinstance(r, Q) else 'number'))
        if opc == '/':
            rt = r.term if isinstance(r, (N, Q, Dyn)) else None
            if rt is not None and rt.is_zero():
                return Outcome(st, 'raise', 'ZeroDivisionError', node.lineno)
            if rt is not None and self.track_div_zero and not rt.is_const():
                self.div_sites.append((node, rt, tuple(st.guards), tuple(t for k, t in st.notes if k == 'tested')))
        if isinstance(l, Dyn) or isinstance(r, Dyn):
            if isinstance(l, (N, Q, Dyn)) and isinstance(r, (N, Q, Dyn)):
                return Dyn(self.ctx.reduce(f(l.term, r.term)))
            raise CannotDecide(f'operands of {ast.unparse(node)[:60]}')
        if isinstance(l, N) and isinstance(r, N):
            py = 'float' if (opc == '/' or 'float' in (l.py, r.py)) else ('int' if l.py == r.py == 'int' else None)
            if opc == '/' and self.track_div_zero and not r.term.is_const():
                g = make_cmp('==', r.term)
                if static_truth(g) is not False and not implies(st.guards, g.negate()):
                    self.div_zero_sites.append((node.lineno, self.ctx.show(r.term)[:80], len(st.effects)))
                    st.effects = st.effects + (('may-div-zero', self.ctx.show(r.term)[:80], node.lineno),)
            return N(self.ctx.reduce(f(l.term, r.term)), py)
        if isinstance(l, Q) and isinstance(r, N):
            if opc in '*/':
                return Q(l.kind, self.ctx.reduce(f(l.term, r.term)), l.unit)
            return Outcome(st, 'raise', 'TypeError', node.lineno)
        if isinstance(l, N) and isinstance(r, Q):
            if opc == '*':
                return Q(r.kind, self.ctx.reduce(l.term * r.term), r.unit)
            return Outcome(st, 'raise', 'TypeError', node.lineno)
        if isinstance(l, Q) and isinstance(r, Q):
            k = result_kind(l.kind, opc, r.kind)
            if k is None:
                return Outcome(st.with_effect(('dimension-error', l.kind, opc, r.kind, node.lineno)),
                               'raise', 'TypeError', node.lineno)
            t = self.ctx.reduce(f(l.term, r.term))
            if k == 'number':
                return N(t, 'float')
            if opc in '+-':
                return Q(k, t, l.unit)
            return Q(k, t, U(lit=self.si_unit(k)))
        raise CannotDecide(f'operands of {ast.unparse(node)[:60]}: {l!r}, {r!r}')

    def si_unit(self, kind):
        tab = self.tables.table_of(kind)
        for u, f in tab.items():
            if f.is_const() and f.const_value() == 1:
                return u
        raise CannotDecide(f'no SI unit in the table of {kind}')

    def compare(self, n: ast.Compare, st, frame):
        if len(n.ops) != 1:
            # a < b < c  ==  a < b and b < c  (the middle operands are names/constants/attribute loads in gearpy)
            operands = [n.left] + list(n.comparators)
            parts = [ast.copy_location(ast.Compare(left=a, ops=[op], comparators=[b]), n)
                     for a, op, b in zip(operands, n.ops, operands[1:])]
            if any(isinstance(x, ast.Call) for mid in operands[1:-1] for x in ast.walk(mid)):
                # a middle operand with a call is evaluated once: bind every operand to a temporary first, then chain
                res = []
                for r in self.eval_list(operands, st, frame):
                    if isinstance(r, Outcome):
                        res.append(r)
                        continue
                    s1, vals = r
                    s2 = s1.copy()
                    names = []
                    for i, v in enumerate(vals):
                        nm = f'<cmp{id(n)}:{i}>'
                        s2.env[nm] = v
                        names.append(ast.copy_location(ast.Name(id=nm, ctx=ast.Load()), n))
                    parts2 = [ast.copy_location(ast.Compare(left=a, ops=[op], comparators=[b]), n)
                              for a, op, b in zip(names, n.ops, names[1:])]
                    res.extend(self.eval_x(ast.copy_location(ast.BoolOp(op=ast.And(), values=parts2), n), s2, frame))
                return res
            return self.eval_x(ast.copy_location(ast.BoolOp(op=ast.And(), values=parts), n), st, frame)
        op = n.ops[0]
        if isinstance(op, (ast.In, ast.NotIn)) and isinstance(n.comparators[0], (ast.Tuple, ast.List, ast.Set)) \
                and 1 <= len(n.comparators[0].elts) <= 6 and not any(isinstance(x, ast.Call) for x in ast.walk(n)) \
                and all(isinstance(e, (ast.Name, ast.Attribute)) for e in n.comparators[0].elts):
            # x in (A, B)  ==  x == A or x == B   (membership in a display of names: the same atoms as the == tests)
            neg = isinstance(op, ast.NotIn)
            parts = [ast.copy_location(ast.Compare(left=n.left, ops=[ast.NotEq() if neg else ast.Eq()], comparators=[e]), n)
                     for e in n.comparators[0].elts]
            if len(parts) == 1:
                return self.eval_x(parts[0], st, frame)
            return self.eval_x(ast.copy_location(ast.BoolOp(op=ast.And() if neg else ast.Or(), values=parts), n), st, frame)
        res = []
        for r in self.eval_list([n.left, n.comparators[0]], st, frame):
            if isinstance(r, Outcome):
                res.append(r)
                continue
            s, (l, rr) = r
            v = self.compare_values(op, l, rr, s, n)
            res.append(v if isinstance(v, Outcome) else (s, v))
        return res

    def _checked_bool_param(self, l, st, frame_fn=None):
        """the truth atom of a parameter that some function of the package checks with isinstance(<name>, bool) before use"""
        if l.guard.kind != 'truth' or not isinstance(l.guard.key[0], str) or not l.guard.key[0].isidentifier():
            return False
        name = l.guard.key[0]
        if not hasattr(self, '_bool_checked'):
            self._bool_checked = set()
            for tree in self.model.trees.values():
                for c in ast.walk(tree):
                    if isinstance(c, ast.Call) and isinstance(c.func, ast.Name) and c.func.id == 'isinstance' and len(c.args) == 2 \
                            and isinstance(c.args[0], ast.Name) and isinstance(c.args[1], ast.Name) and c.args[1].id == 'bool':
                        self._bool_checked.add(c.args[0].id)
        return name in self._bool_checked and name in st.env

    def compare_values(self, op, l, r, st, n):
        if isinstance(op, (ast.Is, ast.IsNot)):
            neg = isinstance(op, ast.IsNot)
            if isinstance(r, NoneV):
                if isinstance(l, NoneV):
                    return Bv(not neg)
                name = self.none_name(l)
                if name is None:
                    return Bv(neg)
                g = G('isnone', (name,))
                return Bsym(g.negate() if neg else g)
            if isinstance(l, Xv) or isinstance(r, Xv):
                x, other = (l, r) if isinstance(l, Xv) else (r, l)
                if isinstance(other, Xv):
                    return Bv((other.name == x.name) != neg)
                if isinstance(other, (Q, N, Sv, Tv, NoneV, Bv, Cv, Dv, Uv)) or (isinstance(other, Ov) and other.cls not in (None, 'object')):
                    return Bv(neg)          # a value of another type is never the sentinel object
            if isinstance(r, Bv) and isinstance(l, Bsym) and (self._checked_bool_param(l, st, frame_fn=getattr(n, '_frame_fn', None)) or (
                    isinstance(n, ast.Compare) and len(n.ops) == 1
                    and isinstance(n.left, ast.Call) and isinstance(n.left.func, ast.Name) and n.left.func.id == 'bool')):
                # a bool-typed parameter is a truth atom;
                # the result of bool(...) is one of the two singletons (a comparison's result need not be: numpy.bool_)
                g_ = l.guard if r.b else l.guard.negate()
                return Bsym(g_.negate() if neg else g_)
            if isinstance(r, Bv) and isinstance(l, (Dyn, N, Unk, Ov)):
                # `x is True` on a value that passed isinstance(x, bool): x is one of the two singletons, so this is its truth value
                nm_ = self.none_name(l) or self.show(l)
                if any(g_.kind == 'isinstance' and g_.pol and g_.key[0] == nm_ and tuple(g_.key[1]) == ('bool',) for g_ in st.guards):
                    t_ = self.truth(l)
                    if isinstance(t_, bool):
                        return Bv((t_ is r.b) != neg)
                    g_ = t_ if r.b else t_.negate()
                    return Bsym(g_.negate() if neg else g_)
            if isinstance(r, Bv) and isinstance(l, (Bv, NoneV)):
                # `flag is False` on a concrete flag: True / False / None are singletons
                same = isinstance(l, Bv) and l.b is r.b
                return Bv(same != neg)
            if isinstance(l, (N, Dyn, Q)) and isinstance(r, (N, Dyn, Q)):
                # identity of two numbers / quantities: CPython answers like == only for cached small ints, so the decision
                # is not a function of the values (`len(a) is not len(b)` is False up to 256 and True above)
                self.identity_compares.append((getattr(n, 'lineno', 0), ast.unparse(n)[:80]))
                return Bsym(G('opaque', (f'identity:{ast.unparse(n)[:60]}',)))
            g = G('eq', tuple(sorted((self.show(l), self.show(r)))))
            return Bsym(g.negate() if neg else g)
        if isinstance(op, (ast.In, ast.NotIn)):
            if isinstance(r, Unk) and '__UNITS' in r.text:
                fam = r.text.split('.')[0]
                member = None
                if isinstance(l, Sv):
                    member = l.s in self.tables.table_of(fam)
                elif isinstance(l, Uv):
                    member = True if l.unit.lit is None else l.unit.lit in self.tables.table_of(fam)
                if member is not None:
                    return Bv(member != isinstance(op, ast.NotIn))
            if isinstance(l, Uv) and isinstance(r, Dv):
                if l.unit.lit is None:
                    raise CannotDecide(f'membership of a symbolic unit in a constant table: {ast.unparse(n)[:60]}')
                return Bv((l.unit.lit in r.items) != isinstance(op, ast.NotIn))
            if isinstance(l, Sv) and isinstance(r, Dv):
                return Bv((l.s in r.items) != isinstance(op, ast.NotIn))
            if self.eval_comprehensions and isinstance(l, Sv) and isinstance(r, (Tv, Dv)):
                keys = list(r.items) if isinstance(r, Dv) else [i.s if isinstance(i, Sv) else None for i in r.items]
                if None not in keys:
                    return Bv((l.s in keys) != isinstance(op, ast.NotIn))
            g = G('in', (self.show(l), self.show(r)))
            return Bsym(g.negate() if isinstance(op, ast.NotIn) else g)
        num_l = isinstance(l, (N, Dyn))
        num_r = isinstance(r, (N, Dyn))
        if (num_l and num_r) or (isinstance(l, Q) and isinstance(r, Q)) or \
                (isinstance(l, (Q, Dyn)) and isinstance(r, (Q, Dyn))):
            if isinstance(l, Q) and isinstance(r, Q):
                bl, br = SUBKINDS.get(l.kind, l.kind), SUBKINDS.get(r.kind, r.kind)
                if bl != br:
                    return Outcome(st, 'raise', 'TypeError', n.lineno)
            g = cmp_guard(op, l.term, r.term)
            if self.cmp_sides is not None:
                self.cmp_sides.append((n, type(op).__name__, l.term, r.term))
            t = static_truth(g)
            return Bv(t) if t is not None else Bsym(g)
        if (isinstance(l, Q) and isinstance(r, N)) or (isinstance(l, N) and isinstance(r, Q)):
            # gearpy's comparison dunders raise TypeError for a non-quantity operand
            return Outcome(st, 'raise', 'TypeError', n.lineno)
        if isinstance(op, (ast.Eq, ast.NotEq)):
            if isinstance(l, NoneV) or isinstance(r, NoneV):
                other = r if isinstance(l, NoneV) else l
                if isinstance(other, NoneV):
                    return Bv(not isinstance(op, ast.NotEq))
                if isinstance(other, (Cv, Q, N, Sv, Bv, Tv)):
                    return Bv(isinstance(op, ast.NotEq))
            if isinstance(l, Sv) and isinstance(r, Sv):
                return Bv((l.s == r.s) != isinstance(op, ast.NotEq))
            if self.eval_comprehensions and {type(l), type(r)} == {Uv, Sv}:
                u, t = (l, r) if isinstance(l, Uv) else (r, l)
                if u.unit.lit is not None:
                    return Bv((u.unit.lit == t.s) != isinstance(op, ast.NotEq))
                if t.s == '':
                    return Bv(isinstance(op, ast.NotEq))       # a symbolic unit names a unit of a table: never ''
            if isinstance(l, Uv) and isinstance(r, Uv):
                if l.unit.key() == r.unit.key():
                    return Bv(not isinstance(op, ast.NotEq))
                if l.unit.lit is not None and r.unit.lit is not None:
                    return Bv(isinstance(op, ast.NotEq))          # two different literal unit names
                g = G('eq', tuple(sorted((repr(l.unit), repr(r.unit)))))
                return Bsym(g.negate() if isinstance(op, ast.NotEq) else g)
            if isinstance(l, Cv) and isinstance(r, Cv) and l.of is None and r.of is None:
                return Bv((l.name == r.name) != isinstance(op, ast.NotEq))
            g = G('eq', tuple(sorted((self.show(l), self.show(r)))))
            return Bsym(g.negate() if isinstance(op, ast.NotEq) else g)
        raise CannotDecide(f'comparison {ast.unparse(n)[:60]}: {l!r} vs {r!r}')

    def none_name(self, v):
        """name under which `v is None` is recorded; None if v cannot be None"""
        if isinstance(v, Q):
            # a typed atom may still be None at run time (Optional fields); constructed values not
            if len(v.term.n.t) == 1 and v.term.d.is_const() and v.unit is not None and v.unit.sym is not None:
                return v.unit.sym
            return None
        if isinstance(v, N) and v.py in ('int', 'float'):
            return None          # a value known to be a Python number
        if isinstance(v, (N, Dyn)):
            t = v.term
            if len(t.n.t) == 1 and t.d.is_const():
                (mono, c), = t.n.t.items()
                if c == 1 and len(mono) == 1 and mono[0][1] == 1 and '#' not in mono[0][0]:
                    return mono[0][0]
            return None
        if isinstance(v, Ov) and v.exact:
            return None          # an object of exactly known class is an object
        if isinstance(v, (Ov, Seq)):
            return v.path
        if isinstance(v, Unk) and v.text == '<f-string>':
            return None          # a formatted string is a str, never None
        if isinstance(v, Unk) and v.text.split('(')[0].isidentifier() and '(' in v.text \
                and v.text.split('(')[0].endswith(('Error', 'Exception', 'Warning')):
            return None          # a freshly built exception object (`TypeError(...)`), never None
        if isinstance(v, (Unk,)):
            return v.text
        if isinstance(v, Fv):
            return v.name
        if isinstance(v, Bsym):
            return repr(v.guard.key)
        return None

    def subscript(self, base, idx, st, frame, node):
        if isinstance(base, Tv) and isinstance(idx, N) and idx.term.is_const():
            i = int(idx.term.const_value())
            try:
                return base.items[i]
            except IndexError:
                raise CannotDecide('index out of range')
        if isinstance(base, Tv) and isinstance(idx, Unk) and idx.text.startswith('slice:') and self.eval_comprehensions:
            parts = idx.text[6:].split(':')
            try:
                sl = slice(*[int(x) if x.strip() else None for x in parts])
            except ValueError:
                raise CannotDecide(f'slice {idx.text[6:]} of a concrete list')
            return Tv(list(base.items[sl]), base.kind)
        if isinstance(base, Dv) and isinstance(idx, Uv):
            if idx.unit.lit is None:
                raise CannotDecide(f'constant table subscripted by a symbolic unit {idx.unit!r}')
            idx = Sv(idx.unit.lit)
        if isinstance(base, Dv) and isinstance(idx, Sv):
            if idx.s in base.items:
                return base.items[idx.s]
            if getattr(base, 'counter', False):
                return N(Rat.const(0), 'int')           # a Counter answers 0 for a missing key
            raise CannotDecide(f'key {idx.s!r} not in the dict literal')
        if isinstance(base, Unk) and base.text.endswith('.__UNITS'):
            if isinstance(idx, Uv):
                fam = base.text.split('.')[0]
                return N(self.ufactor(fam, idx.unit))
            if isinstance(idx, Sv):
                fam = base.text.split('.')[0]
                return N(self.tables.factor(fam, idx.s))
            if isinstance(idx, Unk):
                fam = base.text.split('.')[0]
                return N(self.ufactor(fam, U(sym=idx.text)))
        if isinstance(base, Seq):
            if isinstance(idx, Unk) and idx.text.startswith('slice:'):
                return Seq(f'{base.path}[{idx.text[6:]}]', base.elem)
            name = f'{base.path}[{self.show(idx)}]'
            return self.typed_atom(name, base.elem, name)
        if isinstance(base, (Unk, Dyn)) and isinstance(idx, Sv) and self.show(base).endswith('time_variables') \
                and idx.s in self.variable_kinds:
            return Seq(f'{self.show(base)}[{idx.s!r}]', ('q', self.variable_kinds[idx.s]))
        if isinstance(base, Ov):
            return Ov(f'{base.path}[{self.show(idx)}]', None, False)
        return Unk(f'{self.show(base)}[{self.show(idx)}]')

    def show(self, v) -> str:
        if isinstance(v, (N, Dyn)):
            return self.ctx.show(v.term)
        if isinstance(v, Q):
            return f'{v.kind}:{self.ctx.show(v.term)}'
        if isinstance(v, Sv):
            return repr(v.s)
        if isinstance(v, Bv):
            return str(v.b)
        if isinstance(v, NoneV):
            return 'None'
        if isinstance(v, Ov):
            return v.path
        if isinstance(v, Cv):
            return v.name if v.of is None else f'type({v.of})'
        if isinstance(v, Fv):
            return v.name
        if isinstance(v, Uv):
            return repr(v.unit)
        if isinstance(v, Seq):
            return v.path
        if isinstance(v, Tv):
            return '[' + ', '.join(self.show(i) for i in v.items) + ']'
        if isinstance(v, Bsym):
            return v.guard.show(self.ctx)
        if isinstance(v, Unk):
            return v.text
        if isinstance(v, Mv):
            return f'[{" | ".join(self.show(c[1]) for c in v.cases)} for each of {v.src}]'
        if isinstance(v, Qv):
            return f'{v.quant}({self.show(v.mv)})'
        if isinstance(v, Dv):
            return '{' + ', '.join(f'{k!r}: {self.show(x)}' for k, x in v.items.items()) + '}'
        return repr(v)

    # ---- calls
    def call(self, n: ast.Call, st, frame) -> list:
        f = n.func
        # super().m(...) / super().prop  /  super(C, type(self)).prop.fset(self, v)
        if isinstance(f, ast.Attribute) and isinstance(f.value, ast.Call) and isinstance(f.value.func, ast.Name) \
                and f.value.func.id == 'super' and not f.value.args:
            return self.super_call(f.attr, n, st, frame)
        if isinstance(f, ast.Attribute) and f.attr == 'fset' and isinstance(f.value, ast.Attribute) \
                and isinstance(f.value.value, ast.Call) and isinstance(f.value.value.func, ast.Name) \
                and f.value.value.func.id == 'super' and len(f.value.value.args) == 2:
            after = ast.unparse(f.value.value.args[0])
            prop = f.value.attr
            res = []
            for r in self.eval_list(list(n.args), st, frame):
                if isinstance(r, Outcome):
                    res.append(r)
                    continue
                s, (obj, val) = r
                setter = self.model.find_setter(obj.cls if isinstance(obj, Ov) else frame['cls'], prop, start_after=after)
                if setter is None:
                    raise CannotDecide(f'setter {prop} above {after} not found')
                pname = setter.node.args.args[1].arg
                outs = self.run(setter.node, setter.module, setter.cls, obj, {pname: val}, s, frame['depth'] + 1)
                for o in outs:
                    res.append((o.state, NoneV()) if o.kind in ('fall', 'return') else o)
            return res
        # evaluate arguments
        argnodes = list(n.args)
        kwnodes = [(k.arg, k.value) for k in n.keywords]
        if any(isinstance(a, ast.Starred) for a in argnodes):
            return [(st, Unk(ast.unparse(n)[:80]))]
        if any(k is None for k, _ in kwnodes):
            # f(**d): expanded when d is a dict literal value with constant keys (each path of its evaluation)
            stars = [v for k, v in kwnodes if k is None]
            if len(stars) != 1:
                return [(st, Unk(ast.unparse(n)[:80]))]
            out = []
            for r in self.eval_x(stars[0], st, frame):
                if isinstance(r, Outcome):
                    out.append(r)
                    continue
                s1, dv = r
                if not isinstance(dv, Dv):
                    out.append((s1, Unk(ast.unparse(n)[:80])))
                    continue
                s2 = s1.copy()
                extra = []
                for i, (key, val) in enumerate(dv.items.items()):
                    tmp = f'<kw{id(n)}:{i}>'
                    s2.env[tmp] = val
                    extra.append(ast.keyword(arg=key, value=ast.copy_location(ast.Name(id=tmp, ctx=ast.Load()), n)))
                n2 = ast.copy_location(ast.Call(func=n.func, args=list(n.args), keywords=[k for k in n.keywords if k.arg is not None] + extra), n)
                out.extend(self.call(n2, s2, frame))
            return out
        res = []
        # callee
        if not isinstance(f, (ast.Attribute, ast.Name)):
            # computed callee, e.g. type(x)(value, unit)
            for b in self.eval_x(f, st, frame):
                if isinstance(b, Outcome):
                    res.append(b)
                    continue
                s0, callee = b
                for r in self.eval_list(argnodes + [v for _, v in kwnodes], s0, frame):
                    if isinstance(r, Outcome):
                        res.append(r)
                        continue
                    s, vals = r
                    args = vals[:len(argnodes)]
                    kwargs = {k: v for (k, _), v in zip(kwnodes, vals[len(argnodes):])}
                    hooked = self.call_hook(self, n, f, callee, args, kwargs, s, frame) if self.call_hook is not None else None
                    if hooked is not None:
                        res.extend(hooked)
                    elif isinstance(callee, Cv) and self.model.is_quantity(callee.name):
                        res.extend(self.construct(n, callee.name, args, kwargs, s, frame))
                    else:
                        res.append((s.with_effect(('opaque-call', self.show(callee), args, kwargs, n.lineno)), Unk(ast.unparse(n)[:80])))
            return res
        if isinstance(f, ast.Attribute):
            bases = self.eval_x(f.value, st, frame)
        else:
            bases = [(st, None)]
        for b in bases:
            if isinstance(b, Outcome):
                res.append(b)
                continue
            s0, recv = b
            for r in self.eval_list(argnodes + [v for _, v in kwnodes], s0, frame):
                if isinstance(r, Outcome):
                    res.append(r)
                    continue
                s, vals = r
                args = vals[:len(argnodes)]
                kwargs = {k: v for (k, _), v in zip(kwnodes, vals[len(argnodes):])}
                res.extend(self.apply(n, f, recv, args, kwargs, s, frame))
        return res

    def super_call(self, name, n, st, frame):
        cls = frame['cls']
        selfv = st.env.get('self')
        dyn = selfv.cls if isinstance(selfv, Ov) and selfv.cls else cls
        m = self.model.find_member(dyn, name, start_after=cls)
        if m is None:
            raise CannotDecide(f'super().{name} not found above {cls}')
        res = []
        kwnodes = [(k.arg, k.value) for k in n.keywords]
        for r in self.eval_list(list(n.args) + [v for _, v in kwnodes], st, frame):
            if isinstance(r, Outcome):
                res.append(r)
                continue
            s, vals = r
            args = self.bind(m.node, vals[:len(n.args)], {k: v for (k, _), v in zip(kwnodes, vals[len(n.args):])})
            outs = self.run(m.node, m.module, m.cls, selfv, args, s, frame['depth'] + 1)
            for o in outs:
                if o.kind == 'return':
                    res.append((o.state, o.value))
                elif o.kind == 'fall':
                    res.append((o.state, NoneV()))
                else:
                    res.append(o)
        return res

    def super_attr(self, name, st, frame):
        cls = frame['cls']
        selfv = st.env.get('self')
        dyn = selfv.cls if isinstance(selfv, Ov) and selfv.cls else cls
        m = self.model.find_member(dyn, name, start_after=cls)
        if m is None:
            raise CannotDecide(f'super().{name} not found above {cls}')
        if m.kind != 'property':
            return [(st, Fv(f'bound:{name}'))]
        outs = self.run(m.node, m.module, m.cls, selfv, {}, st, frame['depth'] + 1)
        res = []
        for o in outs:
            if o.kind == 'return':
                res.append((o.state, o.value))
            elif o.kind == 'fall':
                res.append((o.state, NoneV()))
            else:
                res.append(o)
        return res

    def bind(self, fn, args, kwargs, skip_self=True):
        params = [a.arg for a in fn.args.args]
        if skip_self and params and params[0] == 'self':
            params = params[1:]
        out = dict(kwargs)
        for p, v in zip(params, args):
            out[p] = v
        return out

    def apply(self, n, f, recv, args, kwargs, st, frame) -> list:
        if self.call_hook is not None:
            r = self.call_hook(self, n, f, recv, args, kwargs, st, frame)
            if r is not None:
                return r
        if isinstance(f, ast.Name):
            return self.apply_name(n, f.id, args, kwargs, st, frame)
        attr = f.attr
        if isinstance(recv, (Q, Ov)) and len(args) == 2 and not kwargs:
            # a class-level predicate `NAME = staticmethod(lt)` (operator function) called through the object
            owner_ = frame.get('cls') if attr.startswith('__') and not attr.endswith('__') else (recv.kind if isinstance(recv, Q) else recv.cls)
            ci_ = self.model.classes.get(owner_) if owner_ else None
            ca_ = ci_.class_attrs.get(attr) if ci_ is not None and attr.startswith('__') else (
                self.model.find_class_attr(owner_, attr)[1] if owner_ else None)
            if isinstance(ca_, ast.Call) and isinstance(ca_.func, ast.Name) and ca_.func.id == 'staticmethod' and len(ca_.args) == 1 \
                    and isinstance(ca_.args[0], ast.Name) and ca_.args[0].id in ('lt', 'le', 'gt', 'ge', 'eq', 'ne') \
                    and ca_.args[0].id not in self.model.functions:
                opn_ = {'eq': ast.Eq(), 'ne': ast.NotEq(), 'lt': ast.Lt(), 'le': ast.LtE(), 'gt': ast.Gt(), 'ge': ast.GtE()}[ca_.args[0].id]
                v_ = self.compare_values(opn_, args[0], args[1], st, n)
                return [v_ if isinstance(v_, Outcome) else (st, v_)]
        # numpy / math namespaces
        if recv is not None and isinstance(recv, Fv) and recv.name in ('np', 'numpy', 'math', 'itertools', 'collections'):
            return self.apply_name(n, attr, args, kwargs, st, frame)
        if isinstance(recv, Q):
            return self.quantity_method(n, recv, attr, args, kwargs, st, frame)
        if isinstance(recv, Ov):
            return self.object_method(n, recv, attr, args, kwargs, st, frame)
        if isinstance(recv, Dyn):
            if attr == 'to':
                raise CannotDecide(f'.to() on a value of unknown kind: {self.ctx.show(recv.term)[:60]}')
            if attr in ('sin', 'cos', 'tan') and not args:
                return [(st, N(self.ctx.call(attr, recv.term), 'float'))]
            if attr == 'take':
                return [(st, recv)]
        if isinstance(recv, (N,)) and attr == 'take':
            return [(st, recv)]
        if isinstance(recv, Dv) and attr == 'get' and len(args) in (1, 2) and isinstance(args[0], Sv) and not kwargs:
            return [(st, recv.items[args[0].s] if args[0].s in recv.items else (args[1] if len(args) == 2 else NoneV()))]
        if self.eval_comprehensions and isinstance(recv, Dv) and attr in ('items', 'values', 'keys') and not args:
            if attr == 'items':
                return [(st, Tv([Tv([Sv(k), v], 'tuple') for k, v in recv.items.items()]))]
            return [(st, Tv(list(recv.items.values()) if attr == 'values' else [Sv(k) for k in recv.items]))]
        if self.eval_comprehensions and isinstance(recv, Tv) and attr == 'count' and len(args) == 1 and isinstance(args[0], Sv) \
                and all(isinstance(i, Sv) for i in recv.items):
            return [(st, N(Rat.const(sum(1 for i in recv.items if i.s == args[0].s)), 'int'))]
        if isinstance(recv, Tv) and attr == 'add' and self.eval_comprehensions and len(args) == 1 and isinstance(args[0], Sv) \
                and isinstance(f.value, ast.Name) and isinstance(st.env.get(f.value.id), Tv):
            s2 = st.copy()
            if not any(isinstance(i, Sv) and i.s == args[0].s for i in recv.items):
                s2.env[f.value.id] = Tv(list(recv.items) + [args[0]], recv.kind)
            return [(s2, NoneV())]
        if isinstance(recv, Tv) and attr == 'append' and self.eval_comprehensions and len(args) == 1 \
                and isinstance(f.value, ast.Name) and isinstance(st.env.get(f.value.id), Tv):
            s2 = st.copy()
            s2.env[f.value.id] = Tv(list(recv.items) + [args[0]], recv.kind)
            return [(s2, NoneV())]
        if isinstance(recv, Tv) and attr == 'append':
            return [(st.with_effect(('list-append', self.show(recv), args, n.lineno)), NoneV())]
        if attr == 'setdefault' and len(args) == 2 and isinstance(args[0], Sv) and isinstance(recv, (Unk, Dyn, Ov)) \
                and isinstance(args[1], Tv) and not args[1].items:
            # d.setdefault(key, []) is d[key] (created empty on first use): same list as the subscript
            return [(st, self.subscript(recv, args[0], st, frame, n))]
        if isinstance(recv, Sv) and len(args) == 1 and isinstance(args[0], Sv) and not kwargs and attr in ('endswith', 'startswith'):
            return [(st, Bv(getattr(recv.s, attr)(args[0].s)))]
        if isinstance(recv, Sv) and all(isinstance(a, Sv) for a in args) and not kwargs and attr in (
                'replace', 'strip', 'lower', 'upper', 'title', 'lstrip', 'rstrip', 'capitalize'):
            return [(st, Sv(getattr(recv.s, attr)(*[a.s for a in args])))]
        if isinstance(recv, Unk) and recv.text.endswith('__UNITS') and attr == 'keys':
            return [(st, Unk(recv.text + '.keys()'))]
        return [(st.with_effect(('opaque-call', self.show(recv) + '.' + attr, args, kwargs, n.lineno)),
                 Unk(ast.unparse(n)[:80]))]

    def any_all(self, name, truths, st):
        """any()/all() over truth values some of which are symbolic: short-circuit forks, one boolean per path"""
        stop_on = (name == 'any')
        res, cur = [], [st]
        for t in truths:
            nxt = []
            for s_ in cur:
                if isinstance(t, bool):
                    (res.append((s_, Bv(stop_on))) if t == stop_on else nxt.append(s_))
                    continue
                a, b = s_.with_guard(t), s_.with_guard(t.negate())
                hit, go = (a, b) if stop_on else (b, a)
                if hit is not None:
                    res.append((hit, Bv(stop_on)))
                if go is not None:
                    nxt.append(go)
            cur = nxt
        res += [(s_, Bv(not stop_on)) for s_ in cur]
        return res

    def num_arg(self, v):
        if isinstance(v, (N, Dyn)):
            return v.term
        if isinstance(v, Bv):
            return Rat.const(1 if v.b else 0)
        if isinstance(v, Bsym):
            # a truth value used as a number (True == 1): an opaque 0/1 atom named by the predicate
            return Rat.atom('bool01[' + v.guard.show(self.ctx) + ']')
        raise CannotDecide(f'numeric argument expected, got {v!r}')

    def operator_imports(self, module):
        """{local name -> operator function} for `from operator import add, sub as minus ...` of a module"""
        key = ('opimp', module)
        if key not in self._field_types:
            out = {}
            tree = self.model.trees.get(module)
            for nd in (ast.walk(tree) if tree is not None else ()):
                if isinstance(nd, ast.ImportFrom) and nd.module == 'operator':
                    for a in nd.names:
                        out[a.asname or a.name] = a.name
            self._field_types[key] = out
        return self._field_types[key]

    def apply_name(self, n, name, args, kwargs, st, frame) -> list:
        m = self.model
        if isinstance(st.env.get(name), Fv) and st.env[name].name.startswith('bound:') and isinstance(st.env[name].recv, Ov):
            fv = st.env[name]                 # a local bound to a method of an object (f = obj.m): call the method on that object
            fnode = ast.copy_location(ast.Attribute(value=ast.Name(id='<recv>', ctx=ast.Load()), attr=fv.name[6:], ctx=ast.Load()), n)
            return self.apply(n, fnode, fv.recv, args, kwargs, st, frame)
        if isinstance(st.env.get(name), Lv):
            lv = st.env[name]
            params = [a.arg for a in lv.node.args.args]
            if len(params) != len(args) or kwargs or lv.node.args.vararg or lv.node.args.kwarg:
                raise CannotDecide(f'call of a lambda with other than positional arguments: {ast.unparse(n)[:60]}')
            s1 = st.copy()
            s1.env = dict(zip(params, args))
            res = []
            for r in self.eval_x(lv.node.body, s1, dict(frame, module=lv.module, cls=None)):
                if isinstance(r, Outcome):
                    r.state.env = dict(st.env)
                    res.append(r)
                else:
                    s2 = r[0].copy()
                    s2.env = dict(st.env)
                    res.append((s2, r[1]))
            return res
        if isinstance(st.env.get(name), Fv) and st.env[name].name.startswith('operator.'):
            opn = st.env[name].name.split('.', 1)[1]
            cmpops = {'eq': ast.Eq(), 'ne': ast.NotEq(), 'lt': ast.Lt(), 'le': ast.LtE(), 'gt': ast.Gt(), 'ge': ast.GtE()}
            binops = {'add': ast.Add(), 'sub': ast.Sub(), 'mul': ast.Mult(), 'truediv': ast.Div()}
            if opn in cmpops and len(args) == 2:
                v = self.compare_values(cmpops[opn], args[0], args[1], st, n)
                return [v if isinstance(v, Outcome) else (st, v)]
            if opn in binops and len(args) == 2:
                v = self.binop(binops[opn], args[0], args[1], st, n)
                return [v if isinstance(v, Outcome) else (st, v)]
        fv = st.env.get(name)
        if isinstance(fv, Fv) and fv.name.startswith(('E[', 'self.')) and '.' in fv.name and fv.name.rsplit('.', 1)[1].isidentifier():
            # a local bound to a callable ATTRIBUTE of an object (`f = getattr(e, 'external_torque', None)`; `f = e.external_torque`):
            # the call is the call of that attribute on that object
            owner, attr = fv.name.rsplit('.', 1)
            sargs = [self.show(a) for a in args] + [f'{k}={self.show(v)}' for k, v in sorted(kwargs.items())]
            fnode = ast.copy_location(ast.Attribute(value=ast.Name(id='<recv>', ctx=ast.Load()), attr=attr, ctx=ast.Load()), n)
            ocls = 'RotatingObject' if owner.startswith('E[') else None
            return self.apply(n, fnode, Ov(owner, ocls, False), args, kwargs, st, frame)
        if isinstance(st.env.get(name), Fv) and not st.env[name].name.startswith('bound:'):
            name = st.env[name].name          # a local bound to a function: call the function
        opf = self.operator_imports(frame['module']).get(name)
        if opf in ('add', 'sub', 'mul', 'truediv') and len(args) == 2 and not kwargs:
            op = {'add': ast.Add(), 'sub': ast.Sub(), 'mul': ast.Mult(), 'truediv': ast.Div()}[opf]
            v = self.binop(op, args[0], args[1], st, n)
            return [v if isinstance(v, Outcome) else (st, v)]
        if opf == 'neg' and len(args) == 1 and isinstance(args[0], (N, Dyn, Q)):
            a = args[0]
            return [(st, Q(a.kind, -a.term, a.unit) if isinstance(a, Q) else type(a)(-a.term))]
        if name == 'getattr' and len(args) in (2, 3) and isinstance(args[1], Sv) and isinstance(args[0], (Ov, Q)):
            return self.load_attr(args[0], args[1].s, st, frame, n)
        if name == 'setattr' and len(args) == 3 and isinstance(args[1], Sv) and isinstance(args[0], Ov):
            outs = self.store_attr(args[0], args[1].s, args[2], st, frame, n.lineno)
            return [(o.state, NoneV()) if o.kind == 'fall' else o for o in outs]
        if name in ('isinstance', 'issubclass', 'hasattr'):
            return [(st, self.class_test(n, name, args, st, frame))]
        if m.is_quantity(name):
            return self.construct(n, name, args, kwargs, st, frame)
        if name in ('abs', 'fabs'):
            v = args[0]
            if isinstance(v, Q):
                return [(st, Q(v.kind, self.ctx.call('abs', v.term), v.unit))]
            return [(st, type(v)(self.ctx.call('abs', self.num_arg(v))) if isinstance(v, Dyn)
                     else N(self.ctx.call('abs', self.num_arg(v)), getattr(v, 'py', None)))]
        if name in ('sqrt', 'atan', 'sin', 'cos', 'tan', 'asin', 'acos', 'exp', 'log'):
            return [(st, N(self.ctx.call(name, self.num_arg(args[0])), 'float'))]
        if name in ('float', 'int') and len(args) == 1 and isinstance(args[0], (Unk, Sv)):
            # a number parsed back from text (`float(f'{x:.6g}')`): some other number than the one formatted - an opaque value
            return [(st, N(Rat.atom(f'parsed-from-text[{getattr(n, "lineno", 0)}:{getattr(n, "col_offset", 0)}]'), name))]
        if name == 'float' and len(args) == 1 and isinstance(args[0], (N, Dyn)):
            return [(st, N(args[0].term, name))]
        if name == 'int' and len(args) == 1 and isinstance(args[0], (N, Dyn)):
            if isinstance(args[0], N) and (args[0].py == 'int' or args[0].term.is_const()
                                           or all(a.startswith('call:round') or a.startswith('call:int') or a == 'n'
                                                  for a in args[0].term.atoms())):
                return [(st, N(args[0].term, 'int'))]
            # truncation of a real value is not the identity: keep it as an opaque function
            return [(st, N(Rat.atom(self.ctx.fatom('call:int', (args[0].term,))), 'int'))]
        if name == 'round' and args and isinstance(args[0], Q):
            # round(quantity[, n]) is quantity.__round__(n): evaluated when the class defines it, TypeError otherwise
            rm_ = m.find_member(args[0].kind, '__round__')
            if rm_ is None:
                return [Outcome(st, 'raise', 'TypeError', getattr(n, 'lineno', 0))]
            params = [a.arg for a in rm_.node.args.args[1:]]
            bound = dict(zip(params, args[1:]))
            outs = self.run(rm_.node, rm_.module, rm_.cls, args[0], bound, st, frame['depth'] + 1)
            return [(o.state, o.value) if o.kind == 'return' else ((o.state, NoneV()) if o.kind == 'fall' else o) for o in outs]
        if name == 'round' and len(args) == 2 and all(isinstance(a, (N, Dyn)) for a in args):
            return [(st, N(Rat.atom(self.ctx.fatom('call:round_to', (args[0].term, args[1].term))), 'float'))]
        if name in ('round', 'rint', 'around') and len(args) == 1 and isinstance(args[0], (N, Dyn)):
            return [(st, N(Rat.atom(self.ctx.fatom('call:round', (args[0].term,))), 'int'))]
        if name in ('floor', 'ceil', 'trunc') and len(args) == 1 and isinstance(args[0], (N, Dyn)):
            return [(st, N(Rat.atom(self.ctx.fatom('call:' + name, (args[0].term,))), 'int'))]
        if name in ('min', 'max') and len(args) == 1 and isinstance(args[0], Seq) and not kwargs:
            nm = f'{name}({args[0].path})'
            return [(st, self.typed_atom(nm, args[0].elem, nm))]
        if name in ('iter', 'reversed') and len(args) == 1 and isinstance(args[0], Seq) and name not in m.functions:
            return [(st, Itv(args[0], name == 'reversed'))]
        if name == 'next' and len(args) in (1, 2) and isinstance(args[0], Itv) and not kwargs:
            # first element of a fresh iterator over an abstract sequence: its last / first element when it has one, else the default
            it = args[0]
            g = G('truth', (it.seq.path,))
            res = []
            s_yes = st.with_guard(g)
            if s_yes is not None:
                res.append((s_yes, self.subscript(it.seq, N(Rat.const(-1 if it.backwards else 0), 'int'), s_yes, frame, n)))
            s_no = st.with_guard(g.negate())
            if s_no is not None:
                res.append((s_no, args[1]) if len(args) == 2 else Outcome(s_no, 'raise', 'StopIteration', n.lineno))
            return res
        if name == 'next' and len(args) in (1, 2) and isinstance(args[0], Tv) and args[0].kind == 'generator' and not kwargs \
                and not self.eval_comprehensions:
            # the first thing a (concretely evaluated) generator yields, or the default
            items = args[0].items
            if n.args and isinstance(n.args[0], ast.Name) and st.env.get(n.args[0].id) is args[0]:
                s2 = st.copy()
                s2.env[n.args[0].id] = Tv(list(items[1:]), 'generator')
                st = s2
            if items:
                return [(st, items[0])]
            if len(args) == 2:
                return [(st, args[1])]
            return [Outcome(st, 'raise', 'StopIteration', n.lineno)]
        if name == 'zip' and args and all(isinstance(a, Tv) and a.kind != 'generator' for a in args) and not kwargs and name not in m.functions:
            n_ = min(len(a.items) for a in args)
            return [(st, Tv([Tv([a.items[i] for a in args], 'tuple') for i in range(n_)], 'list'))]
        if name == 'dict' and not args and not kwargs and name not in m.functions:
            return [(st, Dv({}))]
        if name == 'dict' and len(args) == 1 and isinstance(args[0], Tv) and not kwargs \
                and all(isinstance(i, Tv) and len(i.items) == 2 and isinstance(i.items[0], Sv) for i in args[0].items):
            return [(st, Dv({i.items[0].s: i.items[1] for i in args[0].items}))]
        if name == 'isclose' and len(args) == 2 and all(isinstance(a, (N, Dyn)) for a in args) and name not in m.functions \
                and set(kwargs) <= {'rel_tol', 'abs_tol'} and all(isinstance(v, (N, Dyn)) for v in kwargs.values()):
            # math.isclose(a, b, rel_tol=1e-09, abs_tol=0.0)  ==  |a - b| <= max(rel_tol * max(|a|, |b|), abs_tol)
            from fractions import Fraction as _Fr
            rel_t = kwargs['rel_tol'].term if 'rel_tol' in kwargs else Rat.const(_Fr(1, 10 ** 9))
            abs_t = kwargs['abs_tol'].term if 'abs_tol' in kwargs else Rat.const(0)
            a_, b_ = args[0].term, args[1].term
            if rel_t.is_const() and rel_t.const_value() == 0 and abs_t.is_const() and abs_t.const_value() >= 0:
                bound = abs_t
            else:
                bound = self.ctx.call('max', [rel_t * self.ctx.call('max', [self.ctx.call('abs', [a_]), self.ctx.call('abs', [b_])]), abs_t])
            return [(st, Bsym(make_cmp('<=', self.ctx.call('abs', [a_ - b_]) - bound)))]
        if name == 'clip' and len(args) == 3 and all(isinstance(a, (N, Dyn)) for a in args):
            # numpy.clip(x, lo, hi) = min(max(x, lo), hi) as a number - but a numpy scalar as an object
            inner = self.ctx.call('max', [args[0].term, args[1].term])
            return [(st, N(self.ctx.call('min', [inner, args[2].term]), 'numpy'))]
        if name in ('min', 'max') and len(args) >= 2 and 'key' in kwargs:
            # min(a, b, key=lambda x: ...): the element whose KEY is smallest (first one on ties) - decided by comparing the keys
            knode = next((k.value for k in n.keywords if k.arg == 'key'), None)
            if not (isinstance(knode, ast.Lambda) and len(knode.args.args) == 1 and set(kwargs) == {'key'}):
                raise CannotDecide(f'{name}() with a key that is not a one-argument lambda')
            par = knode.args.args[0].arg
            if all(isinstance(a, Q) for a in args):
                # a key that is the SI magnitude up to one positive constant orders the operands as the unit-aware comparison does:
                # the same value as min(a, b) without a key (kept in that canonical form)
                ratios = []
                for a in args:
                    s1 = st.copy()
                    s1.env = dict(st.env, **{par: a})
                    try:
                        ks = self.eval_x(knode.body, s1, frame)
                    except CannotDecide:
                        ks = []
                    c_ = None
                    if len(ks) == 1 and not isinstance(ks[0], Outcome) and isinstance(ks[0][1], N) and not a.term.is_zero():
                        # key = c * (SI magnitude) for a constant c?  (cross-multiplied: key.n * a.d == c * a.n * key.d)
                        k_ = ks[0][1].term
                        lhs, rhs = Rat(k_.n) * Rat(a.term.d), Rat(a.term.n) * Rat(k_.d)
                        mono = next(iter(rhs.n.t), None)
                        if mono is not None and mono in lhs.n.t and rhs.d.is_const() and lhs.d.is_const():
                            c_ = (lhs.n.t[mono] / lhs.d.const_value()) / (rhs.n.t[mono] / rhs.d.const_value())
                            if not self.ctx.eq(lhs, Rat.const(c_) * rhs):
                                c_ = None
                    if c_ is None:
                        ratios = None
                        break
                    ratios.append(Rat.const(c_))
                if ratios and all(r.is_const() and r.const_value() > 0 and r.const_value() == ratios[0].const_value() for r in ratios):
                    units = {a.unit.key() if a.unit else None for a in args}
                    u = args[0].unit if len(units) == 1 else None
                    return [(st, Q(args[0].kind, self.ctx.call(name, [a.term for a in args]), u))]
            cur = [(st, args[0])]
            for cand in args[1:]:
                nxt = []
                for s_, best in cur:
                    s1 = s_.copy()
                    saved = dict(s1.env)
                    s1.env = dict(saved, **{'<best>': best, '<cand>': cand})
                    body_b = ast.fix_missing_locations(ast.copy_location(_SubstName(par, '<best>').visit(copy.deepcopy(knode.body)), n))
                    body_c = ast.fix_missing_locations(ast.copy_location(_SubstName(par, '<cand>').visit(copy.deepcopy(knode.body)), n))
                    test = ast.copy_location(ast.Compare(left=body_c, ops=[ast.Lt() if name == 'min' else ast.Gt()], comparators=[body_b]), n)
                    ast.fix_missing_locations(test)
                    tr, fa, rs = self.branch(test, s1, frame)
                    res_out = []
                    for o in rs:
                        o.state.env = dict(saved)
                        res_out.append(o)
                    for s2 in tr:
                        s2 = s2.copy()
                        s2.env = dict(saved)
                        nxt.append((s2, cand))
                    for s2 in fa:
                        s2 = s2.copy()
                        s2.env = dict(saved)
                        nxt.append((s2, best))
                    if res_out:
                        return res_out + nxt
                cur = nxt
            return cur
        if name in ('min', 'max') and len(args) >= 2:
            if all(isinstance(a, Q) for a in args):
                units = {a.unit.key() if a.unit else None for a in args}
                u = args[0].unit if len(units) == 1 else None
                return [(st, Q(args[0].kind, self.ctx.call(name, [a.term for a in args]), u))]
            if all(isinstance(a, (N, Dyn)) for a in args):
                return [(st, N(self.ctx.call(name, [a.term for a in args])))]
        if name in ('any', 'all') and len(args) == 1 and isinstance(args[0], Mv):
            return [(st, Qv(name, args[0]))]
        if name in ('any', 'all') and len(args) == 1 and isinstance(args[0], Tv) and not self.eval_comprehensions:
            return self.any_all(name, [self.truth(i) for i in args[0].items], st)
        if self.eval_comprehensions and len(args) >= 1 and isinstance(args[0], Tv):
            items = args[0].items
            if name == 'len' and len(args) == 1:
                return [(st, N(Rat.const(len(items)), 'int'))]
            if name in ('list', 'tuple', 'iter', 'reversed', 'sorted') and len(args) == 1 and name != 'sorted':
                return [(st, Tv(list(items) if name != 'reversed' else list(reversed(items)), 'tuple' if name == 'tuple' else 'list'))]
            if name == 'sum' and len(args) == 1:
                t = Rat.const(0)
                for i in items:
                    t = t + self.num_arg(i)
                return [(st, N(self.ctx.reduce(t)))]
            if name in ('any', 'all') and len(args) == 1:
                ts = [self.truth(i) for i in items]
                if all(isinstance(t, bool) for t in ts):
                    return [(st, Bv(any(ts) if name == 'any' else all(ts)))]
                return self.any_all(name, ts, st)
            if name == 'next':
                if args[0].kind == 'generator' and n.args and isinstance(n.args[0], ast.Name) and st.env.get(n.args[0].id) is args[0]:
                    s2 = st.copy()
                    s2.env[n.args[0].id] = Tv(list(items[1:]), 'generator')
                    st = s2
                if items:
                    return [(st, items[0])]
                if len(args) == 2:
                    return [(st, args[1])]
                return [Outcome(st, 'raise', 'StopIteration', n.lineno)]
        if self.eval_comprehensions and len(args) == 1 and isinstance(args[0], Tv) and name in ('Counter', 'set', 'frozenset', 'sorted', 'groupby') \
                and all(isinstance(i, Sv) for i in args[0].items):
            names = [i.s for i in args[0].items]
            if name == 'Counter':
                d = {}
                for x in names:
                    d[x] = d.get(x, 0) + 1
                return [(st, Dv({k: N(Rat.const(c), 'int') for k, c in d.items()}, counter=True))]
            if name in ('set', 'frozenset'):
                return [(st, Tv([Sv(x) for x in dict.fromkeys(names)], 'set'))]
            if name == 'sorted':
                return [(st, Tv([Sv(x) for x in sorted(names)]))]
            if name == 'groupby':
                groups = []
                for x in names:
                    if groups and groups[-1][0] == x:
                        groups[-1][1].append(Sv(x))
                    else:
                        groups.append((x, [Sv(x)]))
                return [(st, Tv([Tv([Sv(k), Tv(g)], 'tuple') for k, g in groups]))]
        if name == 'pairwise' and len(args) == 1 and isinstance(args[0], Tv):
            it = args[0].items
            return [(st, Tv([Tv([a, b], 'tuple') for a, b in zip(it, it[1:])]))]
        if name == 'zip' and args and all(isinstance(a, Tv) for a in args):
            return [(st, Tv([Tv(list(t), 'tuple') for t in zip(*[a.items for a in args])]))]
        if name == 'enumerate' and len(args) == 1 and isinstance(args[0], Tv):
            return [(st, Tv([Tv([N(Rat.const(i), 'int'), x], 'tuple') for i, x in enumerate(args[0].items)]))]
        if self.eval_comprehensions and name == 'range' and args and all(isinstance(a, N) and a.term.is_const() for a in args):
            return [(st, Tv([N(Rat.const(i), 'int') for i in range(*[int(a.term.const_value()) for a in args])]))]
        if self.eval_comprehensions and name in ('Counter', 'defaultdict', 'OrderedDict') and not args:
            return [(st, Dv({}, counter=(name in ('Counter', 'defaultdict'))))]
        if self.eval_comprehensions and name in ('set', 'list', 'dict') and not args:
            return [(st, Tv([], 'set' if name == 'set' else 'list') if name != 'dict' else Dv({}))]
        if self.eval_comprehensions and name == 'filter' and len(args) == 2 and isinstance(args[1], Tv):
            if isinstance(args[0], NoneV):
                cur = [(st, [])]
                for i in args[1].items:
                    t = self.truth(i)
                    nxt = []
                    for s_, acc in cur:
                        if isinstance(t, bool):
                            nxt.append((s_, acc + [i] if t else acc))
                            continue
                        a, b = s_.with_guard(t), s_.with_guard(t.negate())
                        if a is not None:
                            nxt.append((a, acc + [i]))
                        if b is not None:
                            nxt.append((b, acc))
                    cur = nxt
                return [(s_, Tv(acc)) for s_, acc in cur]
        if name == 'bool' and len(args) == 1:
            t = self.truth(args[0])
            return [(st, Bv(t) if isinstance(t, bool) else Bsym(t))]
        if name == 'len' and len(args) == 1 and isinstance(args[0], Dv) and self.eval_comprehensions:
            return [(st, N(Rat.const(len(args[0].items)), 'int'))]
        if name in ('list', 'tuple', 'iter') and len(args) == 1 and isinstance(args[0], Dv) and self.eval_comprehensions:
            return [(st, Tv([Sv(k) for k in args[0].items], 'tuple' if name == 'tuple' else 'list'))]
        if name == 'len' and len(args) == 1:
            return [(st, N(Rat.atom(f'len({self.show(args[0])})'), 'int'))]
        if name == 'type' and len(args) == 1 and isinstance(args[0], Q):
            return [(st, Cv(args[0].kind))]
        if name == 'type' and len(args) == 1 and isinstance(args[0], Ov):
            return [(st, Cv(args[0].cls or '?', of=args[0].path))]
        if name in m.functions and name in self.opaque_calls:
            mod, fn = m.functions[name]
            ty = parse_annotation(fn.returns, m)
            bound = self.bind(fn, args, kwargs, skip_self=False)
            sig = f'{name}(' + ', '.join(f'{k}={self.show(v)}' for k, v in sorted(bound.items())) + ')'
            return [(st.with_effect(('opaque-call', name, args, kwargs, n.lineno)), self.typed_atom(sig, ty, sig))]
        if name in m.functions and name not in self.opaque_calls:
            mod, fn = m.functions[name]
            outs = self.run(fn, mod, None, None, self.bind(fn, args, kwargs, skip_self=False), st, frame['depth'] + 1)
            res = []
            for o in outs:
                if o.kind == 'return':
                    res.append((o.state, o.value))
                elif o.kind == 'fall':
                    res.append((o.state, NoneV()))
                else:
                    res.append(o)
            return res
        if name in m.classes:
            return [(st.with_effect(('new', name, args, kwargs, n.lineno)), Ov(f'new:{name}@{n.lineno}', name, True))]
        # local callable value?
        fv = st.env.get(name)
        if isinstance(fv, Cv) and fv.of is None and m.is_quantity(fv.name):
            return self.construct(n, fv.name, args, kwargs, st, frame)        # a local bound to a quantity class
        if isinstance(fv, Cv) and fv.of is None and fv.name in m.classes:
            return [(st.with_effect(('new', fv.name, args, kwargs, n.lineno)), Ov(f'new:{fv.name}@{n.lineno}', fv.name, True))]
        if isinstance(fv, Ov) and '.' in fv.path and not fv.path.startswith('new:'):
            # a local alias of an attribute (`compare = self.operator`): the call is the call of that attribute
            owner, attr = fv.path.rsplit('.', 1)
            sargs = [self.show(a) for a in args] + [f'{k}={self.show(v)}' for k, v in sorted(kwargs.items())]
            return [(st.with_effect(('call', owner, attr, args, kwargs, n.lineno)), Unk(f'{fv.path}({", ".join(sargs)})'))]
        label = fv.name if isinstance(fv, Fv) else name
        sargs = [self.show(a) for a in args] + [f'{k}={self.show(v)}' for k, v in sorted(kwargs.items())]
        if all(isinstance(a, (N, Dyn, Q)) for a in list(args) + list(kwargs.values())) and (args or kwargs):
            terms = [a.term for a in args] + [kwargs[k].term for k in sorted(kwargs)]
            return [(st.with_effect(('opaque-call', label, args, kwargs, n.lineno)),
                     Dyn(Rat.atom(self.ctx.fatom(f'call:{label}' + ''.join(f':{k}' for k in sorted(kwargs)), terms))))]
        return [(st.with_effect(('opaque-call', label, args, kwargs, n.lineno)), Unk(f'{label}({", ".join(sargs)})'))]

    def class_test(self, n, name, args, st, frame) -> V:
        if name == 'hasattr':
            obj, attr = args
            if isinstance(obj, Ov) and isinstance(attr, Sv):
                if (obj.path, attr.s) in st.heap and self.model.find_member(obj.cls or '', attr.s) is None:
                    # an attribute set (or deleted) on the object earlier on this path
                    v_ = st.heap[(obj.path, attr.s)]
                    return Bv(not (isinstance(v_, Unk) and v_.text == '<deleted>'))
                if obj.cls and obj.exact:
                    has = self.model.find_member(obj.cls, attr.s) is not None
                    return Bv(has)
                if obj.cls:
                    subs = self.model.concrete_classes(obj.cls) or self.model.subclasses(obj.cls)
                    have = [self.model.find_member(c, attr.s) is not None for c in subs]
                    if have and all(have):
                        return Bv(True)
                    if have and not any(have):
                        return Bv(False)
                return Bsym(G('hasattr', (obj.path, attr.s)))
            if isinstance(attr, Sv) and attr.s == '__name__':
                return Bv(isinstance(obj, Cv))
            return Bsym(G('hasattr', (self.show(obj), self.show(attr))))
        if name == 'issubclass':
            a, b = args
            if isinstance(a, Cv) and isinstance(b, Cv) and a.of is None and b.of is None:
                return Bv(self.model.is_subclass(a.name, b.name))
            return Bsym(G('issubclass', (self.show(a), self.show(b))))
        obj, clsarg = args
        names = self.class_names(n.args[1], clsarg, st.env)
        if names is None and isinstance(clsarg, Cv) and clsarg.of is None:
            names = [clsarg.name]
        if names is None:
            return Bsym(G('isinstance', (self.show(obj), self.show(clsarg))))
        if isinstance(obj, NoneV):
            return Bv(False)
        if isinstance(obj, Q):
            return Bv(any(c == 'UnitBase' or (c in self.model.classes and self.model.is_subclass(obj.kind, c))
                          for c in names))
        if isinstance(obj, N):
            if obj.py == 'numpy' and ({'float', 'int'} & set(names)):
                # a numpy scalar: numpy.float64 is a float, numpy.int64 is NOT an int - which one depends on the argument's type
                return Bsym(G('opaque', (f'numpy-scalar-is-python-number:{self.show(obj)[:50]}',)))
            if 'float' in names and 'int' in names:
                return Bv(True)
            if obj.py in ('int', 'float'):
                return Bv(obj.py in names or (obj.py == 'bool' and 'int' in names))
            if not ({'float', 'int'} & set(names)):
                return Bv(False)
            return Bsym(G('isinstance', (self.show(obj), tuple(sorted(names)))))
        if isinstance(obj, (Bv,)) or (isinstance(obj, Bsym)):
            return Bv('bool' in names or 'int' in names)
        if isinstance(obj, (Sv, Uv)):
            return Bv('str' in names)
        if isinstance(obj, Ov) and obj.cls:
            if any(c in self.model.classes and self.model.is_subclass(obj.cls, c) for c in names):
                return Bv(True)
            if obj.exact:
                return Bv(False)
            if not any(c in self.model.classes and self.model.is_subclass(c, obj.cls) for c in names):
                return Bv(False)
            return Bsym(G('isinstance', (obj.path, tuple(sorted(names)))))
        return Bsym(G('isinstance', (self.show(obj), tuple(sorted(names)))))

    def class_names(self, node, val, env=None):
        names = []
        env = env or {}

        def flat(x):
            if isinstance(x, ast.BinOp) and isinstance(x.op, ast.BitOr):
                flat(x.left)
                flat(x.right)
            elif isinstance(x, ast.Tuple):
                for e in x.elts:
                    flat(e)
            elif isinstance(x, ast.Name) and isinstance(env.get(x.id), Cv):
                names.append(env[x.id].name)           # a local bound to a class
            elif isinstance(x, ast.Name) and isinstance(env.get(x.id), Tv) and all(isinstance(i, Cv) for i in env[x.id].items):
                names.extend(i.name for i in env[x.id].items)
            elif isinstance(x, ast.Name):
                names.append(x.id)
            else:
                names.append(None)
        flat(node)
        if any(x is None for x in names):
            return None
        return names

    def construct(self, n, kind, args, kwargs, st, frame) -> list:
        value = kwargs.get('value', args[0] if args else None)
        unit = kwargs.get('unit', args[1] if len(args) > 1 else None)
        if value is None or unit is None:
            raise CannotDecide(f'constructor call {ast.unparse(n)[:60]}')
        if isinstance(unit, Sv):
            u = U(lit=unit.s)
            if unit.s not in self.tables.table_of(kind):
                return [Outcome(st, 'raise', 'KeyError', n.lineno)]
        elif isinstance(unit, Uv):
            u = unit.unit
        elif isinstance(unit, Unk):
            u = U(sym=unit.text)
        else:
            raise CannotDecide(f'unit argument of {ast.unparse(n)[:60]}')
        if isinstance(value, Q):
            return [Outcome(st, 'raise', 'TypeError', n.lineno)]
        vt = self.num_arg(value)
        q = Q(kind, self.ctx.reduce(vt * self.ufactor(kind, u)), u)
        s = st.with_effect(('construct', kind, vt, n.lineno))
        if not self.inline_ctor_guards:
            return [(s, q)]
        # run the constructor chain for its raise-guards (sign constraints, type checks)
        init = self.model.find_member(kind, '__init__')
        if init is None:
            return [(s, q)]
        fresh = Ov(f'new:{kind}@{n.lineno}', kind, True)
        uval = unit if not isinstance(unit, Unk) else Uv(u)
        outs = self.run(init.node, init.module, init.cls, fresh, {'value': value, 'unit': uval}, s, frame['depth'] + 1)
        res = []
        for o in outs:
            if o.kind == 'raise':
                res.append(o)
            else:
                st2 = o.state.copy()
                st2.heap = {k: v for k, v in st2.heap.items() if k[0] != fresh.path}
                st2.effects = tuple(e for e in st2.effects if not (e[0] == 'store' and e[1] == fresh.path))
                res.append((st2, q))
        return res

    def quantity_method(self, n, q: Q, attr, args, kwargs, st, frame) -> list:
        if attr == 'to':
            tgt = kwargs.get('target_unit', args[0] if args else None)
            inplace = kwargs.get('inplace', args[1] if len(args) > 1 else Bv(False))
            if isinstance(inplace, Bv) and inplace.b:
                st = st.with_effect(('inplace-conversion', self.show(q), n.lineno))
            if isinstance(tgt, Sv):
                if tgt.s not in self.tables.table_of(q.kind):
                    return [Outcome(st, 'raise', 'KeyError', n.lineno)]
                return [(st, Q(q.kind, q.term, U(lit=tgt.s)))]
            if isinstance(tgt, Uv):
                return [(st, Q(q.kind, q.term, tgt.unit))]
            if isinstance(tgt, Unk):
                return [(st, Q(q.kind, q.term, U(sym=tgt.text)))]
            raise CannotDecide(f'target unit of {ast.unparse(n)[:60]}')
        if attr in ('sin', 'cos', 'tan') and self.model.is_subclass(q.kind, 'AngularPosition'):
            if args or kwargs:
                raise CannotDecide('trigonometric method with a frequency argument')
            return [(st, N(self.ctx.call(attr, q.term), 'float'))]
        if attr == '__class__':
            return self.construct(n, q.kind, args, kwargs, st, frame)
        m = self.model.find_member(q.kind, attr)
        if m is not None and m.kind in ('method', 'staticmethod'):
            bound = self.bind(m.node, args, kwargs, skip_self=(m.kind == 'method'))
            outs = self.run(m.node, m.module, m.cls, q, bound, st, frame['depth'] + 1)
            return [(o.state, o.value) if o.kind == 'return' else ((o.state, NoneV()) if o.kind == 'fall' else o)
                    for o in outs]
        raise CannotDecide(f'method {attr} of a {q.kind}')

    def object_method(self, n, obj: Ov, attr, args, kwargs, st, frame) -> list:
        obj = self.leaf_exact(obj)
        cls = obj.cls
        m = self.model.find_member(cls, attr) if cls else None
        key = f'{m.cls}.{attr}' if m else attr
        if obj.exact and m is not None and m.kind in ('method', 'staticmethod') \
                and key not in self.opaque_calls and attr not in self.opaque_calls:
            self.trace_calls.append(key)
            bound = self.bind(m.node, args, kwargs, skip_self=(m.kind == 'method'))
            outs = self.run(m.node, m.module, m.cls, obj, bound, st, frame['depth'] + 1)
            res = []
            for o in outs:
                if o.kind == 'return':
                    res.append((o.state, o.value))
                elif o.kind == 'fall':
                    res.append((o.state, NoneV()))
                else:
                    res.append(o)
            return res
        # not inlined: effect + typed result from the annotation
        ty, mm = self.member_type(cls, attr) if cls else (None, None)
        if mm is not None and mm.kind == 'property':
            ty = None       # calling a callable-valued attribute: result type unknown
        s = st.with_effect(('call', obj.path, attr, args, kwargs, n.lineno))
        if any('[' in k[0] for k in s.heap):
            # an opaque method may modify any attribute of the (indexed) objects: forget what is known
            s.heap = {k: v for k, v in s.heap.items() if '[' not in k[0]}
        sig = f'{obj.path}.{attr}(' + ', '.join([self.show(a) for a in args] +
                                                [f'{k}={self.show(v)}' for k, v in sorted(kwargs.items())]) + ')'
        return [(s, self.typed_atom(sig, ty, sig))]


def _as_load(t):
    t2 = ast.parse(ast.unparse(t), mode='eval').body
    return t2


def guards_of(state: State):
    return list(state.guards)


def guards_at(effect, path_guards):
    """the prefix of the path's guards that had been decided when the effect happened"""
    last = effect[-1]
    if isinstance(last, tuple) and len(last) == 2 and last[0] == '@g':
        return tuple(path_guards[:last[1]])
    return tuple(path_guards)
