"""Instant-level view of the solver IR: the events that compute one recorded instant, with their
read/write sets over the abstract element array, affine index intervals, and the generic
ordering rules (no stale read inside an instant, loop order compatible with loop-carried
dependences, coverage of index sets for all n >= 2)."""
from __future__ import annotations

import re
from dataclasses import dataclass, field
from fractions import Fraction

from .algebra import Rat
from .effects import ATTRS, attr_reads_of_atom, summarise_method
from .solver_ir import Loop, LoopPath, NATOM, atoms_deep, value_atoms
from .sx import Q, N, Dyn, Bsym, Ov, guards_at

KIN = ('angular_position', 'angular_speed', 'angular_acceleration')
_E_RE = re.compile(r'^E\[(.*)\]$')


# ------------------------------------------------------------------------------------------ affine indices
@dataclass(frozen=True)
class Aff:
    """a*n + b  (+ c*i for one loop index i, kept symbolic by name)"""
    a: Fraction
    b: Fraction
    iname: str = None
    c: Fraction = Fraction(0)

    def __str__(self):
        parts = []
        if self.c:
            parts.append((f'{self.c}*' if self.c != 1 else '') + self.iname)
        if self.a:
            parts.append((f'{self.a}*' if self.a != 1 else '') + 'n')
        if self.b or not parts:
            parts.append(str(self.b))
        return ' + '.join(parts).replace('+ -', '- ')


def affine_of(t: Rat):
    """Aff of a canonical index term over n and at most one loop index atom; None if not affine"""
    if not t.d.is_const():
        return None
    dc = t.d.const_value()
    a = b = c = Fraction(0)
    iname = None
    for mono, coef in t.n.t.items():
        coef = coef / dc
        if mono == ():
            b += coef
        elif len(mono) == 1 and mono[0][1] == 1:
            atom = mono[0][0]
            if atom == NATOM:
                a += coef
            elif re.fullmatch(r'i\d+', atom):
                if iname not in (None, atom):
                    return None
                iname = atom
                c += coef
            else:
                return None
        else:
            return None
    return Aff(a, b, iname, c)


def parse_index(text: str):
    """Aff from the canonical text inside E[...] (as printed by Ctx.show of the index term)"""
    t = text.replace(' ', '')
    a = b = c = Fraction(0)
    iname = None
    for m in re.finditer(r'([+-]?)(?:(\d+(?:/\d+)?)\*)?(n|i\d+)|([+-]?\d+(?:/\d+)?)', t):
        sign = -1 if (m.group(1) == '-') else 1
        if m.group(3):
            coef = Fraction(m.group(2)) if m.group(2) else Fraction(1)
            if m.group(3) == 'n':
                a += sign * coef
            else:
                iname = m.group(3)
                c += sign * coef
        elif m.group(4):
            b += Fraction(m.group(4))
    return Aff(a, b, iname, c)


def positive_for_all_n(a: Fraction, b: Fraction, nmin=2):
    """a*n + b > 0 for every integer n >= nmin"""
    if a > 0:
        return a * nmin + b > 0
    if a == 0:
        return b > 0
    return False


def nonneg_for_all_n(a, b, nmin=2):
    if a > 0:
        return a * nmin + b >= 0
    if a == 0:
        return b >= 0
    return False


@dataclass(frozen=True)
class Interval:
    """closed interval [lo, hi] of element indices, lo/hi affine in n; universal=True means unknown/any"""
    lo: Aff = None
    hi: Aff = None
    universal: bool = False

    def __str__(self):
        if self.universal:
            return 'E[*any*]'
        if self.lo == self.hi:
            return f'E[{self.lo}]'
        return f'E[{self.lo} .. {self.hi}]'

    def disjoint(self, o):
        if self.universal or o.universal:
            return False
        d1 = (o.lo.a - self.hi.a, o.lo.b - self.hi.b)     # o.lo - self.hi > 0
        d2 = (self.lo.a - o.hi.a, self.lo.b - o.hi.b)
        return positive_for_all_n(*d1) or positive_for_all_n(*d2)

    def equals(self, lo_a, lo_b, hi_a, hi_b):
        return (not self.universal and self.lo.a == lo_a and self.lo.b == lo_b and self.hi.a == hi_a and self.hi.b == hi_b)

    def is_all(self):
        return self.equals(0, 0, 1, -1)


ANY = Interval(universal=True)


def loop_interval(L: Loop):
    """[min index, max index] visited by an index loop with step +-1, and the direction"""
    s, e, st = affine_of(L.start), affine_of(L.stop), affine_of(L.step)
    if None in (s, e, st) or st.a != 0 or st.c != 0 or st.b not in (1, -1) or s.c or e.c:
        return None, 0
    if st.b == 1:
        return Interval(Aff(s.a, s.b), Aff(e.a, e.b - 1)), 1
    return Interval(Aff(e.a, e.b + 1), Aff(s.a, s.b)), -1


def shift(iv: Interval, idx: Aff):
    """index interval of E[c*i + a*n + b] when i ranges over iv (c in {0, 1})"""
    if iv is None or iv.universal:
        return ANY
    if idx.c == 0:
        p = Aff(idx.a, idx.b)
        return Interval(p, p)
    if idx.c != 1:
        return ANY
    return Interval(Aff(iv.lo.a + idx.a, iv.lo.b + idx.b), Aff(iv.hi.a + idx.a, iv.hi.b + idx.b))


# ------------------------------------------------------------------------------------------ events
@dataclass
class Access:
    attr: str
    who: Interval
    idx: Aff = None          # raw index expression (with loop index) when known
    carried: bool = False    # read satisfied by an earlier iteration of the same loop


@dataclass
class Ev:
    kind: str                # 'store' | 'call' | 'loop' | 'time' | 'selfcall' | 'other'
    text: str
    lineno: int
    reads: list = field(default_factory=list)
    writes: list = field(default_factory=list)
    reads_time: bool = False
    guards: tuple = ()
    loop: Loop = None
    tags: set = field(default_factory=set)
    raw: object = None
    stores: list = field(default_factory=list)   # (idx Aff, attr, value, guards) for formula rules
    calls: list = field(default_factory=list)    # (owner text, method, args, kwargs, guards)


class InstantBuilder:
    def __init__(self, model, ir):
        self.model = model
        self.ir = ir
        self.ctx = ir.ctx
        self._summ = {}

    def summary(self, base, meth):
        k = (base, meth)
        if k not in self._summ:
            self._summ[k] = summarise_method(self.model, base, meth)
        return self._summ[k]

    # -- reads of a value
    def reads_of_value(self, v, iv_of_loop=None, iname=None):
        out = []
        rt = False
        for a in value_atoms(self.ctx, v):
            if '.time[' in a or a.endswith('.time'):
                rt = True
            for owner, attr in attr_reads_of_atom(a):
                m = _E_RE.match(owner)
                if m:
                    idx = parse_index(m.group(1))
                    who = shift(iv_of_loop, idx) if idx.c else Interval(Aff(idx.a, idx.b), Aff(idx.a, idx.b))
                    out.append(Access(attr, who, idx))
                else:
                    out.append(Access(attr, ANY, None))
        return out, rt

    def call_accesses(self, owner, meth, iv=None):
        """reads/writes of a call on an element / controller / stop condition"""
        reads, writes, rt = [], [], False
        m = _E_RE.match(owner)
        if m:
            idx = parse_index(m.group(1))
            me = shift(iv, idx) if idx.c else Interval(Aff(idx.a, idx.b), Aff(idx.a, idx.b))
            s = self.summary('RotatingObject', meth)

            def who(w):
                if w == 'self':
                    return me, idx
                if w == 'neighbour' and not me.universal:
                    return Interval(Aff(me.lo.a, me.lo.b - 1), Aff(me.hi.a, me.hi.b + 1)), None
                return ANY, None
            for w, a in s.reads:
                iv2, ix = who(w)
                reads.append(Access(a, iv2, ix))
            for w, a in s.writes:
                iv2, ix = who(w)
                writes.append(Access(a, iv2, ix))
            rt = s.reads_time
            return reads, writes, rt
        if meth == 'apply_rules':
            s = self.summary('RuleBase', 'apply')
            zero = Interval(Aff(Fraction(0), Fraction(0)), Aff(Fraction(0), Fraction(0)))
            for w, a in s.reads:
                reads.append(Access(a, zero if w == 'elem0' else ANY))
            writes.append(Access('pwm', zero, Aff(Fraction(0), Fraction(0))))
            return reads, writes, True
        if meth == 'check_condition':
            s = self.summary('SensorBase', 'get_value')
            for w, a in s.reads:
                reads.append(Access(a, ANY))
            return reads, writes, False
        if owner == 'self':
            s = self.summary('Solver', meth)
            zero = Interval(Aff(Fraction(0), Fraction(0)), Aff(Fraction(0), Fraction(0)))
            for w, a in s.reads:
                reads.append(Access(a, zero if w == 'elem0' else ANY))
            for w, a in s.writes:
                writes.append(Access(a, zero if w == 'elem0' else ANY))
            return reads, writes, s.reads_time
        return reads, writes, rt

    def events(self, effects, guards=()):
        """list[Ev] for a flat sequence of effects (loops become single events)"""
        out = []
        path_guards = guards
        for e in effects:
            k = e[0]
            guards = guards_at(e, path_guards)
            if k == 'store':
                m = _E_RE.match(e[1])
                rd, rt = self.reads_of_value(e[3])
                ev = Ev('store', f'{e[1]}.{e[2]} = ...', e[4], rd, [], rt, guards, raw=e)
                if m:
                    idx = parse_index(m.group(1))
                    iv = Interval(Aff(idx.a, idx.b), Aff(idx.a, idx.b))
                    ev.writes.append(Access(e[2], iv, idx))
                    ev.stores.append((idx, e[2], e[3], guards))
                elif e[1] == 'self':
                    ev.kind = 'selfstore'
                    ev.text = f'self.{e[2]} = ...'
                out.append(ev)
            elif k == 'call':
                rd, wr, rt = self.call_accesses(e[1], e[2])
                ar, art = [], False
                for a in list(e[3]) + list(e[4].values()):
                    r2, t2 = self.reads_of_value(a)
                    ar += r2
                    art = art or t2
                ev = Ev('call' if e[1] != 'self' else 'selfcall', f'{e[1]}.{e[2]}()', e[5], rd + ar, wr, rt or art, guards, raw=e)
                ev.calls.append((e[1], e[2], e[3], e[4], guards))
                out.append(ev)
            elif k == 'append':
                rd, rt = self.reads_of_value(e[2])
                ev = Ev('time' if e[1].endswith('.time') else 'other', f'{e[1]}.append(...)', e[3], rd, [], rt, guards, raw=e)
                out.append(ev)
            elif k == 'loop':
                out.append(self.loop_event(e[1], guards))
            elif k == 'setitem' and str(e[1]).endswith('.time'):
                rd, rt = self.reads_of_value(e[3])
                out.append(Ev('time-write', f'{e[1]}[{e[2]}] = ...', e[4], rd, [], rt, guards, raw=e))
            elif k == 'opaque-call' and isinstance(e[1], str) and '.time.' in e[1] and e[1].rsplit('.', 1)[1] in (
                    'pop', 'insert', 'remove', 'clear', 'extend', 'reverse', 'sort'):
                out.append(Ev('time-write', f'{e[1]}(...)', e[4], [], [], False, guards, raw=e))
            elif k in ('construct', 'opaque-call', 'caught', 'may-div-zero'):
                continue
            else:
                out.append(Ev('other', str(k), 0, guards=guards, raw=e))
        return out

    def loop_event(self, L: Loop, guards):
        ev = Ev('loop', f'loop in {L.func}', L.lineno, guards=guards, loop=L, raw=L)
        if L.kind != 'index':
            ev.tags.add('non-index-loop')
            return ev
        iv, direction = loop_interval(L)
        if iv is None:
            ev.tags.add('non-affine-loop')
        # body accesses, per path
        body_writes = []
        for p in L.paths:
            sub = self.events(p.effects, tuple(p.guards))
            for s in sub:
                for w in s.writes:
                    who = shift(iv, w.idx) if (w.idx is not None and w.idx.c) else w.who
                    ev.writes.append(Access(w.attr, who, w.idx))
                    body_writes.append((w.attr, w.idx))
                for r in s.reads:
                    who = shift(iv, r.idx) if (r.idx is not None and r.idx.c) else r.who
                    ev.reads.append(Access(r.attr, who, r.idx))
                ev.reads_time = ev.reads_time or s.reads_time
                for st in s.stores:
                    ev.stores.append((st[0], st[1], st[2], tuple(p.guards) + tuple(st[3])))
                for c in s.calls:
                    ev.calls.append((c[0], c[1], c[2], c[3], tuple(p.guards) + tuple(c[4])))
                if s.kind == 'loop':
                    ev.tags.add('nested-loop')
        # loop-carried reads: a read of E[i+cr].x where the body writes E[i+cw].x and the written
        # element was visited earlier in this loop's order
        for r in ev.reads:
            if r.idx is None or not r.idx.c:
                continue
            for attr, widx in body_writes:
                if attr == r.attr and widx is not None and widx.c == r.idx.c and widx.a == r.idx.a:
                    delta = r.idx.b - widx.b       # read index - written index
                    if delta != 0 and direction and (delta * direction) < 0:
                        r.carried = True
        return ev


# ------------------------------------------------------------------------------------------ generic rules
def stale_reads(events, allow):
    """pairs (A reads x of S) ... (B later writes x of S' overlapping S).  `allow(A, B, attr)` whitelists"""
    out = []
    for i, a in enumerate(events):
        for r in a.reads:
            for b in events[i + 1:]:
                for w in b.writes:
                    if w.attr != r.attr:
                        continue
                    if r.who.disjoint(w.who):
                        continue
                    if allow(a, b, r.attr):
                        continue
                    out.append((a, b, r, w))
    return out


def intra_loop_order_problems(ev: Ev):
    """reads of an attribute the same loop writes, at an element the loop has NOT yet visited (the
    iteration order contradicts the loop-carried dependence)"""
    out = []
    if ev.kind != 'loop' or ev.loop.kind != 'index':
        return out
    iv, direction = loop_interval(ev.loop)
    for r in ev.reads:
        if r.idx is None or not r.idx.c:
            continue
        for w in ev.writes:
            if w.attr == r.attr and w.idx is not None and w.idx.c == r.idx.c and w.idx.a == r.idx.a:
                delta = r.idx.b - w.idx.b
                if delta != 0 and direction and (delta * direction) > 0:
                    out.append((r, w, direction))
    return out
